#!/bin/sh
# Runs the pinned suite of /repo (or $1) and prints the pass count (expected: 79 passed).
cd "${1:-/repo}" && /venv/bin/python -m pytest -ra -q -p no:cacheprovider --timeout=900 --continue-on-collection-errors 2>&1 | tail -1
