#!/usr/bin/env python3
"""Seeded-change bookkeeping.

  tools/seeded.py verify <src_out_dir> <id> [--patch patch.diff --demo demo.py]
        confirm, in a throw-away worktree of /repo, that the change (1) applies, (2) byte-compiles, (3) keeps the pinned
        suite at 79 passes, and that the demonstration (4) passes without and (5) fails with the change; on success copy
        patch / demo / notes into /verif/seeded/<id>/ and write meta.json.
  tools/seeded.py verify-neutral <src_out_dir> <id> <patch>   /   run-neutral [<id> ...]
        the same for behaviour-PRESERVING changes (kept under /verif/seeded_neutral): the demo must exit 0 with the change;
        run-neutral reports every check that raises a VIOLATION (a false alarm) or goes UNDECIDED on such a change
  tools/seeded.py meta [<id> ...]
        fill property / title / "what it needs to manifest" of meta.json from the agent's notes.md
  tools/seeded.py run [<id> ...]
        for each kept change: apply it to a throw-away worktree, run every registered check against that tree
        (./check Cxx --repo <worktree> --no-write), report which rules fire, record the result in meta.json["checks"].
The worktree lives under /tmp and is removed afterwards.  Nothing is ever applied to /repo itself by this tool.
"""
import json
import re
import os
import shutil
import subprocess
import sys
import tempfile
import time

VERIF = os.path.dirname(os.path.dirname(os.path.abspath(__file__)))
REPO = "/repo"
PY = "/venv/bin/python"
PROPS = ["C%02d" % i for i in range(1, 21)]


def sh(cmd, cwd=None, timeout=900):
    p = subprocess.run(cmd, shell=True, cwd=cwd, stdout=subprocess.PIPE, stderr=subprocess.STDOUT, text=True, timeout=timeout)
    return p.returncode, p.stdout


class Worktree:
    def __enter__(self):
        self.dir = tempfile.mkdtemp(prefix="seedwt-", dir="/tmp")
        os.rmdir(self.dir)
        for attempt in range(20):
            # SEEDED_BASE: the commit a delivery was written against (a later fix: commit of mine may have moved its context;
            # `rebase` then ports the kept patch to HEAD)
            rc, out = sh("git -C %s worktree add -q --detach %s %s" % (REPO, self.dir, os.environ.get("SEEDED_BASE", "HEAD")))
            if not rc:
                break
            time.sleep(0.3 + 0.1 * attempt)
        if rc:
            raise RuntimeError(out)
        return self.dir

    def __exit__(self, *a):
        sh("git -C %s worktree remove --force %s" % (REPO, self.dir))
        shutil.rmtree(self.dir, ignore_errors=True)


AGENT_WT = re.compile(r"/tmp/wt\d*/c\d\d(?![0-9A-Za-z_])")


def repoint(text, src_wt, wt):
    """demonstrations pin the worktree they were written in (sys.path / assertions): re-point them, and the helper
    modules they import, at the scratch worktree of this verification.  Agents' worktrees were /tmp/wt<round>/c<NN>."""
    if src_wt.startswith("/tmp/"):
        text = text.replace(src_wt, wt)
    return AGENT_WT.sub(wt, text)


def origin_of(sid, src_wt):
    """the worktree a delivery was written in; a re-verification from a scratch copy keeps the recorded one"""
    for kind in ("seeded", "seeded_neutral"):
        mp = os.path.join(VERIF, kind, sid, "meta.json")
        if os.path.exists(mp) and re.match(r"/tmp/(rebase-|rv-)", src_wt):
            return json.load(open(mp)).get("demo_worktree_path", src_wt)
    return src_wt


def verify(src, sid, patch="patch.diff", demo="demo.py"):
    patch_p, demo_p = os.path.join(src, patch), os.path.join(src, demo)
    res = {"id": sid, "steps": {}}
    with Worktree() as wt:
        os.makedirs(os.path.join(wt, "_out"), exist_ok=True)
        # round-2 demos pin the worktree they were written in (sys.path / assertion): re-point them at this worktree
        src_wt = os.path.dirname(os.path.abspath(src).rstrip("/"))
        text = open(demo_p).read()
        for name in os.listdir(src):
            if name.endswith(".py") and name not in (os.path.basename(demo_p),):
                with open(os.path.join(src, name)) as fh, open(os.path.join(wt, "_out", name), "w") as out:
                    out.write(repoint(fh.read(), src_wt, wt))                            # helper modules a demo imports
        with open(os.path.join(wt, "_out", "demo.py"), "w") as fh:
            fh.write(repoint(text, src_wt, wt))
        rc, out = sh("PYTHONPATH=%s %s _out/demo.py" % (wt, PY), cwd=wt, timeout=600)
        res["steps"]["demo_without_change"] = {"exit": rc, "tail": out[-400:]}
        rc_a, out_a = sh("git apply %s" % patch_p, cwd=wt)
        res["steps"]["apply"] = {"exit": rc_a, "tail": out_a[-300:]}
        rc_c, out_c = sh("%s -m compileall -q yowsup" % PY, cwd=wt)
        res["steps"]["compile"] = {"exit": rc_c, "tail": out_c[-300:]}
        rc_t, out_t = sh("PYTHONPATH=%s %s -m pytest -q -p no:cacheprovider --continue-on-collection-errors 2>&1 | tail -1" % (wt, PY), cwd=wt)
        res["steps"]["suite"] = {"tail": out_t.strip()}
        rc_d, out_d = sh("PYTHONPATH=%s %s _out/demo.py" % (wt, PY), cwd=wt, timeout=600)
        res["steps"]["demo_with_change"] = {"exit": rc_d, "tail": out_d[-600:]}
    src_wt = origin_of(sid, os.path.dirname(os.path.abspath(src).rstrip("/")))
    ok = (res["steps"]["demo_without_change"]["exit"] == 0 and rc_a == 0 and rc_c == 0 and out_t.strip().startswith("79 passed") and rc_d != 0)
    res["confirmed"] = ok
    print(json.dumps(res, indent=1))
    if ok:
        dst = os.path.join(VERIF, "seeded", sid)
        os.makedirs(dst, exist_ok=True)
        shutil.copy(patch_p, os.path.join(dst, "patch.diff"))
        shutil.copy(demo_p, os.path.join(dst, "demo.py"))
        for name in os.listdir(src):                                  # helper modules the demonstration imports
            if name.endswith(".py") and name not in ("demo.py", "port.py") and os.path.abspath(src) != os.path.abspath(dst):
                shutil.copy(os.path.join(src, name), os.path.join(dst, name))
        if os.path.exists(os.path.join(src, "notes.md")):
            shutil.copy(os.path.join(src, "notes.md"), os.path.join(dst, "notes.md"))
        meta_p = os.path.join(dst, "meta.json")
        meta = json.load(open(meta_p)) if os.path.exists(meta_p) else {}
        meta.update({"id": sid, "demo_worktree_path": src_wt, "confirmed": res["steps"], "what_i_ran": [
            "demo on a clean worktree (exit 0)", "git apply patch.diff", "compileall", "pinned suite: " + out_t.strip(), "demo with the change (exit %d)" % rc_d]})
        json.dump(meta, open(meta_p, "w"), indent=1)
    return ok


def weak_confirm(src, sid, kind):
    """for a kept change whose demonstration was written against a tree with a defect that has since been repaired (so it
    already fails on the untouched HEAD for that unrelated reason): the ported change applies, compiles, keeps the suite
    at 79, and the demonstration's verdict is - preserving change: the same failures with and without it (normalised
    output equal); breaking change: strictly more failures with it than without.  Recorded as such in meta.json."""
    patch_p, demo_p = os.path.join(src, "patch.diff"), os.path.join(src, "demo.py")
    src_wt = os.path.dirname(os.path.abspath(src).rstrip("/"))

    def norm(t):
        t = re.sub(r"\d+(\.\d+)?\s*s\b", "<t>", t)
        t = re.sub(r"0x[0-9a-f]+", "<addr>", t)
        t = re.sub(r"/tmp/[\w./-]+", "<path>", t)
        t = re.sub(r"\b1[5-9]\d{8}\b(-\d+)?", "<id>", t)
        return t

    def nfail(t):
        m = re.findall(r"(?i)violations?[:= ]+(\d+)|(\d+) (?:violations?|problems?|FAILED)", t)
        nums = [int(x) for tup in m for x in tup if x]
        return max(nums) if nums else None
    with Worktree() as wt:
        os.makedirs(os.path.join(wt, "_out"), exist_ok=True)
        for name in os.listdir(src):
            if name.endswith(".py"):
                with open(os.path.join(src, name)) as fh, open(os.path.join(wt, "_out", name), "w") as out:
                    out.write(repoint(fh.read(), src_wt, wt))
        rc0, out0 = sh("PYTHONPATH=%s %s _out/demo.py" % (wt, PY), cwd=wt, timeout=900)
        rc_a, _ = sh("git apply %s" % patch_p, cwd=wt)
        rc_c, _ = sh("%s -m compileall -q yowsup" % PY, cwd=wt)
        _, out_t = sh("PYTHONPATH=%s %s -m pytest -q -p no:cacheprovider --continue-on-collection-errors 2>&1 | tail -1" % (wt, PY), cwd=wt)
        rc1, out1 = sh("PYTHONPATH=%s %s _out/demo.py" % (wt, PY), cwd=wt, timeout=900)
    base_ok = rc_a == 0 and rc_c == 0 and out_t.strip().startswith("79 passed")
    if kind == "seeded":
        ok = base_ok and rc1 != 0 and nfail(out0) is not None and nfail(out1) is not None and nfail(out1) > nfail(out0)
        how = "failures without / with the change: %s / %s" % (nfail(out0), nfail(out1))
    else:
        ok = base_ok and rc0 == rc1 and norm(out0) == norm(out1)
        how = "demo exit %d both ways, normalised output %s" % (rc0, "equal" if norm(out0) == norm(out1) else "DIFFERENT")
    print("%-9s weak confirmation: %s (%s)" % (sid, "ok" if ok else "FAILED", how))
    return ok, how


def rebase(ids, edit=None):
    """tools/seeded.py rebase [<id> ...]: after a fix: commit in /repo moved the context of a kept change, re-create its
    patch against the new HEAD (patch -p1 with fuzz; optional hand edit `<dir>/port.py <worktree>` for a hunk that really
    conflicts) and confirm it again exactly as `verify` / `verify-neutral` did (demo passes without, fails / passes with)."""
    todo = []
    for kind in ("seeded", "seeded_neutral"):
        base = os.path.join(VERIF, kind)
        for sid in sorted(os.listdir(base)):
            d = os.path.join(base, sid)
            if not os.path.isfile(os.path.join(d, "patch.diff")) or (ids and sid not in ids):
                continue
            rc, _ = sh("git -C %s apply --check %s" % (REPO, os.path.join(d, "patch.diff")))
            if rc:
                todo.append((kind, sid, d))
    for kind, sid, d in todo:
        meta = json.load(open(os.path.join(d, "meta.json")))
        with Worktree() as wt:
            rc, out = sh("patch -p1 -F3 --no-backup-if-mismatch < %s" % os.path.join(d, "patch.diff"), cwd=wt)
            sh("find . -name '*.rej' -delete -o -name '*.orig' -delete", cwd=wt)
            port = os.path.join(d, "port.py")
            if rc and os.path.exists(port):
                rc2, out2 = sh("python3 %s %s" % (port, wt))
                rc = rc2
                out += out2
            if rc:
                print("%-9s CONFLICT (needs a port.py): %s" % (sid, out.strip().splitlines()[-1] if out.strip() else ""))
                continue
            rc, diff = sh("git diff", cwd=wt)
        # always a private scratch directory: the agent's own worktree (meta["demo_worktree_path"]) may still be live
        src_wt = tempfile.mkdtemp(prefix="rebase-%s-" % sid)
        src = os.path.join(src_wt, "_out")
        made = True
        os.makedirs(src, exist_ok=True)
        try:
            for name in os.listdir(d):
                if name.endswith((".py", ".md")) and name != "port.py":
                    shutil.copy(os.path.join(d, name), os.path.join(src, name))
            with open(os.path.join(src, "patch.diff"), "w") as fh:
                fh.write(diff)
            if kind == "seeded":
                ok = verify(src, sid)
            else:
                keep = {k: meta[k] for k in ("accept_undecided", "accept_undecided_reason", "excluded") if k in meta}
                ok = verify_neutral(src, sid, "patch.diff")
                if ok and keep:
                    m2 = json.load(open(os.path.join(d, "meta.json")))
                    m2.update(keep)
                    json.dump(m2, open(os.path.join(d, "meta.json"), "w"), indent=1)
            if ok:
                m2 = json.load(open(os.path.join(d, "meta.json")))
                m2["rebased_on"] = sh("git -C %s rev-parse --short HEAD" % REPO)[1].strip()
                json.dump(m2, open(os.path.join(d, "meta.json"), "w"), indent=1)
            if not ok and os.environ.get("REBASE_WEAK"):
                ok2, how = weak_confirm(src, sid, kind)
                if ok2:
                    shutil.copy(os.path.join(src, "patch.diff"), os.path.join(d, "patch.diff"))
                    m2 = json.load(open(os.path.join(d, "meta.json")))
                    m2["rebased_on"] = sh("git -C %s rev-parse --short HEAD" % REPO)[1].strip()
                    m2["rebased_weak"] = "the demonstration was written against a tree with a defect repaired since (it fails on the untouched HEAD for that reason); confirmed on HEAD as: " + how
                    json.dump(m2, open(os.path.join(d, "meta.json"), "w"), indent=1)
                    print("%-9s rebased, weakly confirmed" % sid)
                    continue
            print("%-9s %s" % (sid, "rebased and confirmed again" if ok else "REBASED PATCH NOT CONFIRMED"))
        finally:
            if made:
                shutil.rmtree(src_wt, ignore_errors=True)
            else:
                shutil.rmtree(src, ignore_errors=True)


def run(ids):
    base = os.path.join(VERIF, "seeded")
    ids = ids or sorted(d for d in os.listdir(base) if os.path.isdir(os.path.join(base, d)))
    from concurrent.futures import ThreadPoolExecutor
    with ThreadPoolExecutor(max_workers=min(14, len(ids))) as ex:
        for line in ex.map(run_one, ids):
            print(line, flush=True)


def run_one(sid):
    base = os.path.join(VERIF, "seeded")
    if True:
        d = os.path.join(base, sid)
        meta_p = os.path.join(d, "meta.json")
        meta = json.load(open(meta_p)) if os.path.exists(meta_p) else {"id": sid}
        fired = {}
        with Worktree() as wt:
            rc, out = sh("git apply %s" % os.path.join(d, "patch.diff"), cwd=wt)
            if rc:
                return "%s patch does not apply: %s" % (sid, out)
            for p in PROPS:
                rc, out = sh("./check %s --repo %s --no-write" % (p, wt), cwd=VERIF, timeout=900)
                lines = [l.strip() for l in out.splitlines() if l.startswith("  C") and " :: " in l]
                und = [l for l in out.splitlines() if l.startswith("UNDECIDED") or l.startswith("ANALYSIS-ERROR")]
                if rc != 0:
                    fired[p] = {"exit": rc, "rules": sorted({l.split()[0] for l in lines}), "first": (lines or und or [""])[0][:300]}
        target = meta.get("property")
        caught = target in fired and fired[target]["exit"] == 1
        meta["checks"] = {"fired": fired, "caught_by_target_property": caught, "caught_by_any": any(v["exit"] == 1 for v in fired.values())}
        json.dump(meta, open(meta_p, "w"), indent=1)
        sup = "  [superseded by fix %s: no longer a violation of %s]" % (meta["superseded"]["by"], target) if meta.get("superseded") else ""
        return ("%-8s target=%s caught=%s any=%s fired=%s%s" % (sid, target, caught, meta["checks"]["caught_by_any"], {k: v["rules"] or ("exit%d" % v["exit"]) for k, v in fired.items()}, sup))


def verify_neutral(src, sid, patch, demo="demo.py"):
    """a behaviour-preserving change: applies, compiles, suite stays at 79, and the agent's demo (which exercises the
    property) exits 0 without and with it.  Kept under /verif/seeded_neutral/<id>/."""
    patch_p, demo_p = os.path.join(src, patch), os.path.join(src, demo)
    res = {"id": sid, "steps": {}}
    src_wt = os.path.dirname(os.path.abspath(src).rstrip("/"))
    with Worktree() as wt:
        os.makedirs(os.path.join(wt, "_out"), exist_ok=True)
        for name in os.listdir(src):
            if name.endswith(".py"):
                with open(os.path.join(src, name)) as fh, open(os.path.join(wt, "_out", name), "w") as out:
                    out.write(repoint(fh.read(), src_wt, wt))
        rc0, out0 = sh("PYTHONPATH=%s %s _out/%s" % (wt, PY, demo), cwd=wt, timeout=900)
        res["steps"]["demo_without_change"] = {"exit": rc0, "tail": out0[-300:]}
        rc_a, out_a = sh("git apply %s" % patch_p, cwd=wt)
        res["steps"]["apply"] = {"exit": rc_a, "tail": out_a[-300:]}
        rc_c, out_c = sh("%s -m compileall -q yowsup" % PY, cwd=wt)
        res["steps"]["compile"] = {"exit": rc_c}
        rc_t, out_t = sh("PYTHONPATH=%s %s -m pytest -q -p no:cacheprovider --continue-on-collection-errors 2>&1 | tail -1" % (wt, PY), cwd=wt)
        res["steps"]["suite"] = {"tail": out_t.strip()}
        rc_d, out_d = sh("PYTHONPATH=%s %s _out/%s" % (wt, PY, demo), cwd=wt, timeout=900)
        res["steps"]["demo_with_change"] = {"exit": rc_d, "tail": out_d[-300:]}
    ok = rc0 == 0 and rc_a == 0 and rc_c == 0 and out_t.strip().startswith("79 passed") and rc_d == 0
    res["confirmed"] = ok
    print(json.dumps(res, indent=1))
    if ok:
        dst = os.path.join(VERIF, "seeded_neutral", sid)
        os.makedirs(dst, exist_ok=True)
        shutil.copy(patch_p, os.path.join(dst, "patch.diff"))
        shutil.copy(demo_p, os.path.join(dst, "demo.py"))
        for name in os.listdir(src):                                  # helper modules the demonstration imports
            if name.endswith(".py") and name not in ("demo.py", "port.py") and os.path.abspath(src) != os.path.abspath(dst):
                shutil.copy(os.path.join(src, name), os.path.join(dst, name))
        if os.path.exists(os.path.join(src, "notes.md")):
            shutil.copy(os.path.join(src, "notes.md"), os.path.join(dst, "notes.md"))
        m = re.search(r"c(\d\d)", sid)
        meta = {"id": sid, "property": "C" + m.group(1), "kind": "behaviour-preserving refactoring (the property still holds)", "demo_worktree_path": origin_of(sid, src_wt), "confirmed": res["steps"],
                "what_i_ran": ["demo on a clean worktree (exit 0)", "git apply", "compileall", "pinned suite: " + out_t.strip(), "demo with the change (exit 0)"]}
        json.dump(meta, open(os.path.join(dst, "meta.json"), "w"), indent=1)
    return ok


def run_neutral_one(sid):
    d = os.path.join(VERIF, "seeded_neutral", sid)
    meta_p = os.path.join(d, "meta.json")
    meta = json.load(open(meta_p))
    fired = {}
    with Worktree() as wt:
        rc, out = sh("git apply %s" % os.path.join(d, "patch.diff"), cwd=wt)
        if rc:
            return "%s patch does not apply" % sid
        for p in PROPS:
            rc, out = sh("./check %s --repo %s --no-write" % (p, wt), cwd=VERIF, timeout=900)
            if rc != 0:
                lines = [l.strip() for l in out.splitlines() if l.startswith("  C") and " :: " in l]
                und = [l for l in out.splitlines() if l.startswith("UNDECIDED") or l.startswith("ANALYSIS-ERROR")]
                fired[p] = {"exit": rc, "rules": sorted({l.split()[0] for l in lines}), "first": (lines or und or [""])[0][:400]}
    meta["checks"] = {"fired": fired, "false_alarm": any(v["exit"] == 1 for v in fired.values()), "undecided": any(v["exit"] == 2 for v in fired.values())}
    json.dump(meta, open(meta_p, "w"), indent=1)
    return "%-9s target=%s false_alarm=%s undecided=%s fired=%s" % (sid, meta["property"], meta["checks"]["false_alarm"], meta["checks"]["undecided"], {k: v["rules"] or ("exit%d" % v["exit"]) for k, v in fired.items()})


def run_neutral(ids):
    base = os.path.join(VERIF, "seeded_neutral")
    ids = ids or sorted(d for d in os.listdir(base) if os.path.isdir(os.path.join(base, d)))
    from concurrent.futures import ThreadPoolExecutor
    with ThreadPoolExecutor(max_workers=min(14, len(ids))) as ex:
        for line in ex.map(run_neutral_one, ids):
            print(line, flush=True)


def fill_meta(ids):
    """property id, title and 'what it needs to manifest' from the agent's notes.md into meta.json"""
    import re
    base = os.path.join(VERIF, "seeded")
    ids = ids or sorted(d for d in os.listdir(base) if os.path.isdir(os.path.join(base, d)))
    for sid in ids:
        d = os.path.join(base, sid)
        meta_p = os.path.join(d, "meta.json")
        meta = json.load(open(meta_p)) if os.path.exists(meta_p) else {"id": sid}
        m = re.search(r"c(\d\d)([abc])$", sid)
        meta["property"] = "C" + m.group(1)
        meta["round"] = int(sid[1]) if sid.startswith("r") and sid[1].isdigit() else 1
        which = "abc".index(m.group(2)) + 1
        notes_p = os.path.join(d, "notes.md")
        title, need = "", ""
        if os.path.exists(notes_p):
            notes = open(notes_p).read().splitlines()
            heads = [i for i, l in enumerate(notes) if re.match(r"^#+\s+Mutation\s+%d\b" % which, l) or re.match(r"^#+\s+.*break\s*%d" % which, l, re.I)]
            if heads:
                start = heads[0]
                end = next((i for i in range(start + 1, len(notes)) if re.match(r"^#+\s+Mutation\s+\d\b", notes[i]) or re.match(r"^#+\s+.*(break|keep)\s*\d", notes[i], re.I) or re.match(r"^##\s+(Commands|Demonstrations|Demos|Verification|Side finding)", notes[i])), len(notes))
                sec = notes[start:end]
                title = re.sub(r"^#+\s+", "", sec[0]).strip()
                for i, l in enumerate(sec):
                    if re.search(r"needs? to manifest|what it needs|it needs:", l, re.I):
                        para = [l.strip()]
                        j = i + 1
                        while j < len(sec) and sec[j].strip() and not sec[j].startswith("#"):
                            para.append(sec[j].strip())
                            j += 1
                        if len(para) == 1 and j + 1 < len(sec):      # heading-style line followed by a blank and a list
                            j += 1
                            while j < len(sec) and sec[j].strip() and not sec[j].startswith("#"):
                                para.append(sec[j].strip())
                                j += 1
                        need = " ".join(para)
                        break
        meta["breaks"] = title
        meta["needs_to_manifest"] = re.sub(r"\*\*", "", need)[:900]
        meta["origin"] = "fresh sub-agent given only the property text and a scratch worktree; notes.md is the agent's own report"
        json.dump(meta, open(meta_p, "w"), indent=1)
        print(sid, "|", title[:60], "|", meta["needs_to_manifest"][:90])


if __name__ == "__main__":
    if len(sys.argv) >= 4 and sys.argv[1] == "verify":
        kw = {}
        a = sys.argv[4:]
        while a:
            k = a.pop(0)
            if k == "--patch":
                kw["patch"] = a.pop(0)
            elif k == "--demo":
                kw["demo"] = a.pop(0)
        sys.exit(0 if verify(sys.argv[2], sys.argv[3], **kw) else 1)
    elif len(sys.argv) >= 2 and sys.argv[1] == "run":
        run(sys.argv[2:])
    elif len(sys.argv) >= 2 and sys.argv[1] == "meta":
        fill_meta(sys.argv[2:])
    elif len(sys.argv) >= 5 and sys.argv[1] == "verify-neutral":
        sys.exit(0 if verify_neutral(sys.argv[2], sys.argv[3], sys.argv[4]) else 1)
    elif len(sys.argv) >= 2 and sys.argv[1] == "rebase":
        rebase(sys.argv[2:])
    elif len(sys.argv) >= 2 and sys.argv[1] == "run-neutral":
        run_neutral(sys.argv[2:])
    else:
        print(__doc__)
