#!/usr/bin/env python3
"""Regenerates /verif/MANIFEST.json from the table below.  A property is listed under
`checks` only when its rule module exists under sa/rules/; otherwise it is listed under
`not_applicable` with the reason "not implemented yet" (so the manifest is valid at all times)."""
import json
import os

HERE = os.path.dirname(os.path.dirname(os.path.abspath(__file__)))

# id -> (technique, level text, level note, design ref)
P = {
 "C01": ("writer/reader agreement by abstract execution of the decoder once per control byte (256-value finite domain, table- or chain-driven dispatch alike) and of the double-byte token path over every secondary-dictionary index; bit-slice inversion of integer writers/readers (delegating writers followed); interval fit of length classes; abstract execution of the packed-string reader per (kind, header byte); call binding; equality shape (ast + abstract interpretation)",
         "Structural clauses of the codec round trip decided on the source for all inputs: every integer writer/reader pair is a bit-exact inverse, each size-class branch implies the value fits the length form it writes, every control byte the encoder emits is dispatched by the decoder with the matching length reader, packing tables are inverse maps, the node list header counts exactly the items written, the packed-string reader abstractly executed for every kind and header byte emits exactly the symbols the writer packed (filler dropped iff flagged), every intra-codec call binds, and tree equality compares every component. Value-level byte-exact round trip of arbitrary strings is not decided.",
         "bytearray/list semantics of CPython; frame < 16 MiB (C05.guard); list size < 65536; strings Latin-1", "DESIGN.md §3 C01"),
 "C02": ("control-byte vocabulary (semantic per-byte dispatch traces of the decoder) vs an independently transcribed format table; double-byte prefixes evaluated for every secondary index; decoder alternative coverage; content type flow; dictionary vs reference copy; C01 length-class / packed-reader rules adopted (ast + abstract interpretation)",
         "The control-byte table extracted from encoder and decoder equals a format table transcribed from the published binary-XML description; the decoder has a branch for every permitted alternative form; node content is bytes on every content branch; both token lists equal the committed reference copy entry by entry; every size-class branch of the encoder declares a length that fits the form it writes and the packed-string reader yields the format's alphabet for every header byte. Byte equality with a second implementation is not decided (none is available offline).",
         "reference/tokens.json is WhatsApp's dictionary (it is the pinned upstream table; no second source offline); reference/format.json transcribes the published format", "DESIGN.md §3 C02"),
 "C03": ("abstract interpretation of the three encryption layers over symbolic stanzas (origin of every value sent down, failure handlers, once-per-envelope delivery, receipts for queued messages, bounded queue evaluated at MAX-1/MAX entries); manager entry points abstractly executed with the cipher opaque (exception mapping, unpad once, padding scheme evaluated for all 255 lengths); store commits (C13.commit adopted)",
         "Confidentiality and handler shape only: nothing derived from a plaintext message body can flow down out of the encryption send layer except through the encrypt calls; failure handlers have the shape the property describes (duplicate -> one receipt and no delivery, invalid -> retry, no session -> park and fetch); each decrypt handler delivers exactly once; a queued group message survives every receipt and a retry receipt re-encrypts the queued original once; every key-store write is committed when the store call returns. Ratchets, conversations, restarts are not decided.",
         "python-axolotl primitives trusted; exceptions are raised where the library documents them", "DESIGN.md §3 C03"),
 "C04": ("abstract execution of the noise glue with the consonance objects opaque, its parts found by role (protocol / stream / queue / lock / flush function / callbacks): two consecutive logins (client description per login), worker outcomes, state callback (changed / same / first key, transport / handshake state), receive (enqueue before the state is read), stream callbacks; CFG facts for the locked drain loop; C02.alts and C11 lock-set rules adopted",
         "Shape of the yowsup-side glue around consonance: prologue bytes agree with the protocol version constants; segmentation is off for the prologues and on afterwards; the finish callback is reached on every path of the worker; a failed handshake emits the event and sends a failure stanza up; a changed server key is written before frames are flushed; buffered frames are drained under one lock; disconnect resets. The Noise handshake itself and chunkings are not decided.",
         "consonance calls the state callback synchronously; known finding C04.attempt recorded", "DESIGN.md §3 C04"),
 "C05": ("symbolic execution of one generic invocation of receive (sa/symbuf.py: linear integers, windows on an abstract byte stream, header decoders as fresh size symbols, loop-carried integers havocked): every path class is evaluated on a grid of symbol values (all tests are unit-coefficient linear inequalities) against 'deliver iff unread >= H + size, payload [H, H+size), advance H+size'; chunk independence as equality of the coefficients of old-bytes and chunk length; send abstractly executed at every byte-length boundary; per-instance state",
         "For every chunking: the received chunk flows only into the accumulation buffer and every decision, size and slice reads the buffer, frames are peeled in a loop whose single delivery is dominated by the completeness test, the slice arithmetic is header/payload/remainder exactly, the writer's header is the big-endian length truncated to the reader's header size and oversize payloads are refused on a path dominating both writes, and the accumulation buffer is a fresh per-instance object.",
         "bytearray slicing and struct big-endian semantics of CPython", "DESIGN.md §3 C05"),
 "C06": ("abstract interpretation of the assembled stack (the repository's own group / dispatch / handler code) over every cell of the input space induced by the handlers' own tests x 16 module selections x with/without encryption layers",
         "Routing counts decided per cell: every concrete entity class is forwarded by exactly one layer of the protocol group (0 for classes of left-out modules, never 2), every incoming stanza cell reaches exactly one delivery, the two encryption layers partition incoming tags, every iq registration handles both reply kinds and is made before the request goes down, and no composition the library builds or publishes holds a layer twice. Field values are C09's.",
         "reference/routing.json lists the supported kinds (reviewed table); base dispatch semantics are first established from the ASTs of YowProtocolLayer/YowParallelLayer", "DESIGN.md §3 C06, §2.1"),
 "C07": ("abstract interpretation of the assembled stack counting acknowledgement effects per cell + provenance of their fields",
         "Exactly one ack per notification cell on every non-raising path with id/type/to/participant fed by the notification's own fields; call offers get one receipt with the call id, other call stanzas one ack; server pings get one pong with the request id; unsupported message payloads get one receipt (a handler that raises instead counts as none); no published or built composition holds an answering layer twice.",
         "the documented exclusion (picture neither set nor delete raises) is a table entry", "DESIGN.md §3 C07"),
 "C08": ("abstract execution of send/reply histories on both registries, including the registry inspected at the moment the request goes down and a reply delivered again from inside its callback (entry gone before the callback runs); receive of every registry-owning layer executed with the registry answering True (nothing else may happen); callback arity binding (tables of names included); ids: the generator executed several times within one clock second across entity classes; per-instance state; who-may-remove",
         "Registry protocol decided on the source: the registry write dominates the send, the entry is deleted before any callback runs, result selects the success callback and error the error callback with (reply, original request), every receive in the layer hierarchy consults the registry before dispatch, every registered callback binds two positional arguments, the registries are per-instance objects, and every bounded history of sends and replies delivers each reply to its own callback once.",
         "dict semantics of CPython", "DESIGN.md §3 C08"),
 "C09": ("field provenance of fromProtocolTreeNode composed with toProtocolTreeNode on a symbolic stanza per cell, per receive-side entity class; per-element container allocation in converter loops; definite-type flow into the codec; C01 codec rules adopted (ast abstract interpretation)",
         "Field provenance: every attribute/child/data the serialiser writes is fed by the same path/key of the parsed stanza, every path/key the parser stores is written back, both converters return a value on every path, node API calls exist, containers filled per element are allocated per element, the codec the stanzas pass through is a round trip (C01 rules) and the payload converter of message entities is a bijection (C10 rules). Numeric/value-level equality is not decided.",
         "classes the interpreter cannot follow are reported as not analysed (coverage is reported)", "DESIGN.md §3 C09, §2.1"),
 "C10": ("bijection of the hand-written field maps after source normalisation (table loops unrolled, getattr/setattr by constant name, extracted helpers inlined, single-use temporaries folded); presence tests must be `is not None` / HasField, never truthiness; proto descriptor names from the pb2 module AST; guard/field agreement and exclusivity; accessor agreement (ast)",
         "The converter is a bijection on the modelled fields: each attribute field maps to one proto field and back to the same attribute, every proto field named exists in the descriptor of its message type, HasField guards name the field they guard, no field copy depends on another attribute being absent, no proto field is written twice, the payload entity serialises its current attributes on every path, entity accessors return the attribute object the constructor populated. Protobuf's own encoding is trusted.",
         "google.protobuf encoding trusted; descriptors read from the serialized descriptor in the generated module", "DESIGN.md §3 C10"),
 "C11": ("lock-set argument over the resolved default stack: hand-over-hand lock, who-may-call (aliases of the private link followed), adjacency, exactly-once forwarding and the stream's write callback by abstract execution, dispatcher buffer append order by abstract execution (ast + call graph + abstract interpretation)",
         "For every interleaving: the lower layer's send is entered only from toLower inside the critical section of the calling layer's lock, no layer of the default stack overrides toLower, coder/noise/segments/network are adjacent in all 16 default compositions, the cipher step is reachable only through the noise layer's send, both writes of a frame happen in one locked invocation, every core layer forwards exactly once.",
         "consonance's write_segment calls back synchronously; asyncore's buffer preserves append order", "DESIGN.md §3 C11"),
 "C12": ("release-on-every-path including exceptional exits (statement CFG with exceptional edges; `with` sections counted), a frame whose delivery raises is consumed (symbolic execution of the segment reader with the layer above raising), consume-before-deliver on the other delivery loops, no re-acquisition of a non-reentrant lock through a callback handed to an external object, lock-order graph acyclicity over the resolved stack",
         "Every lock acquire in the library reaches its release on every path to every exit including exceptional exits where any call may raise; delivery loops remove an element from layer state before its delivery can raise and no handler inside such a loop resumes it; events that can be raised from inside a send are detached; the lock-order graph over the resolved default stack is acyclic and no call chain re-acquires a non-reentrant lock it holds.",
         "application callbacks' own behaviour is outside; demos are out of scope", "DESIGN.md §3 C12"),
 "C13": ("SQL/commit effect sequences per store API method on the CFG with private helpers inlined, schema/placeholder/column agreement through SQL expressions (COALESCE, aggregates), key-binding provenance through locals (ast + SQL tokeniser)",
         "For every crash point: every write statement is followed by a commit on every normal path, no commit separates the delete and the insert that replace one record in one API call, columns and placeholder counts agree with the CREATE TABLE, loaders select what the writers insert keyed by the same columns, blobs are stored as bytes.",
         "SQLite journalled transactions and sqlite3's implicit transaction on DML are trusted", "DESIGN.md §3 C13"),
 "C14": ("who-may-call of the sent flag; the pending predicate evaluated as SQL three-valued logic on the flag values NULL / 0 / written value / insert default; level_prekeys abstractly executed over (force, keys left) around the threshold; id encoding evaluated at every byte-length boundary; the login choreography as scenarios on one layer object (no attribute looked at by name); provenance of the upload bundle",
         "Bookkeeping shape: the sent flag is set only from the success callback of the upload request, the pending predicate / written value / insert default are mutually consistent, new ids continue after the stored maximum, the upload bundle takes identity, registration id and one signed-prekey record, unsent keys force a passive login and are flushed once. Histories and key use inside python-axolotl are not decided.",
         "python-axolotl trusted", "DESIGN.md §3 C14"),
 "C15": ("encrypt/decrypt symmetry on def-use terms of every path with private helpers inlined (branching derivation helpers judged on their own paths): KDF slices, pad/unpad on all paths (hand-made padding evaluated for every length class), MAC over iv||ciphertext (also hmac.new(key, msg)), MAC check before the decryptor, per-kind constants",
         "Encrypt and decrypt are structurally inverse for every input length: same derivation (a memoised derivation must be keyed by every parameter it depends on) and slices, padding on every path iff unpadding on every path, MAC over iv||ciphertext truncated to the length split off by decrypt, MAC check dominates the first decryptor use, four distinct per-kind info constants used symmetrically.",
         "cryptography primitives (AES-CBC, HKDF, HMAC, PKCS7) trusted", "DESIGN.md §3 C15"),
 "C16": ("finite automaton extracted from the network layer handlers by abstract execution + exhaustive exploration against a dispatcher contract incl. synchronous close reports; auth/interface/reset/keep-alive handlers by abstract execution; bounded ping histories",
         "Typestate of the connection handlers: connected implies state CONNECTED, DISCONNECTED emitted only on a transition into the disconnected state, nothing written while down, auth/authed/failure/stream-error handlers have the effects the property names, reconnect flag logic, protocol reset on disconnect, ping bookkeeping over all bounded histories, keep-alive started with empty bookkeeping. Timing and detached delivery order are not decided.",
         "environment contract of the dispatcher: connect is answered by connected or an error, a live connection may close or fail at any time, disconnect() is reported later or synchronously from inside the call, a close may be reported twice", "DESIGN.md §3 C16"),
 "C17": ("abstract execution of create_session (library refusing the bundle; flag on / off / omitted), of the receive handler (decryption refused once; option on / off / never set) and of the key-fetch continuation (one good and one refused jid); path-based guard: no pin overwrite reachable with the auto-trust switch off; provenance of the trust comparison; committed pin",
         "isTrustedIdentity returns true for unknown recipients and otherwise an equality between the stored key of that recipient and the presented key; every overwrite of a pinned identity is control-dependent on the auto-trust switch whose default is off; without auto-trust the untrusted paths refuse (re-raise, error list, no delivery); the pin is a committed row.",
         "python-axolotl raises UntrustedIdentityException from its own check of isTrustedIdentity", "DESIGN.md §3 C17"),
 "C18": ("call binding of the builder helpers, abstract evaluation of the 16 default compositions (comprehension-built tables included) and 32 default stacks, YowStack construction abstractly executed on classes / tuple / instance (order, wiring, rejection, entry points), emit/broadcast executed against a neighbour that consumes or not for plain and detached events, group onEvent over all member answer vectors, per-instance state",
         "Every call among the builder helpers binds for all argument combinations; the 16 flag vectors evaluate to core + control + encryption group + exactly the selected modules and getDefaultStack builds exactly those layers for each of its 32 argument combinations; the parallel group reports an event as consumed iff a consulted member consumed it; event-callback tables are fresh per-instance objects; no helper extends a module-level list in place; _construct wires upper/lower in order; emit/broadcast and the parallel siblings are mirror images; continuation is guarded by the negated onEvent result and detached events are deferred once. Arbitrary user-built stacks are not decided.",
         "inspect/thread semantics of CPython", "DESIGN.md §3 C18"),
 "C19": ("transform-table agreement after normalising dict(...) / dict.fromkeys tables and function-valued entries, constructor/attribute identity map, trial-parse detection strictness, atomic-save idiom incl. rename-after-close with private helpers inlined, directory-ensured path algebra, file modes (ast CFG)",
         "Forward and reverse transform maps agree and are applied in mirrored order, every serialised Config attribute is a constructor parameter mapped to its own attribute, extension and type maps cover both formats, a format tried earlier by the auto-detection rejects the documents of formats tried later, the save path writes a temporary file and renames it over the target after closing it, and the directory of the file being created is ensured. JSON/key=value value round trip is not decided.",
         "os.replace atomicity on POSIX", "DESIGN.md §3 C19"),
 "C20": ("keyed-hash construction shape (hand-built or hmac.new with the key cut to one block), envelope provenance with helpers inlined (fresh key pair, same pair both sides), urlencode evaluated over its whole finite domain (every byte value, every ASCII character, non-ASCII samples) and urlencodeParams on ordered lists (abstract interpretation with urllib's quote as the only primitive)",
         "Construction shape only: the token has the HMAC shape (opad/ipad over a 64-byte key, inner over signature, class digest and number), the envelope uses a key pair generated inside the call for both the agreement and the prefix, the plaintext is the urlencoded parameter list in list order with every value passed through urlencode, each byte of a bytes value quoted as that byte. Equality with independent computations is not decided.",
         "cryptography primitives trusted", "DESIGN.md §3 C20"),
}


def main():
    checks, na = [], []
    for pid in sorted(P):
        tech, text, note, ref = P[pid]
        if os.path.exists(os.path.join(HERE, "sa", "rules", pid.lower() + ".py")):
            checks.append({
                "property_id": pid,
                "quick_cmd": "./check %s --tier quick" % pid,
                "thorough_cmd": "./check %s --tier thorough" % pid,
                "evidence_file": "evidence/%s.json" % pid,
                "replay_cmd_template": "./check %s --replay {path}" % pid,
                "engine": "sa",
                "level_claimed": {"category": "other", "text": text, "design_ref": ref},
                "level_note": note,
                "technique": "static analysis: " + tech,
            })
        else:
            na.append({"property_id": pid, "reason": "not implemented yet (rule module pending); see DESIGN.md for the planned rules"})
    man = {
        "version": 1,
        "setup_cmd": "python3 -m compileall -q sa check >/dev/null 2>&1; python3 -c \"import ast, sys; sys.exit(0)\"",
        "hooks": {
            "guard": "TGALAL_YOWSUP_VERIF",
            "enable": "none needed: the analysis reads /repo's source; nothing in /repo consults the guard variable",
            "baseline_off_cmd": "cd /repo && /venv/bin/python -m pytest -ra -q -p no:cacheprovider --timeout=900 --continue-on-collection-errors",
            "source_commits": [],
            "add_only": True,
        },
        "engines": [{"name": "sa", "path": "sa/", "serves_properties": [c["property_id"] for c in checks],
                     "kind_free_text": "repository-specific static analyser (stdlib ast: class table, CFG with exceptional edges, constant evaluator, def-use terms, abstract interpreter over symbolic stanzas with cell enumeration)"}],
        "checks": checks,
        "not_applicable": na,
        "notes": "All checks are static analyses of /repo's working tree; exit 2 means the analyser could not establish a fact (never a violation). Genuine defects repaired by fix: commits are listed in known_findings.json.",
    }
    with open(os.path.join(HERE, "MANIFEST.json"), "w") as fh:
        json.dump(man, fh, indent=1)
    print("checks:", [c["property_id"] for c in checks])
    print("not_applicable:", [n["property_id"] for n in na])


if __name__ == "__main__":
    main()
