#!/bin/sh
# Runs every registered quick check against /repo without touching evidence; prints one line per property and
# exits non-zero if any check does not exit 0 (used before every commit of /verif).
cd "$(dirname "$0")/.." || exit 2
rc=0
for i in 01 02 03 04 05 06 07 08 09 10 11 12 13 14 15 16 17 18 19 20; do
  out=$(./check C$i --no-write ${1:+--tier $1} 2>&1); code=$?
  echo "$out" | tail -1
  [ $code -ne 0 ] && rc=1
done
exit $rc
