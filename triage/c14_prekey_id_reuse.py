"""Triage (not a registered check): a one-time prekey id is offered twice for two different keys.

LitePreKeyStore.loadMaxPreKeyId() is max(prekey_id) over the rows still in the table, and removePreKey() (called by
python-axolotl when a first message consumes a key) deletes the row.  History: upload keys 1..5 (confirmed); a peer's
first message consumes key 5, the highest id; the next refill generates ids starting at max+1 = 5 again.
Exit 1 = id 5 maps to two different public keys over the history (defect present), 0 = ids never repeat.
"""
import os, sys, tempfile, shutil
sys.path.insert(0, sys.argv[1] if len(sys.argv) > 1 else "/repo")
sys.path.insert(0, "/opt/veriftools/wheels/six-1.17.0-py2.py3-none-any.whl")
import warnings; warnings.simplefilter("ignore")
tmp = tempfile.mkdtemp()
os.environ["XDG_CONFIG_HOME"] = tmp
try:
    from yowsup.axolotl.factory import AxolotlManagerFactory
    from yowsup.axolotl.manager import AxolotlManager
    AxolotlManager.COUNT_GEN_PREKEYS = 5
    m = AxolotlManagerFactory().get_manager("triage-profile", "4912345")
    first = m.level_prekeys(force=True)
    offered = {k.getId(): k.getKeyPair().getPublicKey().serialize() for k in first}
    m.set_prekeys_as_sent(first)
    top = max(offered)
    m._store.removePreKey(top)                      # what python-axolotl does when a pkmsg uses that key
    second = m.level_prekeys(force=True)
    clash = [k.getId() for k in second if k.getId() in offered and offered[k.getId()] != k.getKeyPair().getPublicKey().serialize()]
    print("first batch ids :", sorted(offered))
    print("consumed        :", top)
    print("second batch ids:", sorted(k.getId() for k in second))
    print("ids offered for two different keys:", clash)
    sys.exit(1 if clash else 0)
finally:
    shutil.rmtree(tmp, ignore_errors=True)
