"""C09 / C06: CryptoIqProtocolEntity can never be put on the wire under Python 3.

toProtocolTreeNode builds the <google> child's data with `"fe5c...".decode('hex')` - Python 2 only; under Python 3 a str has
no decode, so the serialiser raises AttributeError for every instance and the iq layer, which forwards this namespace,
sends nothing.   Run: /venv/bin/python triage/c09_crypto_iq_cannot_be_serialised.py [repo]   (exit 1 = defect present)
"""
import sys
sys.path.insert(0, '/opt/veriftools/wheels/six-1.17.0-py2.py3-none-any.whl')
sys.path.insert(0, sys.argv[1] if len(sys.argv) > 1 else '/repo')
from yowsup.layers.protocol_iq.protocolentities import CryptoIqProtocolEntity
from yowsup.layers.coder.encoder import WriteEncoder
from yowsup.layers.coder.decoder import ReadDecoder
from yowsup.layers.coder.tokendictionary import TokenDictionary

try:
    node = CryptoIqProtocolEntity().toProtocolTreeNode()
except Exception as e:     # noqa
    print("toProtocolTreeNode raises %s: %s" % (type(e).__name__, e))
    sys.exit(1)
td = TokenDictionary()
back = ReadDecoder(td).getProtocolTreeNode(WriteEncoder(td).protocolTreeNodeToBytes(node))
data = back.getChild("crypto").getChild("google").getData()
print("serialised; <google> carries %d bytes (%s...), survives the codec: %s" % (len(data), data[:4].hex(), back == node))
sys.exit(0 if back == node and len(data) == 32 else 1)
