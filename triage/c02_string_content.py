"""C02.type replay: valid frames whose node content is a token, a JID or a packed string. Run from /repo."""
import sys
from yowsup.layers.coder.decoder import ReadDecoder
from yowsup.layers.coder.tokendictionary import TokenDictionary
td = TokenDictionary()
frames = {
 "token content <iq>receipt</iq>": [0, 248, 2, 10, 6],
 "nibble-packed content <iq>123</iq>": [0, 248, 2, 10, 255, 0x82, 0x12, 0x3F],
 "hex-packed content <iq>1A</iq>": [0, 248, 2, 10, 251, 0x01, 0x1A],
 "jid content <iq>123@s.whatsapp.net</iq>": [0, 248, 2, 10, 250, 255, 0x82, 0x12, 0x3F, 8],
}
bad = 0
for name, f in frames.items():
    try:
        n = ReadDecoder(td).getProtocolTreeNode(bytearray(f))
        print(name, "->", n.tag, repr(n.data))
        bad += type(n.data) is not bytes
    except Exception as e:
        print(name, "->", type(e).__name__, e); bad += 1
sys.exit(1 if bad else 0)
