"""C08 (known finding): replies to the requests the protocol layers treat as fire-and-forget never reach the application.

props / push configuration / crypto / "clean dirty" / privacy-list requests are sent down by their layer without being
registered and that layer forwards no iq reply: when the application issues one through the interface layer with
callbacks, neither a result nor an error reply reaches the interface layer - no callback runs, the registry entry stays.
Run: /venv/bin/python triage/c08_fire_and_forget_replies_dropped.py [repo]   (exit 1 = finding present)
"""
import sys
sys.path.insert(0, '/opt/veriftools/wheels/six-1.17.0-py2.py3-none-any.whl')
sys.path.insert(0, sys.argv[1] if len(sys.argv) > 1 else '/repo')
from yowsup.layers import YowLayer, YowParallelLayer
from yowsup.layers.interface import YowInterfaceLayer
from yowsup.layers.protocol_iq import YowIqProtocolLayer
from yowsup.layers.protocol_ib import YowIbProtocolLayer
from yowsup.layers.protocol_privacy import YowPrivacyProtocolLayer
from yowsup.layers.protocol_iq.protocolentities import PropsIqProtocolEntity, PushIqProtocolEntity
from yowsup.layers.protocol_ib.protocolentities import CleanIqProtocolEntity
from yowsup.layers.protocol_privacy.protocolentities import PrivacyListIqProtocolEntity
from yowsup.structs import ProtocolTreeNode as N
from yowsup.stacks import YowStack

down, calls = [], []


class Bottom(YowLayer):
    def send(self, data):
        down.append(data)

    def receive(self, data):
        self.toUpper(data)


class App(YowInterfaceLayer):
    pass


stack = YowStack((Bottom, YowParallelLayer((YowIqProtocolLayer, YowIbProtocolLayer, YowPrivacyProtocolLayer)), App), reversed=False)
app, bottom = stack.getLayer(2), stack.getLayer(0)
lost = 0
for make in (PropsIqProtocolEntity, PushIqProtocolEntity, lambda: CleanIqProtocolEntity("groups", "s.whatsapp.net"), PrivacyListIqProtocolEntity):
    for kind in ("result", "error"):
        del down[:], calls[:]
        req = make()
        app._sendIq(req, lambda reply, request: calls.append("ok"), lambda reply, request: calls.append("error"))
        if not down:
            print("%s: not sent" % type(req).__name__)
            continue
        rid = down[-1]["id"]
        bottom.receive(N("iq", {"type": kind, "id": rid, "from": "s.whatsapp.net"}, [N("error", {"code": "500", "text": "x"})] if kind == "error" else None))
        print("%-28s %-6s reply: callbacks %s" % (type(req).__name__, kind, calls))
        lost += not calls
sys.exit(1 if lost else 0)
