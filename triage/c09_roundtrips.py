"""C09 replays: stanza -> entity -> stanza for four receive-side classes. Run from /repo."""
import sys
from yowsup.structs import ProtocolTreeNode as N
from yowsup.layers.protocol_profiles.protocolentities import ResultGetPictureIqProtocolEntity, ResultPrivacyIqProtocolEntity
from yowsup.layers.auth.protocolentities import StreamErrorProtocolEntity
import importlib.util
spec = importlib.util.spec_from_file_location("ru", "yowsup/layers/protocol_media/protocolentities/iq_requestupload_result.py")
ru = importlib.util.module_from_spec(spec); spec.loader.exec_module(ru)
cases = {
 "picture result": (ResultGetPictureIqProtocolEntity, N("iq", {"type": "result", "from": "a@s.whatsapp.net", "id": "1"}, [N("picture", {"type": "image", "id": "42"}, data=b"JPEG")])),
 "privacy result": (ResultPrivacyIqProtocolEntity, N("iq", {"type": "result", "from": "a@s.whatsapp.net", "id": "1"}, [N("privacy", {}, [N("category", {"name": "last", "value": "all"})])])),
 "stream error": (StreamErrorProtocolEntity, N("stream:error", {}, [N("conflict"), N("text", data=b"Replaced by new connection")])),
 "upload result (duplicate)": (ru.ResultRequestUploadIqProtocolEntity, N("iq", {"type": "result", "from": "s.whatsapp.net", "id": "1"}, [N("duplicate", {"url": "https://x", "ip": "1.2.3.4"})])),
}
bad = 0
for name, (cls, node) in cases.items():
    try:
        back = cls.fromProtocolTreeNode(node).toProtocolTreeNode()
        ok = back == node
        print(name, "->", "same" if ok else "DIFFERENT:\n%s" % back)
    except Exception as e:
        ok = False; print(name, "->", type(e).__name__, e)
    bad += not ok
sys.exit(1 if bad else 0)
