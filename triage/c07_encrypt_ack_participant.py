"""C07.notif replay: the ack for an encrypt notification drops the participant. Run from /repo."""
import sys
sys.path.insert(0, '/opt/veriftools/wheels/six-1.17.0-py2.py3-none-any.whl')
import logging; logging.disable(logging.CRITICAL)
from yowsup.layers import YowLayer
from yowsup.layers.axolotl import AxolotlControlLayer
from yowsup.structs import ProtocolTreeNode
sent = []
class Bottom(YowLayer):
    def send(self, d): sent.append(d)
c = AxolotlControlLayer(); b = Bottom(); c.setLayers(None, b)
c.getKeysFor = lambda *a, **k: None
n = ProtocolTreeNode("notification", {"id": "77", "type": "encrypt", "from": "123-456@g.us", "participant": "999@s.whatsapp.net", "t": "1"}, [ProtocolTreeNode("identity")])
c.receive(n)
print(sent[0])
sys.exit(0 if sent[0]["participant"] == "999@s.whatsapp.net" else 1)
