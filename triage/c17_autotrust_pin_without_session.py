"""C17: with auto-trust on, the first send to a contact whose identity changed dies when the sender holds a pin but no session.

AxolotlManager.create_session(autotrust=True) caught the library's UntrustedIdentityException, stored the new identity
and returned - but processPreKeyBundle had raised before it built anything, so there was still no session; the send layer
then encrypted on an empty session record: IndexError out of stack.receive(), the message neither sent nor queued.
("the new key replaces the old one and messaging resumes")
The history is the round-6 C17 sub-agent's (its harness is kept next to its seeded changes): B>A, A reinstalls, B>A (stale
prekey message: A pins B, keeps no session), B reinstalls, A>B.
Run: /venv/bin/python triage/c17_autotrust_pin_without_session.py [repo]   (exit 1 = defect present)
"""
import os, re, subprocess, sys, tempfile, shutil
repo = os.path.abspath(sys.argv[1] if len(sys.argv) > 1 else "/repo")
src = os.path.join(os.path.dirname(os.path.abspath(__file__)), "..", "seeded", "r6c17a")
tmp = tempfile.mkdtemp(prefix="c17triage-")
try:
    for name in ("side_finding.py", "c17_harness.py"):
        text = open(os.path.join(src, name)).read()
        open(os.path.join(tmp, name), "w").write(re.sub(r"/tmp/wt\d*/c17(?![0-9A-Za-z_])", repo, text))
    out = subprocess.run(["/venv/bin/python", os.path.join(tmp, "side_finding.py")], capture_output=True, text=True, cwd=tmp,
                         env=dict(os.environ, PYTHONPATH=repo)).stdout
finally:
    shutil.rmtree(tmp, ignore_errors=True)
tail = [l for l in out.splitlines() if l.strip()][-6:]
print("\n".join(tail))
crashed = any(l.startswith("crashes of A: [(") for l in out.splitlines())
print("the first send after the reinstall %s" % ("dies with an exception (defect present)" if crashed else "goes out and is delivered"))
sys.exit(1 if crashed else 0)
