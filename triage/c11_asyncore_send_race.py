"""Triage (not a registered check): AsyncoreConnectionDispatcher.sendData vs. the asyncore loop thread.

sendData appends to out_buffer and calls initiate_send() on the SENDER's thread; asyncore's loop thread calls
handle_write() -> initiate_send() on ITS thread whenever the socket is writable.  initiate_send is
    num_sent = send(out_buffer[:65536]); out_buffer = out_buffer[num_sent:]
with no lock, so when both threads are inside it the same bytes go to the socket twice (or bytes are dropped).
The interleaving is forced here by pausing inside the low-level send(); nothing else is changed.
Exit 1 = the bytes on the "socket" differ from what was sent (defect present), 0 = identical.
"""
import sys, threading
sys.path.insert(0, sys.argv[1] if len(sys.argv) > 1 else "/repo")
sys.path.insert(0, "/opt/veriftools/wheels/six-1.17.0-py2.py3-none-any.whl")
import warnings; warnings.simplefilter("ignore")
from yowsup.layers.network.dispatcher.dispatcher_asyncore import AsyncoreConnectionDispatcher


from yowsup.layers.network.dispatcher.dispatcher import ConnectionCallbacks


class CB(ConnectionCallbacks):
    def onConnecting(self): pass
    def onConnected(self): pass
    def onDisconnected(self): pass
    def onRecvData(self, d): pass


d = AsyncoreConnectionDispatcher(CB())
d._connected = True
wire = bytearray()
in_send = threading.Event()
go_on = threading.Event()
first = [True]


def fake_send(data):            # stands for socket.send: records what reaches the wire
    if first[0]:
        first[0] = False
        in_send.set()           # the sender thread is inside send() with a copy of out_buffer ...
        go_on.wait(2)           # ... while the loop thread handles a write event
    wire.extend(data)
    return len(data)


class FakeSocket(object):
    def send(self, data):
        return fake_send(bytes(data))


d.socket = FakeSocket()
d.connected = True
frame = b"\x00\x00\x05HELLO"
t = threading.Thread(target=lambda: d.sendData(frame))
t.start()
in_send.wait(2)
loop = threading.Thread(target=d.handle_write)      # what asyncore.loop does on its own thread when the socket is writable
loop.start()
loop.join(0.5)                  # with the repaired code the loop thread blocks on the lock until the sender is done
go_on.set()
t.join(2)
loop.join(2)
print("sent     :", bytes(frame))
print("on wire  :", bytes(wire))
sys.exit(0 if bytes(wire) == frame else 1)
