"""C07: a notification whose entity cannot be parsed is never acknowledged.

YowNotificationsProtocolLayer.recvNotification parses the entity first and builds the ack at its very end: a status
notification without a <set> child (AttributeError), a picture / status notification without `t` (TypeError from
int(None)) leave the handler through the exception and the server - which repeats a notification until it is
acknowledged - is never answered.  "Every incoming notification, of a recognised type or not, is answered with exactly
one acknowledgement".   Run: /venv/bin/python triage/c07_unparseable_notification_not_acked.py [repo]   (exit 1 = defect present)
"""
import sys
sys.path.insert(0, '/opt/veriftools/wheels/six-1.17.0-py2.py3-none-any.whl')
sys.path.insert(0, sys.argv[1] if len(sys.argv) > 1 else '/repo')
from yowsup.layers import YowLayer
from yowsup.structs import ProtocolTreeNode
from yowsup.layers.protocol_notifications import YowNotificationsProtocolLayer
from yowsup.stacks import YowStack

up, down = [], []


class Bottom(YowLayer):
    def send(self, data):
        down.append(data)

    def receive(self, data):
        self.toUpper(data)


class Top(YowLayer):
    def receive(self, data):
        up.append(data)


stack = YowStack((Bottom, YowNotificationsProtocolLayer, Top), reversed=False)
base = {"from": "4911@s.whatsapp.net", "id": "N1", "t": "1500000000", "notify": "n", "offline": "0"}
cases = [
    ("status with <set>text</set>", dict(base, type="status"), [ProtocolTreeNode("set", {}, None, b"hello")]),
    ("status with an empty <set/>", dict(base, type="status"), [ProtocolTreeNode("set")]),
    ("status without a <set> child", dict(base, type="status"), []),
    ("status without t", {k: v for k, v in dict(base, type="status").items() if k != "t"}, [ProtocolTreeNode("set", {}, None, b"x")]),
    ("picture set without t", {k: v for k, v in dict(base, type="picture").items() if k != "t"}, [ProtocolTreeNode("set", {"jid": "4911@s.whatsapp.net", "id": "7"})]),
    ("type nobody knows", dict(base, type="whatever"), []),
]
# the encrypt notifications are consumed (and acknowledged) by the encryption control layer, which parsed first as well
from yowsup.layers.axolotl.layer_control import AxolotlControlLayer
stack2 = YowStack((Bottom, AxolotlControlLayer, Top), reversed=False)
enc = {k: v for k, v in dict(base, type="encrypt").items() if k != "t"}
cases2 = [("encrypt / identity without t", enc, [ProtocolTreeNode("identity")]),
          ("encrypt / count without t", enc, [ProtocolTreeNode("count", {"value": "5"})])]
bad = 0
for st, label, attrs, children in [(stack, ) + c for c in cases] + [(stack2, ) + c for c in cases2]:
    stack_ = st
    del up[:], down[:]
    err = None
    try:
        stack_.getLayer(0).receive(ProtocolTreeNode("notification", attrs, children))
    except Exception as e:      # noqa
        err = "%s: %s" % (type(e).__name__, e)
    acks = [n for n in down if n.tag == "ack" and n["id"] == "N1" and n["to"] == attrs["from"]]
    print("%-32s acks=%d delivered=%d %s" % (label, len(acks), len(up), ("raised " + err[:60]) if err else ""))
    if len(acks) != 1:
        bad += 1
sys.exit(1 if bad else 0)
for label, attrs, children in []:
    del up[:], down[:]
    err = None
    try:
        stack.getLayer(0).receive(ProtocolTreeNode("notification", attrs, children))
    except Exception as e:      # noqa
        err = "%s: %s" % (type(e).__name__, e)
    acks = [n for n in down if n.tag == "ack" and n["id"] == "N1" and n["to"] == attrs["from"]]
    print("%-32s acks=%d delivered=%d %s" % (label, len(acks), len(up), ("raised " + err[:60]) if err else ""))
    if len(acks) != 1:
        bad += 1
sys.exit(1 if bad else 0)
