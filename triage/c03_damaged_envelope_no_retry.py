"""C03: an encrypted envelope whose framing is damaged is not answered by a retry - the message is lost.

AxolotlManager.decrypt_pkmsg / decrypt_msg built the library's message object (PreKeyWhisperMessage / WhisperMessage
(serialized=data)) OUTSIDE their try block: python-axolotl's InvalidMessageException for a damaged version byte / tag
was not translated into yowsup's exception, which is the one AxolotlReceivelayer.handleEncMessage catches to send the
retry receipt.   ("a message that cannot be decrypted triggers a retry request")
Run: /venv/bin/python triage/c03_damaged_envelope_no_retry.py [repo]   (exit 1 = defect present)
"""
import sys, os, tempfile
sys.path.insert(0, '/opt/veriftools/wheels/six-1.17.0-py2.py3-none-any.whl')
sys.path.insert(0, sys.argv[1] if len(sys.argv) > 1 else '/repo')
from yowsup.axolotl.manager import AxolotlManager
from yowsup.axolotl import exceptions
from yowsup.axolotl.store.sqlite.liteaxolotlstore import LiteAxolotlStore
from axolotl.state.prekeybundle import PreKeyBundle

tmp = tempfile.mkdtemp()
AxolotlManager.COUNT_GEN_PREKEYS = 3
alice = AxolotlManager(LiteAxolotlStore(os.path.join(tmp, "a.db")), "4911")
bob = AxolotlManager(LiteAxolotlStore(os.path.join(tmp, "b.db")), "4922")
prekey = bob.level_prekeys(force=True)[0]
signed = bob.load_latest_signed_prekey(generate=True)
bundle = PreKeyBundle(bob.registration_id, 1, prekey.getId(), prekey.getKeyPair().getPublicKey(), signed.getId(),
                      signed.getKeyPair().getPublicKey(), signed.getSignature(), bob.identity.getPublicKey())
alice.create_session("4922", bundle)
wire = bytearray(alice.encrypt("4922", b"hello").serialize())
bad = 0
for label, pos in (("a byte of the ciphertext body", len(wire) - 12), ("the version byte", 0), ("the first protobuf tag", 1)):
    damaged = bytearray(wire)
    damaged[pos] ^= 0x55
    try:
        bob.decrypt_pkmsg("4911", bytes(damaged), True)
        outcome = "decrypted"
    except (exceptions.InvalidMessageException, exceptions.InvalidKeyIdException) as e:
        outcome = "yowsup %s -> the receive layer asks for a retry" % type(e).__name__
    except Exception as e:      # noqa
        outcome = "%s.%s escapes the manager untranslated -> no retry, the message is lost" % (type(e).__module__, type(e).__name__)
        bad += 1
    print("damaged %-30s %s" % (label + ":", outcome))
sys.exit(1 if bad else 0)
