# TRIAGE ONLY - not part of any registered check. Reproduces a finding against the real
# yowsup code. Run:  cd /repo && /venv/bin/python /verif/triage/c06_c08_error_reply_swallowed.py
# (six 1.17 from the offline wheelhouse is put first on sys.path so that protobuf imports
#  under Python 3.12; scratch state lives in a temporary directory removed at exit)
import tempfile, atexit, shutil as _sh
_TMP = tempfile.mkdtemp(prefix="yowsup-triage-"); atexit.register(_sh.rmtree, _TMP, True)
import sys, shutil, os
sys.path.insert(0,'/opt/veriftools/wheels/six-1.17.0-py2.py3-none-any.whl')
import logging; logging.disable(logging.CRITICAL)
from yowsup.layers import YowLayer, YowParallelLayer
from yowsup.stacks import YowStack, YowStackBuilder
from yowsup.structs import ProtocolTreeNode
from yowsup.layers.protocol_groups.protocolentities import ListGroupsIqProtocolEntity, ParticipantsGroupsIqProtocolEntity, InfoGroupsIqProtocolEntity
from yowsup.layers.protocol_iq.protocolentities import PingIqProtocolEntity
class Bottom(YowLayer):
    sent=[]
    def send(self, d): Bottom.sent.append(d)
    def receive(self,d): self.toUpper(d)
class Top(YowLayer):
    got=[]
    def receive(self,d): Top.got.append(d)
    def send(self,d): self.toLower(d)
stack = YowStack((Bottom, YowParallelLayer(YowStackBuilder.getProtocolLayers()), Top), reversed=False)
bottom=stack.getLayer(0); top=stack.getLayer(-1)
for ent in (ListGroupsIqProtocolEntity(), InfoGroupsIqProtocolEntity("123-456@g.us"), PingIqProtocolEntity()):
    Bottom.sent.clear(); Top.got.clear()
    top.send(ent)
    print(type(ent).__name__, "down:", len(Bottom.sent))
    rid=Bottom.sent[0]["id"]
    bottom.receive(ProtocolTreeNode("iq", {"type":"error","id":rid,"from":"g.us"}, [ProtocolTreeNode("error", {"code":"401","text":"not-authorized"})]))
    print("   error reply -> entities at top:", [type(x).__name__ for x in Top.got])
