"""C07: a message that carries a sender-key distribution TOGETHER with content the library cannot present (here: a
revoke) gets no receipt and is not delivered.

recvMessageStanza sends the receipt for unsupported payloads only `elif not message.sender_key_distribution_message`;
the property excludes only PURE key-distribution payloads.   Run: /venv/bin/python triage/c07_skdm_with_unsupported_content.py [repo]
(exit 1 = defect present)
"""
import sys
sys.path.insert(0, '/opt/veriftools/wheels/six-1.17.0-py2.py3-none-any.whl')
sys.path.insert(0, sys.argv[1] if len(sys.argv) > 1 else '/repo')
from yowsup.layers import YowLayer
from yowsup.structs import ProtocolTreeNode
from yowsup.layers.protocol_messages import YowMessagesProtocolLayer
from yowsup.layers.protocol_messages.protocolentities.attributes.converter import AttributesConverter
from yowsup.layers.protocol_messages.protocolentities.attributes.attributes_message import MessageAttributes
from yowsup.layers.protocol_messages.protocolentities.attributes.attributes_protocol import ProtocolAttributes, MessageKeyAttributes
from yowsup.layers.protocol_messages.protocolentities.attributes.attributes_sender_key_distribution_message import \
    SenderKeyDistributionMessageAttributes
from yowsup.stacks import YowStack

up, down = [], []


class Bottom(YowLayer):
    def send(self, data):
        down.append(data)

    def receive(self, data):
        self.toUpper(data)


class Top(YowLayer):
    def receive(self, data):
        up.append(data)


stack = YowStack((Bottom, YowMessagesProtocolLayer, Top), reversed=False)
revoke = ProtocolAttributes(MessageKeyAttributes("123-456@g.us", True, "ABCDEF", "999@s.whatsapp.net"), ProtocolAttributes.TYPE_REVOKE)
skdm = SenderKeyDistributionMessageAttributes("123-456@g.us", b"\x01" * 40)
bad = 0
for label, attrs, want_receipts in (("revoke alone", MessageAttributes(protocol=revoke), 1),
                                    ("key distribution alone", MessageAttributes(sender_key_distribution_message=skdm), 0),
                                    ("revoke + key distribution", MessageAttributes(protocol=revoke, sender_key_distribution_message=skdm), 1)):
    del up[:], down[:]
    payload = AttributesConverter.get().message_to_protobytes(attrs)
    node = ProtocolTreeNode("message", {"from": "123-456@g.us", "participant": "999@s.whatsapp.net", "id": "M1", "t": "1", "type": "text"},
                            [ProtocolTreeNode("proto", {}, None, payload)])
    stack.getLayer(0).receive(node)
    print("%-28s delivered=%d receipts=%d (expected %d)" % (label, len(up), len(down), want_receipts))
    if len(down) != want_receipts:
        bad += 1
sys.exit(1 if bad else 0)
