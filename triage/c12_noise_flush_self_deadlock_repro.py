import sys; sys.path.insert(0, '/repo')  # needs the server double: copy /verif/seeded_neutral/n4c04a/demo.py next to this file (with its worktree path set to /repo)
# Deterministic reproduction of the side finding described in notes.md ("## Side finding"):
# a server frame that reaches YowNoiseLayer.receive() after the protocol state has become
# 'transport' but before the handshake thread has entered consonance's state callback makes the
# network thread deadlock on YowNoiseLayer._flush_lock, which it already holds.
#
# run:  PYTHONPATH=/tmp/wt4/c04 /venv/bin/python /tmp/wt4/c04/_out/side_finding_repro.py
# exit code 3 = deadlock reproduced (expected with the current checkout), 0 = not reproduced
sys.path.insert(0, '/tmp/wt4/c04/_out')
import os
import threading
import faulthandler
import shutil

import demo   # the server double and the stack plumbing of the C04 demo

variant = sys.argv[1] if len(sys.argv) > 1 else 'IK'
srv = demo.server_keypair()
c = demo.make_client(variant, srv)
proto = c.protocol
machine = proto._machine
session = demo.ServerSession(srv)

in_window = threading.Event()     # handshake thread: state is 'transport', callback not entered yet
net_done = threading.Event()      # network thread: came back from delivering the frame
callbacks = machine.after_state_change            # [WANoiseProtocol._trigger_state_callback]
orig_trigger = callbacks[0]


def delayed_trigger(*a, **kw):
    if machine.state == 'transport' and threading.current_thread() is not threading.main_thread() \
            and not in_window.is_set():
        in_window.set()
        net_done.wait(3.0)        # give the network thread the window
    return orig_trigger(*a, **kw)


callbacks[0] = delayed_trigger


def network_thread_part():
    session.send_node(demo.SUCCESS)
    data = session.take_output()
    c.wire.deliver(data)          # straight into the stack, like YowNetworkLayer would
    net_done.set()


c.connect(session)
c.auth(False)
ok = c.pump(session, in_window.is_set)      # delivers the server hello; handshake thread reaches the window
assert ok, "handshake never reached the window"
assert proto.state == 'transport'
t = threading.Thread(target=network_thread_part, name="network")
t.daemon = True
t.start()
t.join(8.0)
shutil.rmtree(demo._XDG, ignore_errors=True)
if t.is_alive():
    print("DEADLOCK reproduced (%s): the network thread is stuck, stanzas delivered upward: %d" % (
        variant, len(c.top.nodes)))
    faulthandler.dump_traceback(all_threads=True)
    sys.stdout.flush()
    os._exit(3)
print("not reproduced (%s): network thread returned, stanzas delivered upward: %d" % (variant, len(c.top.nodes)))
sys.stdout.flush()
os._exit(0)
