# TRIAGE ONLY - not part of any registered check. Reproduces a finding against the real
# yowsup code. Run:  cd /repo && /venv/bin/python /verif/triage/c06_unregister_dropped.py
import sys
sys.path.insert(0,'/opt/veriftools/wheels/six-1.17.0-py2.py3-none-any.whl')
import logging; logging.disable(logging.CRITICAL)
from yowsup.layers import YowLayer, YowParallelLayer
from yowsup.stacks import YowStack, YowStackBuilder
from yowsup.layers.protocol_profiles.protocolentities import UnregisterIqProtocolEntity, SetStatusIqProtocolEntity
sent=[]
class Bottom(YowLayer):
    def send(self, d): sent.append(d)
class Top(YowLayer):
    def send(self,d): self.toLower(d)
stack = YowStack((Bottom, YowParallelLayer(YowStackBuilder.getProtocolLayers()), Top), reversed=False)
top=stack.getLayer(-1)
for e in (SetStatusIqProtocolEntity("hi"), UnregisterIqProtocolEntity()):
    sent.clear(); top.send(e); print(type(e).__name__, "-> stanzas leaving the protocol layers:", len(sent))
