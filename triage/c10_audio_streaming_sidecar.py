"""C10: an audio message's streaming_sidecar does not round-trip.

AudioAttributes models streaming_sidecar (constructor parameter, accessor on the audio media entity), Message.AudioMessage
has the field, but audio_to_proto never writes it and proto_to_audio never reads it.
Run:  /venv/bin/python triage/c10_audio_streaming_sidecar.py [repo]   (exit 1 = defect present)
"""
import sys
sys.path.insert(0, '/opt/veriftools/wheels/six-1.17.0-py2.py3-none-any.whl')
sys.path.insert(0, sys.argv[1] if len(sys.argv) > 1 else '/repo')
from yowsup.layers.protocol_messages.protocolentities.attributes.converter import AttributesConverter
from yowsup.layers.protocol_messages.protocolentities.attributes.attributes_audio import AudioAttributes
from yowsup.layers.protocol_messages.protocolentities.attributes.attributes_downloadablemedia import DownloadableMediaMessageAttributes
from yowsup.layers.protocol_messages.protocolentities.attributes.attributes_message import MessageAttributes

conv = AttributesConverter.get()
bad = 0
for sidecar in (b"sidecar", b"", None):
    a = AudioAttributes(DownloadableMediaMessageAttributes("audio/ogg", 10, b"x" * 32), 3, True, sidecar)
    back = conv.protobytes_to_message(conv.message_to_protobytes(MessageAttributes(audio=a)))
    print("streaming_sidecar=%r -> %r" % (sidecar, back.audio.streaming_sidecar))
    if back.audio.streaming_sidecar != sidecar:
        bad += 1
sys.exit(1 if bad else 0)
