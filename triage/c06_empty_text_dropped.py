"""C06 / C07: an incoming text message whose body is the empty string produces no entity and is answered as "unsupported".

YowMessagesProtocolLayer.recvMessageStanza picks the payload kind by the truthiness of message.conversation.  The library
itself sends TextMessageProtocolEntity("") (proto bytes 0a00, see defect #25); the same stanza coming in is dropped and
gets the receipt meant for unsupported payloads.   Run:  /venv/bin/python triage/c06_empty_text_dropped.py [repo]   (exit 1 = defect present)
"""
import sys
sys.path.insert(0, '/opt/veriftools/wheels/six-1.17.0-py2.py3-none-any.whl')
sys.path.insert(0, sys.argv[1] if len(sys.argv) > 1 else '/repo')
from yowsup.layers import YowLayer
from yowsup.layers.protocol_messages import YowMessagesProtocolLayer
from yowsup.layers.protocol_messages.protocolentities import TextMessageProtocolEntity
from yowsup.stacks import YowStack

up, down = [], []


class Bottom(YowLayer):
    def send(self, data):
        down.append(data)

    def receive(self, data):
        self.toUpper(data)


class Top(YowLayer):
    def receive(self, data):
        up.append(data)


stack = YowStack((Bottom, YowMessagesProtocolLayer, Top), reversed=False)
bad = 0
for body in ("hello", ""):
    del up[:], down[:]
    node = TextMessageProtocolEntity(body, to="123@s.whatsapp.net").toProtocolTreeNode()
    del node["to"]                                   # as it arrives from a peer
    node["from"] = "123@s.whatsapp.net"
    stack.getLayer(0).receive(node)
    print("body=%r -> %d entity(ies) delivered %s, %d stanza(s) sent back" % (body, len(up), [getattr(e, "getBody", lambda: None)() for e in up], len(down)))
    if len(up) != 1 or up[0].getBody() != body or down:
        bad += 1
sys.exit(1 if bad else 0)
