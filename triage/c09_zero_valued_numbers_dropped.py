"""C09: an attribute whose number is zero does not survive stanza -> entity -> stanza.

ErrorIqProtocolEntity (and FailureAddParticipantsIqProtocolEntity) converted backoff with int() and wrote it back
`if self.backoff:`; MessageProtocolEntity (every message kind) wrote retry `if self.retry:` after int(): backoff="0" /
retry="0" are present in the stanza and gone after the round trip ("no field is lost ... for all field values", numbers
compared by value).   Run: /venv/bin/python triage/c09_zero_valued_numbers_dropped.py [repo]   (exit 1 = defect present)
"""
import sys
sys.path.insert(0, '/opt/veriftools/wheels/six-1.17.0-py2.py3-none-any.whl')
sys.path.insert(0, sys.argv[1] if len(sys.argv) > 1 else '/repo')
from yowsup.structs import ProtocolTreeNode as N
from yowsup.layers.protocol_iq.protocolentities import ErrorIqProtocolEntity
from yowsup.layers.protocol_messages.protocolentities import MessageProtocolEntity

bad = 0
for value in ("3600", "0", None):
    attrs = {"text": "x", "code": "500"}
    if value is not None:
        attrs["backoff"] = value
    node = N("iq", {"type": "error", "from": "s.whatsapp.net", "id": "1"}, [N("error", attrs)])
    back = ErrorIqProtocolEntity.fromProtocolTreeNode(node).toProtocolTreeNode()
    got = back.getChild("error")["backoff"]
    ok = got == value
    print("iq error backoff=%r -> %r %s" % (value, got, "" if ok else "  LOST"))
    bad += not ok
for value in ("2", "0", None):
    attrs = {"type": "text", "id": "1", "t": "1400000000", "from": "1@s.whatsapp.net", "offline": "0"}
    if value is not None:
        attrs["retry"] = value
    back = MessageProtocolEntity.fromProtocolTreeNode(N("message", attrs)).toProtocolTreeNode()
    got = back["retry"]
    ok = got == value
    print("message retry=%r -> %r %s" % (value, got, "" if ok else "  LOST"))
    bad += not ok
sys.exit(1 if bad else 0)
