# TRIAGE ONLY - not part of any registered check. Reproduces a finding against the real
# yowsup code. Run:  cd /repo && /venv/bin/python /verif/triage/c03_c06_skdm_media_duplicate.py
# (six 1.17 from the offline wheelhouse is put first on sys.path so that protobuf imports
#  under Python 3.12; scratch state lives in a temporary directory removed at exit)
import tempfile, atexit, shutil as _sh
_TMP = tempfile.mkdtemp(prefix="yowsup-triage-"); atexit.register(_sh.rmtree, _TMP, True)
import sys, shutil, os
sys.path.insert(0,'/opt/veriftools/wheels/six-1.17.0-py2.py3-none-any.whl')
shutil.rmtree(_TMP, ignore_errors=True)
os.environ['XDG_CONFIG_HOME']=_TMP
import logging; logging.disable(logging.CRITICAL)
import random; random.seed(7)  # python-axolotl 0.2.2 cannot decrypt block-aligned plaintexts (external defect); fix the padding length
from yowsup.layers import YowLayer, YowParallelLayer, YowLayerEvent
from yowsup.stacks import YowStack, YowStackBuilder
from yowsup.layers.axolotl import AxolotlSendLayer, AxolotlControlLayer, AxolotlReceivelayer
from yowsup.layers.network import YowNetworkLayer
from yowsup.layers.auth import YowAuthenticationProtocolLayer
from yowsup.profile.profile import YowProfile
from yowsup.config.v1.config import Config
from yowsup.structs import ProtocolTreeNode as N
from yowsup.layers.protocol_media.protocolentities import ContactMediaMessageProtocolEntity
from yowsup.layers.protocol_messages.protocolentities.attributes.attributes_contact import ContactAttributes
from yowsup.layers.protocol_messages.protocolentities.attributes.attributes_message_meta import MessageMetaAttributes
from yowsup.layers.axolotl.protocolentities import ResultGetKeysIqProtocolEntity
from yowsup.axolotl.manager import AxolotlManager
from axolotl.state.prekeybundle import PreKeyBundle
AxolotlManager.COUNT_GEN_PREKEYS = 5
def mkstack(phone):
    sent=[]; got=[]
    class Bottom(YowLayer):
        def send(self, d): sent.append(d)
        def receive(self,d): self.toUpper(d)
    class Top(YowLayer):
        def receive(self,d): got.append(d)
        def send(self,d): self.toLower(d)
    os.makedirs(_TMP + '/yowsup/%s' % phone, exist_ok=True)
    st = YowStack((Bottom, AxolotlControlLayer, YowParallelLayer((AxolotlSendLayer, AxolotlReceivelayer)), YowParallelLayer(YowStackBuilder.getProtocolLayers()), Top), reversed=False)
    st.setProfile(YowProfile(phone, Config(phone=phone, cc="49")))
    st.getLayer(0).emitEvent(YowLayerEvent(YowNetworkLayer.EVENT_STATE_CONNECTED))
    return st, sent, got
A,Asent,Agot=mkstack("491111"); B,Bsent,Bgot=mkstack("492222")
G="491111-1234@g.us"; AJ="491111@s.whatsapp.net"; BJ="492222@s.whatsapp.net"
ent=ContactMediaMessageProtocolEntity(ContactAttributes("Bob",b"BEGIN:VCARD\nEND:VCARD"), MessageMetaAttributes(recipient=G))
A.getLayer(-1).send(ent)
req=Asent[-1]; print("A->", req.tag, req["xmlns"], [c.tag for c in req.children])
# group info reply
A.getLayer(0).receive(N("iq",{"type":"result","id":req["id"],"from":G},[N("group",{"subject":"s","creation":"1","creator":AJ,"s_t":"1","s_o":AJ,"id":G},[N("participant",{"jid":AJ,"type":"admin"}),N("participant",{"jid":BJ})])]))
req=Asent[-1]; print("A->", req.tag, req["xmlns"], [c.tag for c in req.children])
mb=B.getProp("profile").axolotl_manager
pk=mb._store.loadPreKeys()[0]; spk=mb.load_latest_signed_prekey(generate=True)
bundle=PreKeyBundle(mb.registration_id,1,pk.getId(),pk.getKeyPair().getPublicKey(),spk.getId(),spk.getKeyPair().getPublicKey(),spk.getSignature(),mb.identity.getPublicKey())
res=ResultGetKeysIqProtocolEntity(req["id"],{BJ:bundle}).toProtocolTreeNode()
A.getLayer(0).receive(res)
msg=Asent[-1]; print("A->", msg.tag, msg.attributes, [(c.tag,c.attributes,[(d.tag,d.attributes,[e.attributes for e in d.children]) for d in c.children]) for c in msg.children])
# deliver to B as server would: from=G participant=A ; pkmsg for B moved out of participants
encs=[]
for c in msg.children:
    if c.tag=="participants":
        for to in c.children:
            if to["jid"]==BJ: encs.extend(to.children)
    elif c.tag=="enc": encs.append(c)
inc=N("message",{"from":G,"participant":AJ,"id":msg["id"],"type":msg["type"],"t":"1700000000","notify":"A"},encs)
B.getLayer(0).receive(inc)
print("B top got %d entities:"%len(Bgot))
for e in Bgot:
    print("  ", type(e).__name__, "media_type=",getattr(e,'media_type',None), "contact=", e.message_attributes.contact, "skdm=", e.message_attributes.sender_key_distribution_message is not None)
print("B sent down:", [(n.tag,n.attributes) for n in Bsent if n.tag!="iq"])
