"""C01 replays: (a) >=1 MiB attribute string -> readInt31() TypeError; (b) >=1 MiB payload + sibling ->
mis-assembled 31-bit length; (c) trees differing in one of several children compare equal.  Run from /repo."""
import sys
from yowsup.layers.coder.encoder import WriteEncoder
from yowsup.layers.coder.decoder import ReadDecoder
from yowsup.layers.coder.tokendictionary import TokenDictionary
from yowsup.structs import ProtocolTreeNode as N
td = TokenDictionary()
def rt(node):
    return ReadDecoder(td).getProtocolTreeNode(bytearray(WriteEncoder(td).protocolTreeNodeToBytes(node)))
bad = 0
big = "x" * (1 << 20)
for name, node in (("1MiB attribute", N("a", {"k": big})),
                   ("1MiB payload + sibling", N("a", {}, [N("b", {}, None, b"y" * ((1 << 20) + 70000)), N("c", {"z": "1"})]))):
    try:
        ok = rt(node) == node
    except Exception as e:
        ok = "%s: %s" % (type(e).__name__, str(e)[:60])
    print(name, "->", ok); bad += ok is not True
a = N("m", {}, [N("x", {"i": "1"}), N("x", {"i": "2"})])
b = N("m", {}, [N("x", {"i": "1"}), N("x", {"i": "3"})])
print("differing trees compare equal:", a == b); bad += (a == b)
sys.exit(1 if bad else 0)
