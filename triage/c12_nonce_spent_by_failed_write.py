"""C12: a send that fails BELOW the noise layer's cipher (here: a payload the segment layer refuses) leaves the connection
unusable - the frame was encrypted (the cipher's nonce counter advanced) but never written, so every later frame of the
connection is undecryptable for the peer, although each later send() returns normally.

Real YowNoiseLayer + YowNoiseSegmentsLayer; the protocol object is put into transport state with a consonance
WANoiseTransport over two dissononce cipher states; the "peer" decrypts what reaches the bottom with the same key, in order.
Run: /venv/bin/python triage/c12_nonce_spent_by_failed_write.py [repo]     (exit 1 = defect present)
"""
import sys
sys.path.insert(0, '/opt/veriftools/wheels/six-1.17.0-py2.py3-none-any.whl')
sys.path.insert(0, sys.argv[1] if len(sys.argv) > 1 else '/repo')
from yowsup.layers import YowLayer
from yowsup.layers.noise.layer import YowNoiseLayer
from yowsup.layers.noise.layer_noise_segments import YowNoiseSegmentsLayer
from yowsup.stacks import YowStack
from consonance.transport import WANoiseTransport
from dissononce.processing.impl.cipherstate import CipherState
from dissononce.cipher.aesgcm import AESGCMCipher

wire = bytearray()


class Bottom(YowLayer):
    def send(self, data):
        wire.extend(data)

    def receive(self, data):
        self.toUpper(data)


class Top(YowLayer):
    def receive(self, data):
        pass


stack = YowStack((Bottom, YowNoiseSegmentsLayer, YowNoiseLayer, Top), reversed=False)
stack.setProp(YowNoiseSegmentsLayer.PROP_ENABLED, True)
noise = stack.getLayer(2)
key = b"k" * 32
ours, theirs = CipherState(AESGCMCipher()), CipherState(AESGCMCipher())
ours.initialize_key(key)
theirs.initialize_key(key)
proto = noise._wa_noiseprotocol
proto._transport = WANoiseTransport(noise._stream, ours, CipherState(AESGCMCipher()))
noise._stream.set_events_callback(noise._handle_stream_event)
proto._machine.set_state("transport")


def peer_reads():
    out = []
    while len(wire) >= 3:
        n = int.from_bytes(wire[:3], "big")
        seg = bytes(wire[3:3 + n])
        del wire[:3 + n]
        try:
            out.append(bytes(theirs.decrypt_with_ad(b"", seg)))
        except Exception as e:
            out.append("UNDECRYPTABLE (%s)" % type(e).__name__)
    return out


noise.send(b"frame one")
print("peer:", peer_reads())
try:
    noise.send(b"x" * (1 << 24))              # refused by the segment layer AFTER it was encrypted
    print("oversized frame: no error?!")
except ValueError as e:
    print("oversized frame: the caller gets", type(e).__name__)
noise.send(b"frame three")                     # returns normally ...
got = peer_reads()
print("peer:", got)                            # ... but the peer cannot read it
sys.exit(0 if got == [b"frame three"] else 1)
