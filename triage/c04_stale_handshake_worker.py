# TRIAGE ONLY - not part of any registered check. Reproduces a finding against the real
# yowsup code. Run:  cd /repo && /venv/bin/python /verif/triage/c04_stale_handshake_worker.py
# (six 1.17 from the offline wheelhouse is put first on sys.path so that protobuf imports
#  under Python 3.12; scratch state lives in a temporary directory removed at exit)
import tempfile, atexit, shutil as _sh
_TMP = tempfile.mkdtemp(prefix="yowsup-triage-"); atexit.register(_sh.rmtree, _TMP, True)
import sys, shutil, os, time, threading
sys.path.insert(0,'/opt/veriftools/wheels/six-1.17.0-py2.py3-none-any.whl')
shutil.rmtree(_TMP, ignore_errors=True)
os.environ['XDG_CONFIG_HOME']=_TMP
import logging; logging.disable(logging.CRITICAL)
from yowsup.layers import YowLayer, YowLayerEvent
from yowsup.stacks import YowStack
from yowsup.layers.noise.layer import YowNoiseLayer
from yowsup.layers.network import YowNetworkLayer
from yowsup.layers.auth import YowAuthenticationProtocolLayer
from yowsup.profile.profile import YowProfile
from yowsup.config.v1.config import Config
from yowsup.common.tools import WATools
import consonance.handshake as ch, random as _r
class _R:
    def randint(self,a,b): return _r.randint(int(a),int(b))
    def __getattr__(self,n): return getattr(_r,n)
ch.random=_R()
sent=[]; got=[]
class Bottom(YowLayer):
    def send(self, d): sent.append(bytes(d))
    def receive(self,d): self.toUpper(d)
class Top(YowLayer):
    def receive(self,d): got.append(d)
    def onEvent(self, ev): print("  top saw event", ev.getName().split('.')[-1]); return False
st=YowStack((Bottom, YowNoiseLayer, Top), reversed=False)
st.setProfile(YowProfile("491111", Config(phone="491111", cc="49", client_static_keypair=WATools.generateKeyPair())))
noise=st.getLayer(1)
orig=noise.on_handshake_finished
def wrapped(e=None):
    print("  handshake finished in thread", threading.current_thread().name, "error=", type(e).__name__ if e else None)
    return orig(e)
noise.on_handshake_finished=wrapped
ev=YowLayerEvent(YowAuthenticationProtocolLayer.EVENT_AUTH, passive=False)
print("attempt 1"); noise.on_auth(ev); time.sleep(0.5)
w1=noise._handshake_worker; print("  worker1", w1.name, "alive", w1.is_alive(), "bytes down", len(sent))
print("disconnect"); noise.on_disconnected(YowLayerEvent(YowNetworkLayer.EVENT_STATE_DISCONNECTED)); time.sleep(0.2)
print("  worker1 alive after disconnect:", w1.is_alive())
print("attempt 2"); noise.on_auth(ev); time.sleep(0.5)
w2=noise._handshake_worker; print("  worker2", w2.name, "alive", w2.is_alive(), "same object as worker1:", w2 is w1)
print("server reply arrives"); noise.receive(b"\x12\x03bad"); time.sleep(0.5)
print("  worker1 alive:", w1.is_alive(), " worker2 alive:", w2.is_alive())
print("  protocol state:", noise._wa_noiseprotocol.state)
os._exit(0)
