"""C16 / C12 / C05: bytes of a frame that was cut off by a dying connection stay in the segment layer's read buffer and
are glued in front of the next connection's stream.

The stack (and with it every layer object) is reused across reconnects; YowNoiseSegmentsLayer._read_buffer is only ever
reset by its constructor.  History: connection 1 delivers the first 5 bytes of a 8-byte segment and dies; the
disconnected event is broadcast; connection 2 delivers two complete segments.  Expected upward: the two segments of
connection 2.  Run:  /venv/bin/python triage/c16_stale_segment_buffer.py [repo]   (exit 1 = defect present)
"""
import sys
sys.path.insert(0, '/opt/veriftools/wheels/six-1.17.0-py2.py3-none-any.whl')
sys.path.insert(0, sys.argv[1] if len(sys.argv) > 1 else '/repo')
from yowsup.layers import YowLayer, YowLayerEvent
from yowsup.layers.network.layer import YowNetworkLayer
from yowsup.layers.noise.layer_noise_segments import YowNoiseSegmentsLayer
from yowsup.stacks import YowStack


class Bottom(YowLayer):
    def send(self, data):
        pass

    def receive(self, data):
        self.toUpper(data)


class Top(YowLayer):
    got = []

    def receive(self, data):
        Top.got.append(bytes(data))


stack = YowStack((Bottom, YowNoiseSegmentsLayer, Top), reversed=False)
stack.setProp(YowNoiseSegmentsLayer.PROP_ENABLED, True)
bottom = stack.getLayer(0)
bottom.receive(b"\x00\x00\x05ab")                      # connection 1: 2 of 5 payload bytes, then the socket dies
stack.broadcastEvent(YowLayerEvent(YowNetworkLayer.EVENT_STATE_DISCONNECTED, reason="test"))
bottom.receive(b"\x00\x00\x03xyz\x00\x00\x02ok")       # connection 2
print("delivered after the reconnect:", Top.got)
ok = Top.got == [b"xyz", b"ok"]
print("OK" if ok else "DEFECT: stale bytes of the previous connection are parsed as part of the new stream")
sys.exit(0 if ok else 1)
