"""C15.pad replay: block-aligned plaintexts (incl. empty) cannot be decrypted. Run from /repo."""
import sys, importlib.util
sys.path.insert(0, '/opt/veriftools/wheels/six-1.17.0-py2.py3-none-any.whl')
spec = importlib.util.spec_from_file_location("mc", "yowsup/layers/protocol_media/mediacipher.py")
mc = importlib.util.module_from_spec(spec); spec.loader.exec_module(mc)
c = mc.MediaCipher(); key = bytes(range(32))
bad = 0
for n in (0, 1, 15, 16, 17, 32, 48):
    pt = bytes([7]) * n
    try:
        ok = c.decrypt_image(c.encrypt_image(pt, key), key) == pt
    except Exception as e:
        ok = "%s: %s" % (type(e).__name__, e)
    print(n, ok)
    bad += ok is not True
sys.exit(1 if bad else 0)
