"""C08 (also C07: no pong): an incoming iq REQUEST whose id equals a pending request's id is consumed as if it were
the reply.

processIqRegistry deletes the entry as soon as the id matches and only then looks at the type.  Own ids are "1", "2", ...
so a server ping with such an id (a) gets no pong and (b) removes the pending request; its real reply then reaches no
callback.   Run: /venv/bin/python triage/c08_request_with_pending_id.py [repo]    (exit 1 = defect present)
"""
import sys
sys.path.insert(0, '/opt/veriftools/wheels/six-1.17.0-py2.py3-none-any.whl')
sys.path.insert(0, sys.argv[1] if len(sys.argv) > 1 else '/repo')
from yowsup.layers import YowLayer
from yowsup.structs import ProtocolTreeNode
from yowsup.layers.protocol_iq import YowIqProtocolLayer
from yowsup.layers.protocol_iq.protocolentities import PingIqProtocolEntity
from yowsup.stacks import YowStack

down, called = [], []


class Bottom(YowLayer):
    def send(self, data):
        down.append(data)

    def receive(self, data):
        self.toUpper(data)


class Top(YowLayer):
    def receive(self, data):
        pass


stack = YowStack((Bottom, YowIqProtocolLayer, Top), reversed=False)
layer = stack.getLayer(1)
ping = PingIqProtocolEntity()
layer._sendIq(ping, lambda reply, req: called.append("ok"), lambda reply, req: called.append("err"))
pid = ping.getId()
del down[:]
# the server pings us, by chance with the same id
stack.getLayer(0).receive(ProtocolTreeNode("iq", {"type": "get", "id": pid, "from": "s.whatsapp.net", "xmlns": "urn:xmpp:ping"}))
pongs = [n for n in down if n.tag == "iq" and n["type"] == "result" and n["id"] == pid]
# ... and then answers our own ping
stack.getLayer(0).receive(ProtocolTreeNode("iq", {"type": "result", "id": pid, "from": "s.whatsapp.net"}))
print("pong(s) sent for the server's ping: %d; callbacks run for our own ping: %s" % (len(pongs), called))
ok = len(pongs) == 1 and called == ["ok"]
sys.exit(0 if ok else 1)
