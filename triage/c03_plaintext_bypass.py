# TRIAGE ONLY - not part of any registered check. Reproduces a finding against the real
# yowsup code. Run:  cd /repo && /venv/bin/python /verif/triage/c03_plaintext_bypass.py
# (six 1.17 from the offline wheelhouse is put first on sys.path so that protobuf imports
#  under Python 3.12; scratch state lives in a temporary directory removed at exit)
import tempfile, atexit, shutil as _sh
_TMP = tempfile.mkdtemp(prefix="yowsup-triage-"); atexit.register(_sh.rmtree, _TMP, True)
import sys, shutil, os
sys.path.insert(0,'/opt/veriftools/wheels/six-1.17.0-py2.py3-none-any.whl')
shutil.rmtree(_TMP, ignore_errors=True)
os.environ['XDG_CONFIG_HOME']=_TMP
import logging; logging.disable(logging.CRITICAL)
from yowsup.layers import YowLayer, YowParallelLayer, YowLayerEvent
from yowsup.stacks import YowStack, YowStackBuilder
from yowsup.layers.axolotl import AxolotlSendLayer, AxolotlControlLayer, AxolotlReceivelayer
from yowsup.layers.network import YowNetworkLayer
from yowsup.profile.profile import YowProfile
from yowsup.config.v1.config import Config
from yowsup.structs import ProtocolTreeNode
from yowsup.layers.protocol_messages.protocolentities import TextMessageProtocolEntity
from yowsup.axolotl.manager import AxolotlManager
AxolotlManager.COUNT_GEN_PREKEYS = 5
class Bottom(YowLayer):
    sent=[]
    def send(self, d): Bottom.sent.append(d)
    def receive(self,d): self.toUpper(d)
class Top(YowLayer):
    got=[]
    def receive(self,d): Top.got.append(d)
    def send(self,d): self.toLower(d)
protocol = YowStackBuilder.getProtocolLayers()
os.makedirs(_TMP + '/yowsup/491111', exist_ok=True)
stack = YowStack((Bottom, AxolotlControlLayer, YowParallelLayer((AxolotlSendLayer, AxolotlReceivelayer)), YowParallelLayer(protocol), Top), reversed=False)
stack.setProfile(YowProfile("491111", Config(phone="491111", cc="49")))
bottom=stack.getLayer(0); top=stack.getLayer(-1)
# fire connected event from bottom
bottom.emitEvent(YowLayerEvent(YowNetworkLayer.EVENT_STATE_CONNECTED))
X="492222@s.whatsapp.net"
top.send(TextMessageProtocolEntity("SECRET-BODY-1", to=X))
print("after msg1, bottom got:", [ (n.tag, n["xmlns"]) for n in Bottom.sent])
req=[n for n in Bottom.sent if n.tag=="iq" and n["xmlns"]=="encrypt" and n["type"]=="get"][-1]
# server answers with empty list (no keys for X)
try:
    bottom.receive(ProtocolTreeNode("iq", {"type":"result","id":req["id"],"from":"s.whatsapp.net"}, [ProtocolTreeNode("list")]))
except NotImplementedError as e: print("reply handling raised NotImplementedError (no keys for X)")
n0=len(Bottom.sent)
top.send(TextMessageProtocolEntity("SECRET-BODY-2", to=X))
for n in Bottom.sent[n0:]:
    print("DOWN:", n.tag, n.attributes, [c.tag for c in n.children], [c.data for c in n.children if c.tag=="proto"])
