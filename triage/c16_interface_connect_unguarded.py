"""C16: a connect request made through the network layer's interface while a connection exists opens a second one.

YowNetworkLayerInterface.connect() calls YowNetworkLayer.createConnection() directly; only the CONNECT *event* handler
tested the state (fix 0a74031).  YowInterfaceLayer.connect() - the application's connect, its reconnect after a stream
error - and the encryption control layer's re-login after a key upload all use the interface: a request while a
connection is being established, is up, or is being closed created a second dispatcher and orphaned the first
(CONNECTED announced twice with no DISCONNECTED in between, two logins).
Run: /venv/bin/python triage/c16_interface_connect_unguarded.py [repo]   (exit 1 = defect present)
"""
import sys
sys.path.insert(0, '/opt/veriftools/wheels/six-1.17.0-py2.py3-none-any.whl')
sys.path.insert(0, sys.argv[1] if len(sys.argv) > 1 else '/repo')
import yowsup.layers.network.layer as L
from yowsup.layers import YowLayer
from yowsup.layers.network.dispatcher.dispatcher import YowConnectionDispatcher
from yowsup.stacks import YowStack

made, seen = [], []


class D(YowConnectionDispatcher):
    def __init__(self, cb):
        super(D, self).__init__(cb)
        made.append(self)

    def connect(self, host):
        pass                                   # non-blocking: "connected" comes later

    def disconnect(self):
        self.connectionCallbacks.onDisconnected()

    def sendData(self, data):
        pass


class Top(YowLayer):
    def onEvent(self, ev):
        seen.append(ev.getName().rsplit(".", 1)[-1])
        return False


L.AsyncoreConnectionDispatcher = D
L.SocketConnectionDispatcher = D
bad = 0
for label, between in (("while connecting", lambda: None), ("while up", lambda: made[0].connectionCallbacks.onConnected())):
    del made[:], seen[:]
    stack = YowStack((L.YowNetworkLayer, Top), reversed=False)
    stack.setProp(L.YowNetworkLayer.PROP_ENDPOINT, ("e1.whatsapp.net", 443))
    iface = stack.getLayerInterface(L.YowNetworkLayer)
    iface.connect()
    between()
    iface.connect()
    for d in made:
        if d.connectionCallbacks.state != L.YowNetworkLayer.STATE_CONNECTED or d is made[-1]:
            d.connectionCallbacks.onConnected() if not (label == "while up" and d is made[0]) else None
    print("second interface connect %-17s %d dispatcher(s) created, announcements %s" % (label + ":", len(made), seen))
    bad += len(made) != 1
sys.exit(1 if bad else 0)
