"""C14: a key that was pending at an earlier connect is offered to the server again after it was consumed.

AxolotlControlLayer.on_connected does `self._unsent_prekeys.extend(load_unsent_prekeys())` and the list is only emptied by a
passive login: when a connect is not followed by one (the connection is lost first), the records loaded then stay in the
list; a key among them that is consumed afterwards (its row is deleted) is uploaded again at the next passive login -
an id is offered that no longer maps to a locally available key.  (The keys that are still pending are in the list
twice.)   Run: /venv/bin/python triage/c14_stale_pending_keys_offered_again.py [repo]   (exit 1 = defect present)
"""
import sys, os, tempfile
sys.path.insert(0, '/opt/veriftools/wheels/six-1.17.0-py2.py3-none-any.whl')
sys.path.insert(0, sys.argv[1] if len(sys.argv) > 1 else '/repo')
from yowsup.layers import YowLayer, YowLayerEvent
from yowsup.layers.network.layer import YowNetworkLayer
from yowsup.layers.auth import YowAuthenticationProtocolLayer
from yowsup.layers.axolotl.layer_control import AxolotlControlLayer
from yowsup.axolotl.manager import AxolotlManager
from yowsup.axolotl.store.sqlite.liteaxolotlstore import LiteAxolotlStore
from yowsup.stacks import YowStack

down = []


class Bottom(YowLayer):
    def send(self, data):
        down.append(data)

    def onEvent(self, ev):
        return False


class Top(YowLayer):
    def receive(self, data):
        pass


class Profile(object):
    def __init__(self, manager):
        self.axolotl_manager = manager


AxolotlManager.COUNT_GEN_PREKEYS = 3          # small batches
AxolotlManager.THRESHOLD_REGEN = 1
store = LiteAxolotlStore(os.path.join(tempfile.mkdtemp(), "axolotl.db"))
manager = AxolotlManager(store, "4915100000000")
stack = YowStack((Bottom, AxolotlControlLayer, Top), reversed=False)
stack.setProp("profile", Profile(manager))
ctrl = stack.getLayer(1)
ev = lambda name, **kw: YowLayerEvent(name, **kw)


def offered_ids():
    ids = []
    for node in down:
        if node.tag == "iq" and node.getChild("list") is not None:
            for key in node.getChild("list").getAllChildren("key"):
                ids.append(int.from_bytes(key.getChild("id").getData(), "big"))
    return ids


ctrl.onEvent(ev(YowNetworkLayer.EVENT_STATE_CONNECTED))               # keys 1-3 generated, pending
pending = sorted(k.getId() for k in manager.load_unsent_prekeys())
ctrl.onEvent(ev(YowNetworkLayer.EVENT_STATE_DISCONNECTED))            # the connection is lost before the login completes
consumed = pending[-1]
store.removePreKey(consumed)                                          # a first message consumes the key (python-axolotl does this)
ctrl.onEvent(ev(YowNetworkLayer.EVENT_STATE_CONNECTED))
ctrl.onEvent(ev(YowAuthenticationProtocolLayer.EVENT_AUTHED, passive=True))
ids = offered_ids()
print("pending at the first connect: %s; consumed in between: %s; offered at the next passive login: %s" % (pending, consumed, sorted(ids)))
bad = consumed in ids
print("the consumed key is offered again" if bad else "only keys that are still stored are offered")
sys.exit(1 if bad else 0)
