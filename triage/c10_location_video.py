"""C10 replays: location mapping typo, location/video entity accessors. Run from /repo."""
import sys
sys.path.insert(0, '/opt/veriftools/wheels/six-1.17.0-py2.py3-none-any.whl')
from yowsup.layers.protocol_messages.protocolentities.attributes.converter import AttributesConverter
from yowsup.layers.protocol_messages.protocolentities.attributes.attributes_location import LocationAttributes
from yowsup.layers.protocol_messages.protocolentities.attributes.attributes_message import MessageAttributes
from yowsup.layers.protocol_messages.protocolentities.attributes.attributes_message_meta import MessageMetaAttributes
from yowsup.layers.protocol_messages.protocolentities.attributes.attributes_video import VideoAttributes
from yowsup.layers.protocol_messages.protocolentities.attributes.attributes_downloadablemedia import DownloadableMediaMessageAttributes
from yowsup.layers.protocol_media.protocolentities.message_media_location import LocationMediaMessageProtocolEntity
from yowsup.layers.protocol_media.protocolentities.message_media_downloadable_video import VideoDownloadableMediaMessageProtocolEntity
bad = 0
def t(name, f):
    global bad
    try:
        print(name, "->", f())
    except Exception as e:
        print(name, "->", type(e).__name__, e); bad += 1
c = AttributesConverter.get()
loc = LocationAttributes(1.0, 2.0, "n", "addr", "u", None, None, None, None, b"skdm", None)
t("location with skdm round trip", lambda: c.proto_to_location(c.location_to_proto(loc)).axolotl_sender_key_distribution_message)
ent = LocationMediaMessageProtocolEntity(loc, MessageMetaAttributes(id="1", sender="a@s.whatsapp.net"))
t("location entity name", lambda: ent.name)
t("location entity address", lambda: ent.address)
vid = VideoAttributes(DownloadableMediaMessageAttributes("video/mp4", 1, b"h"), 1, 1, 1, gif_attribution=1)
vent = VideoDownloadableMediaMessageProtocolEntity(vid, MessageMetaAttributes(id="1", sender="a@s.whatsapp.net"))
t("video entity gif_attribution get", lambda: vent.gif_attribution)
def setget():
    vent.gif_attribution = 2
    return vent.media_specific_attributes.gif_attribution
t("video entity gif_attribution set->2", setget)
sys.exit(1 if bad else 0)
