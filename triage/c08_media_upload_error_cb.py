"""C08 replay: the application's error callback for a media upload request is never invoked. Run from /repo."""
import sys
sys.path.insert(0, '/opt/veriftools/wheels/six-1.17.0-py2.py3-none-any.whl')
import logging; logging.disable(logging.CRITICAL)
from yowsup.layers.interface import YowInterfaceLayer
from yowsup.layers.protocol_iq.protocolentities import ErrorIqProtocolEntity
from yowsup.structs import ProtocolTreeNode
class Builder:
    mediaType = "image"; jid = "a@s.whatsapp.net"
    def getFilepath(self): return "/etc/hostname"
    def isEncrypted(self): return False
sent = []
l = YowInterfaceLayer(); l.toLower = sent.append
called = []
l._sendMediaMessage(Builder(), success=lambda *a: called.append(("success", a)), error=lambda *a: called.append(("error", a)))
req = sent[0]
err = ErrorIqProtocolEntity.fromProtocolTreeNode(ProtocolTreeNode("iq", {"type": "error", "id": req.getId(), "from": "s.whatsapp.net"}, [ProtocolTreeNode("error", {"code": "401", "text": "not-authorized"})]))
l.receive(err)
print("callbacks invoked:", called)
sys.exit(0 if called and called[0][0] == "error" else 1)
