# TRIAGE ONLY - not part of any registered check. Reproduces a finding against the real
# yowsup code. Run:  cd /repo && /venv/bin/python /verif/triage/c17_autotrust_dismissed.py
# (six 1.17 from the offline wheelhouse is put first on sys.path so that protobuf imports
#  under Python 3.12; scratch state lives in a temporary directory removed at exit)
import tempfile, atexit, shutil as _sh
_TMP = tempfile.mkdtemp(prefix="yowsup-triage-"); atexit.register(_sh.rmtree, _TMP, True)
import sys, shutil, os
sys.path.insert(0,'/opt/veriftools/wheels/six-1.17.0-py2.py3-none-any.whl')
import logging; logging.disable(logging.CRITICAL)
from yowsup.axolotl.manager import AxolotlManager
from yowsup.axolotl.store.sqlite.liteaxolotlstore import LiteAxolotlStore
from yowsup.axolotl import exceptions
from axolotl.state.prekeybundle import PreKeyBundle
from axolotl.protocol.prekeywhispermessage import PreKeyWhisperMessage
AxolotlManager.COUNT_GEN_PREKEYS=3
d=_TMP; shutil.rmtree(d,ignore_errors=True); os.makedirs(d)
def mk(name,user):
    m=AxolotlManager(LiteAxolotlStore(os.path.join(d,name+'.db')),user); m.level_prekeys(); return m
def bundle(m):
    pk=m._store.loadPreKeys()[0]; spk=m.load_latest_signed_prekey(generate=True)
    return PreKeyBundle(m.registration_id,1,pk.getId(),pk.getKeyPair().getPublicKey(),spk.getId(),spk.getKeyPair().getPublicKey(),spk.getSignature(),m.identity.getPublicKey())
A=mk('a','111'); B=mk('b','222'); B2=mk('b2','222')   # B2 = B reinstalled: new identity
A.create_session('222', bundle(B))
c=A.encrypt('222', b'hello'); print("msg1 type", type(c).__name__)
print("B decrypts:", B.decrypt_pkmsg('111', c.serialize(), True))
# B reinstalls
try:
    A.create_session('222', bundle(B2), autotrust=False); print("no-autotrust: accepted silently!!")
except exceptions.UntrustedIdentityException as e: print("no-autotrust: refused OK")
A.create_session('222', bundle(B2), autotrust=True); print("autotrust: returned normally")
c2=A.encrypt('222', b'after-reinstall')
print("msg2 type", type(c2).__name__)
try:
    if isinstance(c2, PreKeyWhisperMessage):
        print("B2 decrypts:", B2.decrypt_pkmsg('111', c2.serialize(), True))
    else:
        print("B2 decrypts:", B2.decrypt_msg('111', c2.serialize(), True))
except Exception as e: print("B2 cannot decrypt:", type(e).__name__, e)
