"""Triage (runs the real code; not a registered check): a connect that fails synchronously - the socket library raises
from connect() itself, e.g. for a host name that does not resolve - leaves YowNetworkLayer in STATE_CONNECTING with the
asyncore dispatcher: nothing is reported to the layer, the exception leaves createConnection, and every later connect
request is refused ("a connection exists").  With the repaired dispatcher the failure is reported like any other end
of a connection and the second connect goes through."""
import sys
sys.path.insert(0, sys.argv[1] if len(sys.argv) > 1 else "/repo")
from yowsup.layers.network.layer import YowNetworkLayer
from yowsup.layers import YowLayerEvent


class Stack:
    def __init__(self):
        self.props = {YowNetworkLayer.PROP_ENDPOINT: ("no-such-host.invalid", 443), YowNetworkLayer.PROP_DISPATCHER: YowNetworkLayer.DISPATCHER_ASYNCORE}
        self.detached = []

    def getProp(self, k, d=None):
        return self.props.get(k, d)

    def execDetached(self, fn):
        self.detached.append(fn)


class Top:
    def __init__(self):
        self.events = []

    def onEvent(self, ev):
        self.events.append(ev.getName())
        return True


net = YowNetworkLayer()
net.setStack(Stack()) if hasattr(net, "setStack") else None
top = Top()
net.setLayers(top, None)
attempts = []
for i in range(2):
    try:
        net.onEvent(YowLayerEvent(YowNetworkLayer.EVENT_STATE_CONNECT))
        attempts.append("returned")
    except Exception as e:
        attempts.append("raised %s" % type(e).__name__)
    for fn in list(net.getStack().detached):
        fn()
    net.getStack().detached[:] = []
    print("attempt %d: %s; state=%s; events=%s" % (i + 1, attempts[-1], net.state, top.events))
ok = net.state == YowNetworkLayer.STATE_DISCONNECTED
print("layer %s" % ("is back in DISCONNECTED: a later connect is possible" if ok else "is stuck in state %s: every later connect is refused" % net.state))
sys.exit(0 if ok else 1)
