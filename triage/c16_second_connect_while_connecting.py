"""C16: a second connect request while the first connection is still being established opens a second connection.

onConnectLayerEvent guards on `connected`, which is False while connecting: a second dispatcher is created and the first
is orphaned; when both sockets connect, CONNECTED is announced twice with no DISCONNECTED in between and two logins start.
Run: /venv/bin/python triage/c16_second_connect_while_connecting.py [repo]   (exit 1 = defect present)
"""
import sys
sys.path.insert(0, '/opt/veriftools/wheels/six-1.17.0-py2.py3-none-any.whl')
sys.path.insert(0, sys.argv[1] if len(sys.argv) > 1 else '/repo')
from yowsup.layers import YowLayer, YowLayerEvent
from yowsup.layers.network import layer as netlayer
from yowsup.layers.network.layer import YowNetworkLayer
from yowsup.stacks import YowStack

made = []


class FakeDispatcher(object):
    def __init__(self, callbacks):
        self.callbacks = callbacks
        made.append(self)

    def connect(self, endpoint):
        self.callbacks.onConnecting()          # does not block: the connection is "being established"

    def disconnect(self):
        self.callbacks.onDisconnected()

    def sendData(self, data):
        pass


netlayer.AsyncoreConnectionDispatcher = FakeDispatcher
netlayer.SocketConnectionDispatcher = FakeDispatcher
events = []


class Top(YowLayer):
    def onEvent(self, ev):
        events.append(ev.getName())
        return False


stack = YowStack((YowNetworkLayer, Top), reversed=False)
stack.setProp(YowNetworkLayer.PROP_ENDPOINT, ("localhost", 1))
stack.broadcastEvent(YowLayerEvent(YowNetworkLayer.EVENT_STATE_CONNECT))
stack.broadcastEvent(YowLayerEvent(YowNetworkLayer.EVENT_STATE_CONNECT))      # again, before the first is up
print("connections opened:", len(made))
for d in made:
    d.callbacks.onConnected()
ups = [e for e in events if e == YowNetworkLayer.EVENT_STATE_CONNECTED]
print("CONNECTED announced %d time(s)" % len(ups))
sys.exit(0 if len(made) == 1 and len(ups) == 1 else 1)
