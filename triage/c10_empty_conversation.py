"""C10: a text message whose body is the empty string does not round-trip.

message_to_proto copies `conversation` only when it is truthy, every other scalar field when it `is not None`; the
property quantifies over empty strings.  Run:  /venv/bin/python triage/c10_empty_conversation.py   (exit 1 = defect present)
"""
import sys
sys.path.insert(0, '/opt/veriftools/wheels/six-1.17.0-py2.py3-none-any.whl')
sys.path.insert(0, sys.argv[1] if len(sys.argv) > 1 else '/repo')
from yowsup.layers.protocol_messages.protocolentities.attributes.converter import AttributesConverter
from yowsup.layers.protocol_messages.protocolentities.attributes.attributes_message import MessageAttributes

conv = AttributesConverter.get()
bad = 0
for text in ("hello", ""):
    attrs = MessageAttributes(conversation=text)
    back = conv.protobytes_to_message(conv.message_to_protobytes(attrs))
    print("conversation=%r -> %r" % (text, back.conversation))
    if back.conversation != text:
        bad += 1
sys.exit(1 if bad else 0)
