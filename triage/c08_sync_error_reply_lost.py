"""C08: the error reply to a contact-sync request never reaches the application's error callback.

YowContactsIqProtocolLayer.sendIq sent the request down without registering it and its recvIq forwards only
type="result" stanzas that carry a <sync> child: an <iq type="error"> with the request's id was handed upward by no
layer, so neither callback registered through the interface layer ran and the interface layer's registry kept the entry.
Run: /venv/bin/python triage/c08_sync_error_reply_lost.py [repo]   (exit 1 = defect present)
"""
import sys
sys.path.insert(0, '/opt/veriftools/wheels/six-1.17.0-py2.py3-none-any.whl')
sys.path.insert(0, sys.argv[1] if len(sys.argv) > 1 else '/repo')
from yowsup.layers import YowLayer
from yowsup.layers.interface import YowInterfaceLayer
from yowsup.layers.protocol_contacts import YowContactsIqProtocolLayer
from yowsup.layers.protocol_contacts.protocolentities import GetSyncIqProtocolEntity
from yowsup.structs import ProtocolTreeNode as N
from yowsup.stacks import YowStack

down, calls = [], []


class Bottom(YowLayer):
    def send(self, data):
        down.append(data)

    def receive(self, data):
        self.toUpper(data)


class App(YowInterfaceLayer):
    pass


stack = YowStack((Bottom, YowContactsIqProtocolLayer, App), reversed=False)
app, bottom = stack.getLayer(2), stack.getLayer(0)
bad = 0
for kind in ("result", "error"):
    del down[:], calls[:]
    req = GetSyncIqProtocolEntity(["+4915112345678"])
    app._sendIq(req, lambda reply, request: calls.append(("ok", reply.getId())), lambda reply, request: calls.append(("error", reply.getId())))
    rid = down[-1]["id"]
    if kind == "result":
        reply = N("iq", {"type": "result", "id": rid, "from": "4915100000000@s.whatsapp.net"},
                  [N("sync", {"sid": "1", "index": "0", "last": "true", "version": "1", "wait": "0"}, [N("in", {}, [N("user", {"jid": "4915112345678@s.whatsapp.net"}, None, b"+4915112345678")])])])
    else:
        reply = N("iq", {"type": "error", "id": rid, "from": "s.whatsapp.net"}, [N("error", {"code": "404", "text": "item-not-found"})])
    bottom.receive(reply)
    want = [("ok" if kind == "result" else "error", rid)]
    print("%-6s reply: callbacks %s (expected %s), interface registry still holds the request: %s" % (kind, calls, want, rid in app.iqRegistry))
    bad += calls != want
sys.exit(1 if bad else 0)
