"""C18.bind replay: YowStackBuilder.getDefaultStack raises TypeError for every call. Run from /repo."""
import sys
sys.path.insert(0, '/opt/veriftools/wheels/six-1.17.0-py2.py3-none-any.whl')
import os, tempfile
os.environ['XDG_CONFIG_HOME'] = tempfile.mkdtemp()
from yowsup.stacks import YowStackBuilder
try:
    s = YowStackBuilder.getDefaultStack(groups=False)
    print("built", s); sys.exit(0)
except TypeError as e:
    print("TypeError:", e); sys.exit(1)
