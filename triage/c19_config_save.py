"""C19 replays: (a) save for a never-used profile -> FileNotFoundError (profile dir never created);
(b) save(dest=path) writes str to a file opened 'wb' -> TypeError; (c) in-place truncating write. Run from /repo."""
import sys, os, tempfile
sys.path.insert(0, '/opt/veriftools/wheels/six-1.17.0-py2.py3-none-any.whl')
tmp = tempfile.mkdtemp(); os.environ['XDG_CONFIG_HOME'] = tmp
from yowsup.config.manager import ConfigManager
from yowsup.config.v1.config import Config
cm = ConfigManager(); c = Config(phone="4911", cc="49", pushname="x")
bad = 0
try:
    cm.save("neverused", c); print("profile save ok:", cm.load("neverused").phone)
except Exception as e:
    print("profile save:", type(e).__name__, e); bad += 1
try:
    d = os.path.join(tmp, "out.json"); cm.save("p", c, dest=d); print("dest save ok:", cm.load(d).phone)
except Exception as e:
    print("dest save:", type(e).__name__, e); bad += 1
sys.exit(1 if bad else 0)
