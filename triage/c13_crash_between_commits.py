import sys, os, sqlite3, tempfile, subprocess
sys.path.insert(0, '/opt/veriftools/wheels/six-1.17.0-py2.py3-none-any.whl')
db = sys.argv[1]
mode = sys.argv[2]
from yowsup.axolotl.store.sqlite.litesessionstore import LiteSessionStore
from yowsup.axolotl.store.sqlite.liteidentitykeystore import LiteIdentityKeyStore
class Rec:
    def __init__(s, b): s.b=b
    def serialize(s): return s.b
class Proxy:
    def __init__(s, c, die_at): s.c=c; s.n=0; s.die_at=die_at
    def commit(s):
        s.c.commit(); s.n+=1
        if s.n==s.die_at: os._exit(9)
    def __getattr__(s,k): return getattr(s.c,k)
conn = sqlite3.connect(db); conn.text_factory=bytes
if mode=='init':
    st=LiteSessionStore(conn); st.storeSession(5,1,Rec(b'old-session'))
    class K:
        def getPublicKey(s): return s
        def serialize(s): return b'old-identity'
    LiteIdentityKeyStore(conn).saveIdentity(5, K())
elif mode=='crash':
    st=LiteSessionStore(Proxy(conn, 1)); st.storeSession(5,1,Rec(b'new-session'))
elif mode=='crash-id':
    class K:
        def getPublicKey(s): return s
        def serialize(s): return b'new-identity'
    ik=LiteIdentityKeyStore(conn); ik.dbConn=Proxy(conn,1); ik.saveIdentity(5,K())
elif mode=='read':
    print('session rows:', conn.execute("select record from sessions where recipient_id=5").fetchall())
    print('identity rows:', conn.execute("select public_key from identities where recipient_id=5").fetchall())
