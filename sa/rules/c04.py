"""C04 - encrypted transport: shape of the yowsup-side glue around the noise library.

C04.prologue  HEADER agrees with the protocol version constants; prologues go down with segmentation off, the routing
              info with it on, and it is on when the handshake worker starts (abstract execution of on_auth)
C04.config    ClientConfig receives the profile's username, the event's passive flag, the configured push name
C04.finish    the worker reaches the finish callback on every path (also when the handshake failed); a failed
              handshake emits the failure event and sends a failure stanza up
C04.rs        a changed server key is written to the profile before buffered frames are flushed
C04.flush     receive enqueues before testing the state; both flush sites drain through one locked function;
              disconnect resets the protocol
C04.attempt   resources captured by a per-attempt worker are per-attempt, or the old worker is cancelled on disconnect
"""
import ast
import os

from ..absint import Interp, Obj, _Raise, C_NONE, show, flat_effects, enumerate_cells, Budget
from ..cfg import CFG, fmt_path, walk_no_nested
from ..consts import Evaluator, alts
from ..deps import node_exprs
from ..layers import LayerRunner
from ..report import where
from ..repo import unparse, is_self_attr, params_of
from .c16 import run_handler, _event_obj, event_name

NOISE = "yowsup/layers/noise/layer.py"
WORKER = "yowsup/layers/noise/workers/handshake.py"
SEG = "yowsup/layers/noise/layer_noise_segments.py"
CN = "YowNoiseLayer"



def noise_roles(repo):
    """names the noise layer gives to its parts, found by what they are, not by what they are called:
    proto / stream / queue / lock attributes (by the constructor they are bound from in __init__), the flush function
    (delivers `<proto>.receive()` upward), the state callback (handed to the protocol's constructor) and the stream
    event callback (handed to the stream)"""
    cls = repo.cls(NOISE, CN)
    init = repo.method(NOISE, CN, "__init__")
    r = {"proto": None, "stream": None, "queue": None, "lock": None, "flush": None, "state_cb": None, "stream_cb": None}
    for n in ast.walk(init):
        if isinstance(n, ast.Assign) and is_self_attr(n.targets[0]) and isinstance(n.value, ast.Call):
            f = unparse(n.value.func)
            a = n.targets[0].attr
            if f.endswith("WANoiseProtocol"):
                r["proto"] = a
                for x in list(n.value.args) + [k.value for k in n.value.keywords]:
                    if is_self_attr(x) and x.attr in cls.methods:
                        r["state_cb"] = x.attr
            elif f.endswith("SegmentedStream"):
                r["stream"] = a
            elif f.endswith("Queue"):
                r["queue"] = a
            elif f.split(".")[-1] in ("Lock", "RLock"):
                r["lock"] = a
    for name, fn in cls.methods.items():
        for c in ast.walk(fn):
            if isinstance(c, ast.Call) and is_self_attr(c.func, "toUpper") and c.args and r["proto"] and any(
                    isinstance(x, ast.Call) and isinstance(x.func, ast.Attribute) and x.func.attr == "receive" and is_self_attr(x.func.value, r["proto"]) for x in ast.walk(c.args[0])):
                r["flush"] = name
            if isinstance(c, ast.Call) and isinstance(c.func, ast.Attribute) and r["stream"] and is_self_attr(c.func.value, r["stream"]):
                for x in list(c.args) + [k.value for k in c.keywords]:
                    if is_self_attr(x) and x.attr in cls.methods:
                        r["stream_cb"] = x.attr
    if r["flush"] is None and r["proto"]:
        # the frame goes through a local on its way up: the method that both takes frames from the protocol and delivers
        for name, fn in cls.methods.items():
            takes = any(isinstance(x, ast.Call) and isinstance(x.func, ast.Attribute) and x.func.attr == "receive" and is_self_attr(x.func.value, r["proto"]) for x in ast.walk(fn))
            ups = any(isinstance(c, ast.Call) and is_self_attr(c.func, "toUpper") for c in ast.walk(fn))
            if takes and ups:
                r["flush"] = name
    # the flush function proper is the one that takes the lock around the delivering code (the delivering loop may have
    # been extracted into a helper it calls)
    if r["flush"] and r["lock"]:
        def takes_lock(f):
            return any((isinstance(x, ast.With) and any(is_self_attr(i.context_expr, r["lock"]) for i in x.items)) or
                       (isinstance(x, ast.Call) and isinstance(x.func, ast.Attribute) and x.func.attr == "acquire" and is_self_attr(x.func.value, r["lock"])) for x in ast.walk(f))
        if not takes_lock(cls.methods[r["flush"]]):
            for name, fn in cls.methods.items():
                if takes_lock(fn) and any(isinstance(c, ast.Call) and is_self_attr(c.func, r["flush"]) for c in ast.walk(fn)):
                    r["deliverer"] = r["flush"]
                    r["flush"] = name
                    break
    missing = [k for k, v in r.items() if v is None]
    if missing:
        from ..repo import AnalysisError
        raise AnalysisError("noise layer parts not identified: %s" % ", ".join(missing))
    return r


def _const_expr(itp, cls, text):
    return itp.expr(ast.parse(text, mode="eval").body, {"@module": cls.module, "@owner": cls}, 0)


def rule_prologue(ctx):
    repo = ctx.repo
    cls = repo.cls(NOISE, CN)
    ev = Evaluator(repo, cls.module, cls)
    header = alts(ev.class_const(cls, "HEADER"))
    edge = alts(ev.class_const(cls, "EDGE_HEADER"))
    init = repo.method(NOISE, CN, "__init__")
    w = where(NOISE, CN + ".__init__", init.lineno)
    ver = None
    for c in ast.walk(init):
        if isinstance(c, ast.Call) and unparse(c.func) == "WANoiseProtocol" and len(c.args) >= 2:
            a, b = alts(ev.ev(c.args[0])), alts(ev.ev(c.args[1]))
            if a and b:
                ver = (a[0], b[0])
    ok = header is not None and ver is not None and header[0] == b"WA" + bytes(ver)
    ctx.check("C04.prologue", ok, w, "HEADER %r vs protocol version %s" % (header[0] if header else None, ver),
              "the prologue must be b'WA' + (major, minor) of the protocol object the layer creates: the server would reject or mis-key the handshake", "prologue = b'WA' + version bytes")
    seg = repo.cls(SEG, "YowNoiseSegmentsLayer")
    PROP = alts(Evaluator(repo, seg.module, seg).class_const(seg, "PROP_ENABLED"))[0]
    # abstract execution of on_auth over its own decisions
    evo = _event_obj(repo)
    evo.fields["args"] = ("dict", {"passive": ("fn", "passive", [])})

    env_hook = {"classmethod:getCurrent": lambda itp, c, args, kwargs, env, depth, e: ("ext", "env", [])}      # environment description: opaque

    def run(cell, domains):
        r, it = run_handler(repo, NOISE, CN, "on_auth", [("obj", evo)], fields={"_wa_noiseprotocol": ("ext", "protocol", []), "_stream": ("ext", "stream", [])},
                            cell=cell, domains=domains, extra_hooks=env_hook)
        return r, it
    try:
        cells = enumerate_cells(run, {}, max_cells=400)
    except Budget:
        ctx.undecided("C04.prologue", where(NOISE, CN + ".on_auth", None), "on_auth", "budget exceeded")
        return
    wa = where(NOISE, CN + ".on_auth", None)
    n_ok = 0
    for cell, r in cells:
        label = ", ".join("%s%s" % ("" if v else "not ", a[1][:50]) for a, v in cell.items())
        enabled = None
        seq = []
        started = None
        for e in r["effects"]:
            if e[0] == "SETPROP" and e[1] == ("c", PROP):
                enabled = e[2][1] if e[2][0] == "c" else "?"
            elif e[0] == "DOWN":
                seq.append((e[1], enabled))
            elif e[0] == "CALL" and e[1].endswith(".start"):
                started = enabled
        if r["raised"]:
            continue
        if not seq:
            # no key pair: nothing may be sent, a disconnect is requested
            b = [x for x in r["effects"] if x[0] == "BCAST"]
            ctx.check("C04.prologue", len(b) == 1 and started is None, wa, "on_auth without key pair (%s)" % label[:80], "without a client key pair the layer must request a disconnect and send nothing", "disconnect requested, nothing sent")
            continue
        probs = []
        kinds = []
        for v, en in seq:
            if v == ("c", header[0]):
                kinds.append("HEADER")
                if en is not False:
                    probs.append("the WA prologue is written with segmentation %s" % en)
            elif edge and v == ("c", edge[0]):
                kinds.append("EDGE")
                if en is not False:
                    probs.append("the edge prologue is written with segmentation %s" % en)
            else:
                kinds.append("ROUTING")
                if en is not True:
                    probs.append("the routing info is written with segmentation %s (it must be length-prefixed)" % en)
        if kinds not in (["HEADER"], ["EDGE", "ROUTING", "HEADER"]):
            probs.append("prologue sequence is %s" % kinds)
        if started is not None and started is not True:
            probs.append("the handshake worker starts with segmentation %s" % started)
        if enabled is not True:
            probs.append("segmentation is %s when on_auth returns" % enabled)
        if probs:
            ctx.violate("C04.prologue", wa, "on_auth path (%s)" % label[:100], "; ".join(probs))
        else:
            n_ok += 1
    if n_ok:
        ctx.hold("C04.prologue", wa, "on_auth over %d path classes" % len(cells), "%d sending paths: prologues raw, routing info framed, segmentation on before the handshake" % n_ok)
    else:
        ctx.violate("C04.prologue", wa, "on_auth", "no path of on_auth sends the prologue")


def _mentions(v, needle, depth=0):
    """does the abstract value tree contain `needle` (a value tuple, or a string label of an fn / ext value)"""
    if depth > 12 or not isinstance(v, tuple):
        return False
    if v == needle:
        return True
    if len(v) >= 2 and isinstance(needle, str) and v[0] in ("fn", "ext") and v[1] == needle:
        return True
    for x in v[1:]:
        if isinstance(x, (list, tuple)):
            for y in (x if isinstance(x, list) else [x]):
                if _mentions(y, needle, depth + 1):
                    return True
    return False


def rule_config(ctx):
    """what a login presents, by abstract execution of on_auth twice on the same layer object (two logins with different
    profiles and passive flags): the ClientConfig built in each call takes the account from the profile current in THAT
    call, the passive flag of THAT auth event and the configured push name (the default only when none is configured);
    the handshake worker of each call is wired with the layer's protocol and stream, the config object built in that
    call, the client key pair and the stored server key of the current config, and a method of the layer as finish callback"""
    repo = ctx.repo
    cls = repo.cls(NOISE, CN)
    fn = repo.method(NOISE, CN, "on_auth")
    w = where(NOISE, CN + ".on_auth", fn.lineno)
    roles = noise_roles(repo)
    DEFAULT = alts(Evaluator(repo, cls.module, cls).class_const(cls, "DEFAULT_PUSHNAME"))
    wk_cls = repo.cls(WORKER, "WANoiseProtocolHandshakeWorker")

    def run(cell, domains):
        log = {"configs": [], "workers": [], "tag": None}

        def extcall(itp, label, a, kw, env, d, e):
            if label.split(".")[-1] == "ClientConfig":
                v = ("ext", "ClientConfig#%d" % len(log["configs"]), [])
                log["configs"].append((v, dict(kw), list(a), log["tag"]))
                return v
            return None

        def construct(itp, c, a, kw, env, d, e):
            if c is wk_cls:
                v = ("ext", "worker#%d" % len(log["workers"]), [])
                log["workers"].append((v, list(a), dict(kw), log["tag"]))
                return v
            return None
        hooks = {"extcall": extcall, "construct": construct, "classmethod:getCurrent": lambda itp, c, a, k, env, d, e: ("ext", "env", [])}
        runner = LayerRunner(repo, {})
        hk = runner.hooks()
        hk.update(hooks)
        gp0 = hk["method:getProp"]

        def getprop(itp, recv, a, kw, env, d, e):
            if a and a[0] == ("c", "profile"):
                return ("ext", "profile" + log["tag"], [])
            return gp0(itp, recv, a, kw, env, d, e)
        hk["method:getProp"] = getprop
        it = Interp(repo, cell, domains, hooks=hk)
        it.layer_base = runner.base
        layer = runner.make_layer(it, cls)
        proto = Obj(None)
        proto.fields["state"] = _const_expr(it, cls, "WANoiseProtocol.STATE_INIT")
        layer[1].fields[roles["proto"]] = ("obj", proto)
        layer[1].fields[roles["stream"]] = ("ext", "stream", [])
        res = {"raised": None, "log": log, "layer": layer, "proto": ("obj", proto)}
        for tag in ("A", "B"):
            evo = _event_obj(repo)
            evo.fields["args"] = ("dict", {"passive": ("fn", "passive" + tag, [])})
            log["tag"] = tag
            try:
                it.method_call(layer, "on_auth", [("obj", evo)], {}, {"@module": cls.module, "@owner": cls}, 0, None)
            except _Raise as r:
                res["raised"] = r.text
                break
        return res, it
    try:
        cells = enumerate_cells(run, {}, max_cells=600)
    except Budget:
        ctx.undecided("C04.config", w, fn, "budget exceeded")
        return
    n = 0
    probs = {"username": [], "passive": [], "pushname": [], "fresh": [], "worker": []}
    for cell, r in cells:
        cfgs, wks = r["log"]["configs"], r["log"]["workers"]
        if r["raised"] or len(wks) != 2:
            continue                      # a path that does not start two handshakes (no key pair ...): nothing presented
        n += 1
        for i, tag in enumerate(("A", "B")):
            mine_c = [x for x in cfgs if x[3] == tag]
            if len(mine_c) != 1:
                got = [x for x in wks if x[3] == tag]
                probs["fresh"].append("login %s builds %d client description(s); its worker gets %s" % (tag, len(mine_c), show(got[0][1][2])[:40] if got and len(got[0][1]) > 2 else "?"))
                continue
            v, kw, pos, _t = mine_c[0]
            prof = "profile" + tag
            other = "profile" + ("B" if tag == "A" else "A")
            u = kw.get("username")
            if u is None or not (_mentions(u, ".username") and _mentions(u, prof)) or _mentions(u, other):
                probs["username"].append("login %s presents username %s" % (tag, show(u)[:60] if u else None))
            pv = kw.get("passive")
            if pv != ("fn", "passive" + tag, []):
                probs["passive"].append("login %s presents passive=%s" % (tag, show(pv)[:40] if pv else None))
            pn = kw.get("pushname")
            okpn = pn is not None and ((_mentions(pn, ".pushname") and _mentions(pn, prof)) or (DEFAULT and pn == ("c", DEFAULT[0])))
            if not okpn:
                probs["pushname"].append("login %s presents pushname %s" % (tag, show(pn)[:50] if pn else None))
            mine = [x for x in wks if x[3] == tag]
            if len(mine) == 1:
                wv, a, wkw, _t = mine[0]
                ok = len(a) >= 5 and a[0] == r["proto"] and a[1][:2] == ("ext", "stream") and a[2] is v \
                    and _mentions(a[3], ".client_static_keypair") and _mentions(a[3], prof) \
                    and _mentions(a[4], ".server_static_public") and _mentions(a[4], prof)
                cb = a[5] if len(a) > 5 else wkw.get("finish_callback")
                ok = ok and cb is not None and cb[0] == "bound" and cb[1][0] == "obj" and cb[1][1] is r["layer"][1]
                if not ok:
                    if len(a) >= 3 and a[2] is not v:
                        probs["fresh"].append("the worker of login %s gets %s, not the client description built in that call" % (tag, show(a[2])[:40]))
                    else:
                        probs["worker"].append("worker of login %s is built with (%s)" % (tag, ", ".join(show(x)[:24] for x in a)))
            else:
                probs["worker"].append("login %s starts no handshake worker" % tag)
    if not n:
        ctx.undecided("C04.config", w, fn, "no path of on_auth starts a handshake in two consecutive logins (%d path classes)" % len(cells))
        return
    ctx.check("C04.config", not probs["username"], w, "username <- the current profile", "the login must present the profile's account: " + "; ".join(sorted(set(probs["username"]))[:2]), "username <- profile (%d path classes, two logins each)" % n)
    ctx.check("C04.config", not probs["passive"], w, "passive <- this auth event", "the login must present the passive flag of the auth event: " + "; ".join(sorted(set(probs["passive"]))[:2]), "passive <- auth event")
    ctx.check("C04.config", not probs["pushname"], w, "pushname <- config or default", "the login must present the configured push name (default only when unset): " + "; ".join(sorted(set(probs["pushname"]))[:2]), "pushname <- config or default")
    ctx.check("C04.config", not probs["fresh"], w, "client description built in this call",
              "the client description must be built afresh for every login: " + "; ".join(sorted(set(probs["fresh"]))[:2]) + " - a later login presents the account / passive flag of an earlier one", "built in this call")
    ctx.check("C04.config", not probs["worker"], w, "worker wiring", "the worker must get (protocol, stream, client config, client key pair, stored server key, finish callback): " + "; ".join(sorted(set(probs["worker"]))[:2]), "worker wired with config, keys and callback")


def rule_finish(ctx):
    """the worker reports the outcome exactly once on every path - by abstract execution of its run() with the protocol
    opaque: start() returning normally -> callback(None); start() raising HandshakeFailedException -> callback(that
    exception); no callback configured -> nothing is called, nothing raised"""
    repo = ctx.repo
    k = repo.cls(WORKER, "WANoiseProtocolHandshakeWorker")
    run = k.methods["run"]
    w = where(WORKER, "WANoiseProtocolHandshakeWorker.run", run.lineno)
    FAIL = ("ext", "HandshakeFailedException", [])

    def attempt(fails, with_cb=True):
        got = []

        def start(itp, recv, a, kw, env, d, e):
            if fails:
                raise _Raise(FAIL, "HandshakeFailedException")
            return C_NONE

        def record(itp, e, args, kwargs, env, depth):
            got.append(args[0] if args else None)
            return C_NONE
        it = Interp(repo, {}, {}, hooks={"ext:protocol.start": start, "builtin:__finished__": record})
        o = Obj(k)
        lam = ast.parse("lambda error: __finished__(error)", mode="eval").body
        cb = ("closure", lam, {"@module": k.module, "@owner": None}, None, None) if with_cb else C_NONE
        raised = None
        try:
            kk, init = repo.find_method(k, "__init__")
            it.call_function(init, kk, ("obj", o), [("ext", "protocol", []), ("ext", "stream", []), ("ext", "config", []), ("ext", "s", []), ("ext", "rs", []), cb], {}, depth=0)
            it.call_function(run, k, ("obj", o), [], {}, depth=0)
        except _Raise as r:
            raised = r.text
        starts = [e for e in flat_effects(it.effects) if e[0] == "CALL" and e[1] == "protocol.start"]
        return got, raised, starts
    ok_s, r_s, st_s = attempt(False)
    ok_f, r_f, st_f = attempt(True)
    ok_n, r_n, st_n = attempt(True, with_cb=False)
    good = ok_s == [C_NONE] and r_s is None and len(ok_f) == 1 and r_f is None and r_n is None and not ok_n
    ctx.check("C04.finish", good, w, "finish callback on the success and the failed-handshake path",
              "a path through run() ends without the finish callback (the login would hang), or calls it more than once: success -> %d call(s)%s, failed handshake -> %d call(s)%s" % (len(ok_s), " raising " + r_s if r_s else "", len(ok_f), " raising " + r_f if r_f else ""),
              "finish callback reached once on the success and the failed-handshake path")
    ctx.check("C04.finish", ok_s == [C_NONE] and ok_f == [FAIL], w, "callback argument", "the callback must receive the caught handshake error (None on success); got %s / %s" % ([show(x) for x in ok_s], [show(x) for x in ok_f]), "callback(error or None)")
    want = [("ext", "stream", []), ("ext", "config", []), ("ext", "s", []), ("ext", "rs", [])]
    ctx.check("C04.config", len(st_s) == 1 and list(st_s[0][2]) == want, where(WORKER, "WANoiseProtocolHandshakeWorker", None), "protocol.start(stream, config, s, rs)",
              "the worker must start the protocol with the stream, config, client key pair and server key it was given; it passes %s" % ([show(x) for x in st_s[0][2]] if st_s else "nothing"),
              "start(stream, config, s, rs) from its own constructor arguments")
    # on_handshake_finished(e): event + failure stanza up when e is set, nothing otherwise
    cls = repo.cls(NOISE, CN)
    EVF = alts(Evaluator(repo, cls.module, cls).class_const(cls, "EVENT_HANDSHAKE_FAILED"))[0]
    wf = where(NOISE, CN + ".on_handshake_finished", None)
    enc_hook = {"method:protocolTreeNodeToBytes": lambda itp, recv, args, kwargs, env, depth, e: ("fn", "encoded", list(args))}    # the codec is C01's
    r, it = run_handler(repo, NOISE, CN, "on_handshake_finished", [("ext", "HandshakeFailedException", [])], extra_hooks=enc_hook)
    em = [event_name(e[1]) for e in r["effects"] if e[0] == "EMIT"]
    ups = [e for e in r["effects"] if e[0] == "UP"]
    ok = em == [EVF] and len(ups) == 1 and not r["raised"]
    fail_stanza = False
    if ups:
        # the bytes come from encoding a <failure> node
        fail_stanza = "failure" in show(ups[0][1]) or any("failure" in str(d) for d in _deps_text(ups[0][1]))
    ctx.check("C04.finish", ok and fail_stanza, wf, "failed handshake -> event + <failure> up", "a failed handshake must emit the failure event and send a <failure> stanza upward (events %s, %d deliveries)" % (em, len(ups)), "event emitted, <failure> delivered")
    r, it = run_handler(repo, NOISE, CN, "on_handshake_finished", [C_NONE])
    ctx.check("C04.finish", not [e for e in r["effects"] if e[0] in ("EMIT", "UP")], wf, "successful handshake -> nothing reported", "a successful handshake must not report a failure", "nothing reported")


def _deps_text(v, depth=0):
    out = []
    if isinstance(v, tuple) and depth < 8:
        for x in v:
            if isinstance(x, (tuple, list)):
                for y in (x if isinstance(x, list) else [x]):
                    out += _deps_text(y, depth + 1)
            elif isinstance(x, str):
                out.append(x)
            elif hasattr(x, "tag"):
                out.append(show(x.tag))
    return out


def _noise_layer(repo, roles, cell=None, domains=None, state=None, rs=None, known_rs=None, extra_hooks=None):
    """the noise layer with its protocol a plain object {state, rs}, stream / queue / profile opaque; calls of the flush
    function are recorded as ('CALL', 'flush') and not executed (unless asked)"""
    cls = repo.cls(NOISE, CN)
    runner = LayerRunner(repo, {})
    hk = runner.hooks()

    def flush(itp, fn, owner, self_val, a, kw):
        itp.emit("CALL", "flush", [])
        return C_NONE
    hk["fn:" + roles["flush"]] = flush
    # one thread runs everything: its identity is a constant

    def current_thread(itp, recv, a, k, env, d, e):
        t = Obj(None)
        t.fields["ident"] = ("c", 4242)
        t.fields["name"] = ("c", "T")
        return ("obj", t)
    hk["ext:*.current_thread"] = current_thread
    hk["ext:*.currentThread"] = current_thread
    hk["ext:*.get_ident"] = lambda itp, recv, a, k, env, d, e: ("c", 4242)
    hk.update(extra_hooks or {})
    it = Interp(repo, cell if cell is not None else {}, domains if domains is not None else {}, hooks=hk)
    it.layer_base = runner.base
    layer = runner.make_layer(it, cls)
    proto = Obj(None)
    proto.fields["state"] = _const_expr(it, cls, "WANoiseProtocol." + (state or "STATE_TRANSPORT"))
    proto.fields["rs"] = rs if rs is not None else ("ext", "KEY_NEW", [])
    proto.fields["@trace_reads"] = C_NONE
    layer[1].fields[roles["proto"]] = ("obj", proto)
    layer[1].fields[roles["stream"]] = ("ext", "stream", [])
    layer[1].fields[roles["queue"]] = ("ext", "inq", [])
    layer[1].fields["_profile"] = ("ext", "profile", [])
    if known_rs is not None:
        layer[1].fields["_rs"] = known_rs
    it.effects[:] = []
    return it, layer, cls


def rule_rs(ctx):
    """the protocol's state callback, abstractly executed: on reaching transport state with a server key that differs
    from the one the layer knows, the new key is put into the profile's config and the config is written BEFORE the
    buffered frames are flushed; with the same key nothing is written; in every case the flush happens, and only in
    transport state"""
    repo = ctx.repo
    roles = noise_roles(repo)
    fn = repo.method(NOISE, CN, roles["state_cb"])
    w = where(NOISE, CN + "." + roles["state_cb"], fn.lineno)
    NEW, OLD = ("ext", "KEY_NEW", []), ("ext", "KEY_OLD", [])

    def run(known, state="STATE_TRANSPORT"):
        it, layer, cls = _noise_layer(repo, roles, state=state, rs=NEW, known_rs=known)
        raised = None
        try:
            it.method_call(layer, roles["state_cb"], [_const_expr(it, cls, "WANoiseProtocol." + state)], {}, {"@module": cls.module, "@owner": cls}, 0, None)
        except _Raise as r:
            raised = r.text
        seq = []
        for e in flat_effects(it.effects):
            if e[0] == "CALL" and e[1] == "flush":
                seq.append(("flush",))
            elif e[0] == "CALL" and e[1].endswith(".write_config"):
                seq.append(("write", list(e[2])))
            elif e[0] == "SETATTR" and e[2] == "server_static_public":
                seq.append(("set", e[1], e[3]))
        return seq, raised, layer
    changed, r1, l1 = run(OLD)
    same, r2, l2 = run(NEW)
    first, r3, l3 = run(C_NONE)
    early, r4, l4 = run(OLD, state="STATE_HANDSHAKE")
    kinds = [x[0] for x in changed]
    ok_order = kinds.count("write") == 1 and kinds.count("flush") == 1 and kinds.index("write") < kinds.index("flush") and not r1
    ctx.check("C04.rs", ok_order, w, "changed server key: write_config before the flush", "when the server key changed, frames are flushed before (or without) the new key being written: observed %s" % (kinds,), "changed server key written before the flush")
    sets = [x for x in changed if x[0] == "set"]
    wr = [x for x in changed if x[0] == "write"]
    ok_cfg = len(sets) == 1 and sets[0][2] == NEW and wr and wr[0][1] and wr[0][1][0] == sets[0][1] and "set" in kinds and kinds.index("set") < kinds.index("write") \
        and l1[1].fields.get("_rs") == NEW
    ctx.check("C04.rs", bool(ok_cfg), w, "config updated with the new key, then written", "the new server key must be put into the config that is written (and remembered by the layer)", "config updated with the new key, then written")
    k2, k3, k4 = [x[0] for x in same], [x[0] for x in first], [x[0] for x in early]
    ok_rest = k2 == ["flush"] and k3.count("flush") == 1 and k3.count("write") == 1 and "flush" not in k4 and not (r2 or r3 or r4)
    ctx.check("C04.rs", ok_rest, w, "flush only in transport state; unchanged key not rewritten",
              "buffered frames may only be flushed once the transport state is reached, and exactly once per transition (same key: %s, first key: %s, handshake state: %s)" % (k2, k3, k4), "flush only in transport state")


def rule_flush(ctx):
    """receive, the flush function and the stream callbacks of the noise layer (parts found by role, see noise_roles)"""
    repo = ctx.repo
    roles = noise_roles(repo)
    cls = repo.cls(NOISE, CN)
    fn = repo.method(NOISE, CN, "receive")
    w = where(NOISE, CN + ".receive", fn.lineno)
    # receive, abstractly executed in handshake and in transport state: the segment is put into the queue first; the queue
    # is flushed only in transport state; nothing is delivered directly
    outs = {}
    for state in ("STATE_HANDSHAKE", "STATE_TRANSPORT"):
        it, layer, _c = _noise_layer(repo, roles, state=state)
        raised = None
        try:
            it.method_call(layer, "receive", [("ext", "SEGMENT", [])], {}, {"@module": cls.module, "@owner": cls}, 0, None)
        except _Raise as r:
            raised = r.text
        seq = []
        for e in flat_effects(it.effects):
            if e[0] == "CALL" and e[1] in ("inq.put", "inq.put_nowait"):
                seq.append("put" if e[2] and e[2][0] == ("ext", "SEGMENT", []) else "put?")
            elif e[0] == "CALL" and e[1] == "flush":
                seq.append("flush")
            elif e[0] == "UP":
                seq.append("up")
            elif e[0] == "GETATTR" and e[2] == "state" and "state?" not in seq:
                seq.append("state?")
        outs[state] = (seq, raised)
    ok = outs["STATE_HANDSHAKE"] == (["put", "state?"], None) and outs["STATE_TRANSPORT"] == (["put", "state?", "flush"], None)
    ctx.check("C04.flush", ok, w, "enqueue, then test the state, then flush",
              "a received segment must be enqueued before the handshake state is tested (a frame arriving while the handshake completes would be lost or reordered): during the handshake %s, in transport state %s" % (outs["STATE_HANDSHAKE"], outs["STATE_TRANSPORT"]),
              "enqueue, then test the state, then flush")
    ctx.check("C04.flush", "up" not in outs["STATE_HANDSHAKE"][0] + outs["STATE_TRANSPORT"][0], w, "no delivery bypasses the queue", "receive delivers a frame without going through the ordered queue", "all deliveries go through the queue")
    # the flush function, abstractly executed on a queue holding two segments: each is decrypted by the protocol and
    # delivered, in order, while the flush lock is held; the lock is free afterwards
    from . import c11 as _c11
    ff = repo.method(NOISE, CN, roles["flush"])
    wf = where(NOISE, CN + "." + roles["flush"], ff.lineno)
    state = {"queued": 2, "n": 0}
    snaps = []
    hooks = {"ext:inq.qsize": lambda itp, recv, a, k, env, d, e: ("c", state["queued"]),
             "ext:inq.empty": lambda itp, recv, a, k, env, d, e: ("c", state["queued"] == 0)}

    def receive_(itp, recv, a, k, env, d, e):
        state["queued"] -= 1
        state["n"] += 1
        return ("ext", "FRAME%d" % state["n"], [])
    hooks["method:receive"] = receive_
    it, layer, _c = _noise_layer(repo, roles, extra_hooks=hooks)
    del it.hooks["fn:" + roles["flush"]]
    it.loop_unroll = 5            # the queue length is scripted: the drain loop really iterates
    up0 = it.hooks["method:toUpper"]

    def up_(itp, recv, a, k, env, d, e):
        snaps.append((list(flat_effects(itp.effects)), a[0] if a else None))
        return up0(itp, recv, a, k, env, d, e)
    it.hooks["method:toUpper"] = up_
    lock = layer[1].fields.get(roles["lock"])
    raised = None
    from ..absint import NeedAtom
    try:
        it.method_call(layer, roles["flush"], [], {}, {"@module": cls.module, "@owner": cls}, 0, None)
    except _Raise as r:
        raised = r.text
    except NeedAtom as x:
        if x.atom[0] == "F" and x.atom[1].startswith("trylock("):
            ctx.violate("C04.flush", wf, "drain loop under the flush lock", "the flush lock is only tried (%s): a flusher that finds it taken leaves without draining, and the frame it has just queued stays there until another frame arrives - frames are held back after the handshake" % x.atom[1][8:-1])
        else:
            ctx.undecided("C04.flush", wf, ff, "the flush function depends on a test the interpreter cannot decide: %s" % (x.atom,))
        lock = None
        raised = "skip"
    if raised == "skip":
        pass
    elif lock is None or lock[0] != "ext":
        ctx.undecided("C04.flush", wf, ff, "the flush lock (an attribute bound to threading.Lock() by the constructor) was not identified")
    else:
        held = [_c11.lock_balance(effs, lock) for effs, _v in snaps]
        end = _c11.lock_balance(list(flat_effects(it.effects)), lock)
        ctx.check("C04.flush", bool(held) and all(h == 1 for h in held) and end == 0 and not raised, wf, "drain loop under the flush lock",
                  "the whole drain loop must run under one lock (two flushers would interleave frames): lock held %s time(s) at the deliveries, %s afterwards" % (held, end), "every delivery happens under the flush lock")
        got = [v for _e, v in snaps]
        ctx.check("C04.flush", got == [("ext", "FRAME1", []), ("ext", "FRAME2", [])] and state["queued"] == 0, wf, "decrypt and deliver per segment, in order",
                  "each drained segment must be decrypted by the protocol and delivered (delivered %s, %d left queued)" % ([show(v)[:12] if v else None for v in got], state["queued"]), "decrypt and deliver per segment")
    # a frame arriving on another thread at the moment a flush is finishing: the running flusher has just seen the queue
    # empty (and is about to release the lock / clear its marker) when the other thread enqueues a frame and flushes.
    # That thread has to wait for the lock (and drain afterwards) or drain itself; returning at once because "a flush is
    # running" leaves the frame in the queue until the next one arrives.
    st2 = {"queued": 1, "n": 0, "thread": "A", "injected": False, "b": None}
    box = {}

    class _Blocked(Exception):
        pass

    def thread_(itp, recv, a, k, env, d, e):
        t = Obj(None)
        t.fields["ident"] = ("c", 4242 if st2["thread"] == "A" else 4343)
        t.fields["name"] = ("c", st2["thread"])
        return ("obj", t)

    def arrive(itp):
        st2["injected"] = True
        st2["queued"] += 1
        st2["thread"] = "B"
        try:
            itp.method_call(box["layer"], roles["flush"], [], {}, {"@module": cls.module, "@owner": cls}, 0, None)
            st2["b"] = "returned"
        except _Blocked:
            st2["b"] = "blocked"
        finally:
            st2["thread"] = "A"

    def qsize2(itp, recv, a, k, env, d, e):
        if st2["thread"] == "A" and st2["queued"] == 0 and not st2["injected"]:
            arrive(itp)
            return ("c", 0)
        return ("c", st2["queued"])

    def empty2(itp, recv, a, k, env, d, e):
        r = qsize2(itp, recv, a, k, env, d, e)
        return ("c", r[1] == 0)

    def receive2(itp, recv, a, k, env, d, e):
        st2["queued"] -= 1
        st2["n"] += 1
        return ("ext", "FRAME%d" % st2["n"], [])

    def acquire2(itp, recv, a, k, env, d, e):
        blocking = not ((a and a[0] == ("c", False)) or k.get("blocking") == ("c", False) or len(a) > 1 or "timeout" in k)
        if st2["thread"] == "B" and recv is box.get("lock") and blocking and _c11.lock_balance(list(flat_effects(itp.effects)), recv) > 0:
            raise _Blocked()
        return None

    def enter2(itp, v):
        if st2["thread"] == "B" and v is box.get("lock") and _c11.lock_balance(list(flat_effects(itp.effects)), v) > 0:
            raise _Blocked()
    hooks2 = {"ext:inq.qsize": qsize2, "ext:inq.empty": empty2, "method:receive": receive2, "ext:*.acquire": acquire2, "with:enter": enter2,
              "ext:*.current_thread": thread_, "ext:*.currentThread": thread_,
              "ext:*.get_ident": lambda itp, recv, a, k, env, d, e: ("c", 4242 if st2["thread"] == "A" else 4343)}
    it2, layer2, _c2 = _noise_layer(repo, roles, extra_hooks=hooks2)
    del it2.hooks["fn:" + roles["flush"]]
    it2.loop_unroll = 5
    box["layer"] = layer2
    box["lock"] = layer2[1].fields.get(roles["lock"])
    res2 = None
    try:
        it2.method_call(layer2, roles["flush"], [], {}, {"@module": cls.module, "@owner": cls}, 0, None)
        res2 = "done"
    except _Raise as r:
        res2 = "raised " + str(r.text)[:60]
    except NeedAtom as x:
        res2 = None if (x.atom[0] == "F" and x.atom[1].startswith("trylock(")) else "undecided %s" % (x.atom,)
    if res2 is None:
        pass        # a try-lock: already reported above
    elif res2.startswith("undecided") or not st2["injected"] or box["lock"] is None:
        ctx.undecided("C04.flush", wf, "a frame arrives while a flush is finishing", "scenario not executed (%s)" % (res2 if st2["injected"] else "the running flusher never saw the queue empty"))
    else:
        lost = st2["b"] == "returned" and st2["queued"] > 0
        ctx.check("C04.flush", not lost and res2 == "done", wf, "a frame arrives while a flush is finishing",
                  "the running flusher has seen the queue empty and is about to finish when another thread enqueues a frame and flushes: that flush returns at once (%s) without waiting for the lock, the frame stays in the queue until the next one arrives - frames are held back" % ("a flush is marked running" if lost else res2),
                  "the arriving thread %s" % ("waits for the lock and drains afterwards" if st2["b"] == "blocked" else "drains the queue itself"))
    # the protocol's state callback fires from inside receive() on the thread that is flushing (a frame arrived right
    # when the handshake completed): the nested flush must neither wait for the lock its own thread holds nor take the
    # segments the running loop is about to read - receive() reads the queue after the callback has returned and waits
    # for ever when the nested call has emptied it
    st3 = {"queued": 2, "n": 0, "fired": False, "starved": False, "selfblock": False}
    box3 = {}

    def receive3(itp, recv, a, k, env, d, e):
        if not st3["fired"]:
            st3["fired"] = True
            itp.method_call(box3["layer"], roles["state_cb"], [_const_expr(itp, cls, "WANoiseProtocol.STATE_TRANSPORT")], {}, {"@module": cls.module, "@owner": cls}, d + 1, None)
        if st3["queued"] <= 0:
            st3["starved"] = True
            raise _Raise(("ext", "BlockedForEver", []), "receive() waits on an empty queue")
        st3["queued"] -= 1
        st3["n"] += 1
        return ("ext", "FRAME%d" % st3["n"], [])

    def reentrant(lockv):
        return lockv is not None and lockv[0] == "ext" and "RLock" in lockv[1]

    def acquire3(itp, recv, a, k, env, d, e):
        blocking = not ((a and a[0] == ("c", False)) or k.get("blocking") == ("c", False) or len(a) > 1 or "timeout" in k)
        # (the acquisition being made is already on record when this hook runs)
        if recv is box3.get("lock") and blocking and not reentrant(recv) and _c11.lock_balance(list(flat_effects(itp.effects)), recv) > 1:
            st3["selfblock"] = True
            raise _Raise(("ext", "BlockedForEver", []), "the thread waits for a lock it holds itself")
        return None

    def enter3(itp, v):
        if v is box3.get("lock") and not reentrant(v) and _c11.lock_balance(list(flat_effects(itp.effects)), v) > 0:
            st3["selfblock"] = True
            raise _Raise(("ext", "BlockedForEver", []), "the thread waits for a lock it holds itself")
    hooks3 = {"ext:inq.qsize": lambda itp, recv, a, k, env, d, e: ("c", st3["queued"]), "ext:inq.empty": lambda itp, recv, a, k, env, d, e: ("c", st3["queued"] == 0),
              "method:receive": receive3, "ext:*.acquire": acquire3, "with:enter": enter3}
    it3, layer3, _c3 = _noise_layer(repo, roles, extra_hooks=hooks3, known_rs=("ext", "KEY_NEW", []))
    del it3.hooks["fn:" + roles["flush"]]
    it3.loop_unroll = 6
    box3["layer"] = layer3
    box3["lock"] = layer3[1].fields.get(roles["lock"])
    ups3 = []
    up03 = it3.hooks["method:toUpper"]

    def up3(itp, recv, a, k, env, d, e):
        ups3.append(a[0] if a else None)
        return up03(itp, recv, a, k, env, d, e)
    it3.hooks["method:toUpper"] = up3
    res3 = None
    try:
        it3.method_call(layer3, roles["flush"], [], {}, {"@module": cls.module, "@owner": cls}, 0, None)
        res3 = "done"
    except _Raise as r:
        res3 = "raised " + str(r.text)[:70]
    except NeedAtom as x:
        res3 = "undecided %s" % (x.atom,)
    if res3.startswith("undecided") or not st3["fired"]:
        ctx.undecided("C04.flush", wf, "the state callback fires inside receive() on the flushing thread", "scenario not executed (%s)" % res3)
    else:
        why = None
        if st3["selfblock"]:
            why = "the nested flush waits for the flush lock, which its own thread holds: the network thread blocks on itself for ever"
        elif st3["starved"]:
            why = "the nested flush runs a drain loop of its own and takes the segment the running receive() was about to read: that receive() then waits on an empty queue for ever, on the network thread - no later frame is read (%d of 2 frames were delivered)" % len(ups3)
        elif res3 != "done":
            why = res3
        elif ups3 != [("ext", "FRAME1", []), ("ext", "FRAME2", [])] or st3["queued"] != 0:
            why = "the two queued frames are delivered as %s, %d left queued" % ([show(v)[:10] if v else None for v in ups3], st3["queued"])
        ctx.check("C04.flush", why is None, wf, "the state callback fires inside receive() on the flushing thread", why or "", "the nested call leaves the drain to the running loop: both frames delivered once, in order")
    # both flush sites use the same function
    sites = []
    for name, f in cls.methods.items():
        for c in ast.walk(f):
            if isinstance(c, ast.Call) and is_self_attr(c.func, roles["flush"]):
                sites.append(name)
    ctx.check("C04.flush", sorted(set(sites)) == sorted({roles["state_cb"], "receive"}), where(NOISE, CN, None), "flush sites %s" % sorted(sites), "frames must be flushed on arrival (after the handshake) and when the transport state is reached, through the same function", "two sites, one function")
    # the stream's callback: a WRITE event sends the stream's segment down, a READ event feeds the stream from the queue
    hs = repo.method(NOISE, CN, roles["stream_cb"])
    whs = where(NOISE, CN + "." + roles["stream_cb"], hs.lineno)
    seen = {}
    for evname in ("EVENT_WRITE", "EVENT_READ"):
        it, layer, _c = _noise_layer(repo, roles)
        raised = None
        try:
            it.method_call(layer, roles["stream_cb"], [_const_expr(it, cls, "BlockingQueueSegmentedStream." + evname)], {}, {"@module": cls.module, "@owner": cls}, 0, None)
        except _Raise as r:
            raised = r.text
        effs = list(flat_effects(it.effects))
        seen[evname] = (effs, raised)
    we, wr_ = seen["EVENT_WRITE"]
    re_, rr = seen["EVENT_READ"]
    dn = [e for e in we if e[0] == "DOWN"]
    okw = not wr_ and len(dn) == 1 and _mentions(dn[0][1], "get_write_segment") and not [e for e in we if e[0] == "CALL" and e[1].startswith("inq.")]
    feeds = [e for e in re_ if e[0] == "CALL" and e[1] == "stream.put_read_segment"]
    okr = not rr and len(feeds) == 1 and feeds[0][2] and _mentions(feeds[0][2][0], "get") and _mentions(feeds[0][2][0], "inq") and not [e for e in re_ if e[0] == "DOWN"]
    ctx.check("C04.flush", okw and okr, whs, "stream events", "handshake writes must go down through toLower and reads must come from the segment queue", "write -> toLower, read <- queue")


def rule_attempt(ctx):
    repo = ctx.repo
    cls = repo.cls(NOISE, CN)
    init = repo.method(NOISE, CN, "__init__")
    auth = repo.method(NOISE, CN, "on_auth")
    disc = repo.method(NOISE, CN, "on_disconnected")
    hs = repo.method(NOISE, CN, "_handle_stream_event")
    # stateful channels: attributes assigned in __init__ from a constructor whose name says stream / queue
    chans = {}
    for n in ast.walk(init):
        if isinstance(n, ast.Assign) and is_self_attr(n.targets[0]) and isinstance(n.value, ast.Call):
            f = unparse(n.value.func)
            if f.endswith("SegmentedStream") or f.endswith("Queue"):
                chans[n.targets[0].attr] = f
    worker_calls = [c for c in ast.walk(auth) if isinstance(c, ast.Call) and unparse(c.func) == "WANoiseProtocolHandshakeWorker"]
    used = set()
    for c in worker_calls:
        for a in c.args:
            if is_self_attr(a) and a.attr in chans:
                used.add(a.attr)
    # the stream callback and what it dispatches to: methods it calls on self, and methods named in a class-level table it reads
    hs_fns, todo = [], [hs]
    while todo:
        f_ = todo.pop()
        if f_ in hs_fns:
            continue
        hs_fns.append(f_)
        for n in ast.walk(f_):
            if is_self_attr(n) and n.attr in cls.methods:
                todo.append(cls.methods[n.attr])
            elif is_self_attr(n) and n.attr in cls.consts:
                todo += [cls.methods[x.id] for x in ast.walk(cls.consts[n.attr]) if isinstance(x, ast.Name) and x.id in cls.methods]
    for f_ in hs_fns:
        for n in ast.walk(f_):
            if is_self_attr(n) and n.attr in chans:
                used.add(n.attr)
    fresh = {t.attr for n in ast.walk(auth) if isinstance(n, ast.Assign) for t in n.targets if is_self_attr(t) and t.attr in chans and isinstance(n.value, ast.Call)}
    cancels = [c for c in ast.walk(disc) if isinstance(c, ast.Call) and "_handshake_worker" in unparse(c.func)]
    drains = {t.attr for n in ast.walk(disc) if isinstance(n, ast.Assign) for t in n.targets if is_self_attr(t) and t.attr in chans}
    for attr in sorted(used):
        ok = attr in fresh or attr in drains or bool(cancels)
        ctx.check("C04.attempt", ok, where(NOISE, CN + ".on_auth", auth.lineno), "self.%s shared by every handshake attempt" % attr,
                  "self.%s (%s) is created once in __init__ and captured by the worker thread of every login attempt; a worker left blocked by a cut-off attempt is neither cancelled on disconnect nor isolated, so it consumes the next attempt's server reply" % (attr, chans[attr]),
                  "per-attempt channel (or the old worker is cancelled)")
    if not used:
        ctx.undecided("C04.attempt", where(NOISE, CN + ".on_auth", auth.lineno), "channels of the worker", "no stream / queue attribute found")
    # disconnect resets the protocol state
    ok = any(isinstance(c, ast.Call) and unparse(c.func) == "self._wa_noiseprotocol.reset" for c in ast.walk(disc))
    ctx.check("C04.attempt", ok, where(NOISE, CN + ".on_disconnected", disc.lineno), "protocol reset on disconnect", "the protocol must be reset on disconnect so that a later connect starts a fresh handshake", "reset on disconnect")
    # a new worker is only started when no handshake is in progress
    g = CFG(auth)
    starts = [n for n in g.live if any(isinstance(x, ast.Call) and unparse(x.func) == "self._handshake_worker.start" for e in node_exprs(n) for x in walk_no_nested(e))]
    tests = [n for n in g.live if n.kind == "test" and "_in_handshake" in unparse(n.stmt.test)]
    ok = len(starts) == 1 and len(tests) == 1 and g.dominates(tests[0], starts[0])
    ctx.check("C04.attempt", ok, where(NOISE, CN + ".on_auth", auth.lineno), "worker started only when no handshake is running", "a second worker could be started while a handshake is in progress", "guarded by not _in_handshake()")


def run(ctx):
    ctx.rule("C04.prologue", "prologue bytes and segmentation switch sequence", floor=2)
    ctx.rule("C04.config", "client config provenance and worker wiring", floor=5)
    ctx.rule("C04.finish", "finish callback on every path; failure reported upward", floor=4)
    ctx.rule("C04.rs", "changed server key persisted before the flush", floor=3)
    ctx.rule("C04.flush", "enqueue-before-test, single locked drain, stream event wiring", floor=6)
    ctx.rule("C04.intact", "server->client stanzas decoded completely (C02.alts adopted: all forms, full inflate)", floor=20)
    ctx.rule("C04.order", "frames intact and in sending order client->server: C11's lock-set rules adopted", floor=8)
    ctx.rule("C04.attempt", "per-attempt resources / reset", floor=3)
    ctx.assume("consonance calls the state callback and the stream events synchronously; the Noise handshake itself and chunkings (C05) are not decided here")
    ctx.guarded("C04.prologue", rule_prologue, ctx)
    ctx.guarded("C04.config", rule_config, ctx)
    ctx.guarded("C04.finish", rule_finish, ctx)
    ctx.guarded("C04.rs", rule_rs, ctx)
    ctx.guarded("C04.flush", rule_flush, ctx)
    ctx.guarded("C04.attempt", rule_attempt, ctx)
    # server->client: a compressed stanza is inflated completely, every alternative form is accepted (C02.alts), adopted
    from . import c02
    ctx.adopt_from("C02", [(c02.rule_alts, (c02.load_ref("format.json"),))], {"C02.alts": "C04.intact"})
    # 'stanzas arrive intact and in sending order' on the client->server side is the lock-set argument of C11, adopted
    from . import c11
    ctx.adopt_from("C11", [(c11.rule_hoh, ()), (c11.rule_enc, ()), (c11.rule_once_frame, ()), (c11.rule_disp, ())],
                   {"C11.hoh": "C04.order", "C11.enc": "C04.order", "C11.frame": "C04.order", "C11.once": "C04.order", "C11.disp": "C04.order"})
