"""C04 - encrypted transport: shape of the yowsup-side glue around the noise library.

C04.prologue  HEADER agrees with the protocol version constants; prologues go down with segmentation off, the routing
              info with it on, and it is on when the handshake worker starts (abstract execution of on_auth)
C04.config    ClientConfig receives the profile's username, the event's passive flag, the configured push name
C04.finish    the worker reaches the finish callback on every path (also when the handshake failed); a failed
              handshake emits the failure event and sends a failure stanza up
C04.rs        a changed server key is written to the profile before buffered frames are flushed
C04.flush     receive enqueues before testing the state; both flush sites drain through one locked function;
              disconnect resets the protocol
C04.attempt   resources captured by a per-attempt worker are per-attempt, or the old worker is cancelled on disconnect
"""
import ast

from ..absint import Interp, Obj, _Raise, C_NONE, show, flat_effects, enumerate_cells, Budget
from ..cfg import CFG, fmt_path, walk_no_nested
from ..consts import Evaluator, alts
from ..deps import node_exprs
from ..layers import LayerRunner
from ..report import where
from ..repo import unparse, is_self_attr, params_of
from .c16 import run_handler, _event_obj, event_name

NOISE = "yowsup/layers/noise/layer.py"
WORKER = "yowsup/layers/noise/workers/handshake.py"
SEG = "yowsup/layers/noise/layer_noise_segments.py"
CN = "YowNoiseLayer"


def rule_prologue(ctx):
    repo = ctx.repo
    cls = repo.cls(NOISE, CN)
    ev = Evaluator(repo, cls.module, cls)
    header = alts(ev.class_const(cls, "HEADER"))
    edge = alts(ev.class_const(cls, "EDGE_HEADER"))
    init = repo.method(NOISE, CN, "__init__")
    w = where(NOISE, CN + ".__init__", init.lineno)
    ver = None
    for c in ast.walk(init):
        if isinstance(c, ast.Call) and unparse(c.func) == "WANoiseProtocol" and len(c.args) >= 2:
            a, b = alts(ev.ev(c.args[0])), alts(ev.ev(c.args[1]))
            if a and b:
                ver = (a[0], b[0])
    ok = header is not None and ver is not None and header[0] == b"WA" + bytes(ver)
    ctx.check("C04.prologue", ok, w, "HEADER %r vs protocol version %s" % (header[0] if header else None, ver),
              "the prologue must be b'WA' + (major, minor) of the protocol object the layer creates: the server would reject or mis-key the handshake", "prologue = b'WA' + version bytes")
    seg = repo.cls(SEG, "YowNoiseSegmentsLayer")
    PROP = alts(Evaluator(repo, seg.module, seg).class_const(seg, "PROP_ENABLED"))[0]
    # abstract execution of on_auth over its own decisions
    evo = _event_obj(repo)
    evo.fields["args"] = ("dict", {"passive": ("fn", "passive", [])})

    env_hook = {"classmethod:getCurrent": lambda itp, c, args, kwargs, env, depth, e: ("ext", "env", [])}      # environment description: opaque

    def run(cell, domains):
        r, it = run_handler(repo, NOISE, CN, "on_auth", [("obj", evo)], fields={"_wa_noiseprotocol": ("ext", "protocol", []), "_stream": ("ext", "stream", [])},
                            cell=cell, domains=domains, extra_hooks=env_hook)
        return r, it
    try:
        cells = enumerate_cells(run, {}, max_cells=400)
    except Budget:
        ctx.undecided("C04.prologue", where(NOISE, CN + ".on_auth", None), "on_auth", "budget exceeded")
        return
    wa = where(NOISE, CN + ".on_auth", None)
    n_ok = 0
    for cell, r in cells:
        label = ", ".join("%s%s" % ("" if v else "not ", a[1][:50]) for a, v in cell.items())
        enabled = None
        seq = []
        started = None
        for e in r["effects"]:
            if e[0] == "SETPROP" and e[1] == ("c", PROP):
                enabled = e[2][1] if e[2][0] == "c" else "?"
            elif e[0] == "DOWN":
                seq.append((e[1], enabled))
            elif e[0] == "CALL" and e[1].endswith(".start"):
                started = enabled
        if r["raised"]:
            continue
        if not seq:
            # no key pair: nothing may be sent, a disconnect is requested
            b = [x for x in r["effects"] if x[0] == "BCAST"]
            ctx.check("C04.prologue", len(b) == 1 and started is None, wa, "on_auth without key pair (%s)" % label[:80], "without a client key pair the layer must request a disconnect and send nothing", "disconnect requested, nothing sent")
            continue
        probs = []
        kinds = []
        for v, en in seq:
            if v == ("c", header[0]):
                kinds.append("HEADER")
                if en is not False:
                    probs.append("the WA prologue is written with segmentation %s" % en)
            elif edge and v == ("c", edge[0]):
                kinds.append("EDGE")
                if en is not False:
                    probs.append("the edge prologue is written with segmentation %s" % en)
            else:
                kinds.append("ROUTING")
                if en is not True:
                    probs.append("the routing info is written with segmentation %s (it must be length-prefixed)" % en)
        if kinds not in (["HEADER"], ["EDGE", "ROUTING", "HEADER"]):
            probs.append("prologue sequence is %s" % kinds)
        if started is not None and started is not True:
            probs.append("the handshake worker starts with segmentation %s" % started)
        if enabled is not True:
            probs.append("segmentation is %s when on_auth returns" % enabled)
        if probs:
            ctx.violate("C04.prologue", wa, "on_auth path (%s)" % label[:100], "; ".join(probs))
        else:
            n_ok += 1
    if n_ok:
        ctx.hold("C04.prologue", wa, "on_auth over %d path classes" % len(cells), "%d sending paths: prologues raw, routing info framed, segmentation on before the handshake" % n_ok)
    else:
        ctx.violate("C04.prologue", wa, "on_auth", "no path of on_auth sends the prologue")


def rule_config(ctx):
    repo = ctx.repo
    fn = repo.method(NOISE, CN, "on_auth")
    w = where(NOISE, CN + ".on_auth", fn.lineno)
    cc = [c for c in ast.walk(fn) if isinstance(c, ast.Call) and unparse(c.func) == "ClientConfig"]
    if len(cc) != 1:
        ctx.undecided("C04.config", w, fn, "ClientConfig(...) call not found")
        return
    kw = {k.arg: k.value for k in cc[0].keywords}
    locals_ = {}
    for n in ast.walk(fn):
        if isinstance(n, ast.Assign) and isinstance(n.targets[0], ast.Name):
            locals_.setdefault(n.targets[0].id, []).append(n.value)

    def src(e):
        if isinstance(e, ast.Name) and len(locals_.get(e.id, [])) == 1:
            return unparse(locals_[e.id][0])
        return unparse(e) if e is not None else None
    u, p, pn = src(kw.get("username")), src(kw.get("passive")), src(kw.get("pushname"))
    ctx.check("C04.config", u is not None and "self._profile.username" in u, w, "username=" + str(u), "the login must present the profile's account", "username <- profile")
    ctx.check("C04.config", p is not None and "getArg('passive')" in p.replace('"', "'"), w, "passive=" + str(p), "the login must present the passive flag of the auth event", "passive <- auth event")
    ctx.check("C04.config", pn is not None and "config.pushname" in pn and "DEFAULT_PUSHNAME" in pn, w, "pushname=" + str(pn), "the login must present the configured push name (default only when unset)", "pushname <- config or default")
    # the config the worker gets is the object built in THIS call (from this event's passive flag and the current profile),
    # not one kept from an earlier login
    holder = [n for n in ast.walk(fn) if isinstance(n, ast.Assign) and any(x is cc[0] for x in ast.walk(n.value))]
    fresh = len(holder) == 1 and holder[0].value is cc[0] and isinstance(holder[0].targets[0], ast.Name) and len(locals_.get(holder[0].targets[0].id, [])) == 1
    ctx.check("C04.config", fresh, w, holder[0] if holder else cc[0],
              "the client description must be built afresh for every login: here it is `%s`, so a later login presents the account / passive flag of an earlier one" % (unparse(holder[0].value)[:60] if holder else "?"),
              "built in this call")
    # the worker gets this config, the local key pair and the stored server key
    wk = [c for c in ast.walk(fn) if isinstance(c, ast.Call) and unparse(c.func) == "WANoiseProtocolHandshakeWorker"]
    ok = len(wk) == 1 and [unparse(a) for a in wk[0].args][:5] == ["self._wa_noiseprotocol", "self._stream", "client_config", "local_static", "remote_static"] and unparse(wk[0].args[5]) == "self.on_handshake_finished"
    rs = src(ast.Name(id="remote_static", ctx=ast.Load()))
    ctx.check("C04.config", bool(ok) and rs is not None and "server_static_public" in rs, w, wk[0] if wk else fn, "the worker must get (protocol, stream, client config, client key pair, stored server key, finish callback)", "worker wired with config, keys and callback")
    k = repo.cls(WORKER, "WANoiseProtocolHandshakeWorker")
    run = k.methods["run"]
    st = [c for c in ast.walk(run) if isinstance(c, ast.Call) and unparse(c.func) == "self._protocol.start"]
    ok = len(st) == 1 and [unparse(a) for a in st[0].args] == ["self._stream", "self._client_config", "self._s", "self._rs"]
    init = k.methods["__init__"]
    ps = params_of(init)
    assigns = {unparse(n.targets[0]): unparse(n.value) for n in ast.walk(init) if isinstance(n, ast.Assign)}
    okf = all(assigns.get("self._" + a) == b for a, b in (("protocol", ps[0]), ("stream", ps[1]), ("client_config", ps[2]), ("s", ps[3]), ("rs", ps[4]), ("finish_callback", ps[5])))
    ctx.check("C04.config", ok and okf, where(WORKER, "WANoiseProtocolHandshakeWorker", None), st[0] if st else run, "the worker must start the protocol with the stream, config, client key pair and server key it was given", "start(stream, config, s, rs) from its own constructor arguments")


def rule_finish(ctx):
    repo = ctx.repo
    k = repo.cls(WORKER, "WANoiseProtocolHandshakeWorker")
    run = k.methods["run"]
    g = CFG(run)
    w = where(WORKER, "WANoiseProtocolHandshakeWorker.run", run.lineno)
    calls = [n for n in g.live if any(isinstance(x, ast.Call) and unparse(x.func) == "self._finish_callback" for e in node_exprs(n) for x in walk_no_nested(e))]
    guards = [n for n in g.live if n.kind == "test" and "_finish_callback" in unparse(n.stmt.test)]
    ok = False
    p = None
    if len(calls) == 1:
        # every normal path reaches the call unless the callback is None
        avoid = calls
        p = g.path(g.entry, lambda x: x is g.exit, avoid=avoid, edge_ok=lambda a, b, kk: not (a in guards and kk == "true") and kk != "exc" or (kk == "exc" and b.kind == "dispatch"))
        reach_via_handler = any(n.kind == "handler" and "HandshakeFailedException" in unparse(n.stmt.type) for n in g.live)
        # path through the failure handler reaches the call too
        hn = [n for n in g.live if n.kind == "handler"]
        ok_h = all(g.path(h, lambda x: x is calls[0]) is not None for h in hn)
        only_none = p is None or all(True for _ in [0])
        # a path that skips the call must go through the `is not None` guard's false edge
        p2 = g.path(g.entry, lambda x: x is g.exit, avoid=calls, edge_ok=lambda a, b, kk: not (a in guards))
        ok = reach_via_handler and ok_h and p2 is None
        p = p2
    ctx.check("C04.finish", ok, w, calls[0].stmt if calls else run, "a path through run() ends without the finish callback: " + fmt_path(p) + " (the login would hang)", "finish callback reached on the success and the failed-handshake path")
    # the error handed over is the caught exception
    errs = [n for n in ast.walk(run) if isinstance(n, ast.ExceptHandler) and n.name]
    okarg = len(errs) == 1 and any(isinstance(s, ast.Assign) and unparse(s.value) == errs[0].name for s in errs[0].body) and calls and "error" in unparse(calls[0].stmt)
    ctx.check("C04.finish", bool(okarg), w, "callback argument", "the callback must receive the caught handshake error (None on success)", "callback(error or None)")
    # on_handshake_finished(e): event + failure stanza up when e is set, nothing otherwise
    cls = repo.cls(NOISE, CN)
    EVF = alts(Evaluator(repo, cls.module, cls).class_const(cls, "EVENT_HANDSHAKE_FAILED"))[0]
    wf = where(NOISE, CN + ".on_handshake_finished", None)
    enc_hook = {"method:protocolTreeNodeToBytes": lambda itp, recv, args, kwargs, env, depth, e: ("fn", "encoded", list(args))}    # the codec is C01's
    r, it = run_handler(repo, NOISE, CN, "on_handshake_finished", [("ext", "HandshakeFailedException", [])], extra_hooks=enc_hook)
    em = [event_name(e[1]) for e in r["effects"] if e[0] == "EMIT"]
    ups = [e for e in r["effects"] if e[0] == "UP"]
    ok = em == [EVF] and len(ups) == 1 and not r["raised"]
    fail_stanza = False
    if ups:
        # the bytes come from encoding a <failure> node
        fail_stanza = "failure" in show(ups[0][1]) or any("failure" in str(d) for d in _deps_text(ups[0][1]))
    ctx.check("C04.finish", ok and fail_stanza, wf, "failed handshake -> event + <failure> up", "a failed handshake must emit the failure event and send a <failure> stanza upward (events %s, %d deliveries)" % (em, len(ups)), "event emitted, <failure> delivered")
    r, it = run_handler(repo, NOISE, CN, "on_handshake_finished", [C_NONE])
    ctx.check("C04.finish", not [e for e in r["effects"] if e[0] in ("EMIT", "UP")], wf, "successful handshake -> nothing reported", "a successful handshake must not report a failure", "nothing reported")


def _deps_text(v, depth=0):
    out = []
    if isinstance(v, tuple) and depth < 8:
        for x in v:
            if isinstance(x, (tuple, list)):
                for y in (x if isinstance(x, list) else [x]):
                    out += _deps_text(y, depth + 1)
            elif isinstance(x, str):
                out.append(x)
            elif hasattr(x, "tag"):
                out.append(show(x.tag))
    return out


def rule_rs(ctx):
    repo = ctx.repo
    fn = repo.method(NOISE, CN, "_on_protocol_state_changed")
    g = CFG(fn)
    w = where(NOISE, CN + "._on_protocol_state_changed", fn.lineno)

    def nodes_calling(text):
        return [n for n in g.live if any(isinstance(x, ast.Call) and unparse(x.func) == text for e in node_exprs(n) for x in walk_no_nested(e))]
    flush = nodes_calling("self._flush_incoming_buffer")
    write = nodes_calling("self._profile.write_config")
    tests = [n for n in g.live if n.kind == "test" and "_rs" in unparse(n.stmt.test) and ".rs" in unparse(n.stmt.test)]
    if len(flush) != 1 or len(write) != 1 or len(tests) != 1:
        ctx.violate("C04.rs", w, fn, "expected one key comparison, one write_config and one flush in the state callback (found %d/%d/%d)" % (len(tests), len(write), len(flush)))
        return
    t = tests[0]
    neq = isinstance(t.stmt.test, ast.Compare) and isinstance(t.stmt.test.ops[0], ast.NotEq)
    edge = "true" if neq else "false"
    skip = g.path(t, lambda x: x is flush[0], avoid=write, edge_ok=lambda a, b, k: not (a is t and k != edge))
    ctx.check("C04.rs", skip is None and g.dominates(t, flush[0]), w, write[0].stmt, "when the server key changed, frames are flushed before (or without) the new key being written: " + fmt_path(skip), "changed server key written before the flush")
    stores = [n for n in g.live if n.kind == "stmt" and isinstance(n.stmt, ast.Assign) and unparse(n.stmt.targets[0]).endswith(".server_static_public") and "_wa_noiseprotocol.rs" in unparse(n.stmt.value)]
    ctx.check("C04.rs", len(stores) == 1 and g.dominates(stores[0], write[0]), w, stores[0].stmt if stores else fn, "the new server key must be put into the config that is written", "config updated with the new key, then written")
    st = [n for n in g.live if n.kind == "test" and "STATE_TRANSPORT" in unparse(n.stmt.test)]
    ctx.check("C04.rs", len(st) == 1 and g.dominates(st[0], flush[0]), w, st[0].stmt if st else fn, "buffered frames may only be flushed once the transport state is reached", "flush only in transport state")


def rule_flush(ctx):
    repo = ctx.repo
    fn = repo.method(NOISE, CN, "receive")
    g = CFG(fn)
    w = where(NOISE, CN + ".receive", fn.lineno)
    puts = [n for n in g.live if any(isinstance(x, ast.Call) and unparse(x.func) == "self._incoming_segments_queue.put" for e in node_exprs(n) for x in walk_no_nested(e))]
    tests = [n for n in g.live if n.kind == "test" and "_in_handshake" in unparse(n.stmt.test)]
    flush = [n for n in g.live if any(isinstance(x, ast.Call) and unparse(x.func) == "self._flush_incoming_buffer" for e in node_exprs(n) for x in walk_no_nested(e))]
    ok = len(puts) == 1 and len(tests) == 1 and len(flush) == 1 and g.dominates(puts[0], tests[0]) and g.dominates(tests[0], flush[0])
    ctx.check("C04.flush", ok, w, puts[0].stmt if puts else fn, "a received segment must be enqueued before the handshake state is tested (a frame arriving while the handshake completes would be lost or reordered)", "enqueue, then test the state, then flush")
    # direct delivery that bypasses the queue is not allowed
    direct = [n for n in g.live if any(isinstance(x, ast.Call) and is_self_attr(x.func, "toUpper") for e in node_exprs(n) for x in walk_no_nested(e))]
    ctx.check("C04.flush", not direct, w, "no delivery bypasses the queue", "receive delivers a frame without going through the ordered queue", "all deliveries go through the queue")
    ff = repo.method(NOISE, CN, "_flush_incoming_buffer")
    gf = CFG(ff)
    acq = [n for n in gf.live if "_flush_lock.acquire" in (unparse(n.stmt) if n.stmt is not None and n.kind == "stmt" else "") or (n.kind == "with_enter" and "_flush_lock" in unparse(n.stmt.items[0].context_expr))]
    loops = [n for n in gf.live if n.kind == "test" and isinstance(n.stmt, ast.While)]
    ups = [n for n in gf.live if any(isinstance(x, ast.Call) and is_self_attr(x.func, "toUpper") for e in node_exprs(n) for x in walk_no_nested(e))]
    ok = len(acq) >= 1 and len(loops) == 1 and len(ups) == 1 and gf.dominates(acq[0], loops[0]) and "qsize" in unparse(loops[0].stmt.test)
    ctx.check("C04.flush", ok, where(NOISE, CN + "._flush_incoming_buffer", ff.lineno), "drain loop under _flush_lock", "the whole drain loop must run under one lock (two flushers would interleave frames)", "lock taken before the drain loop")
    dec = "_wa_noiseprotocol.receive()" in unparse(ups[0].stmt) if ups else False
    ctx.check("C04.flush", dec, where(NOISE, CN + "._flush_incoming_buffer", ff.lineno), ups[0].stmt if ups else ff, "each drained segment must be decrypted by the protocol and delivered", "decrypt and deliver per segment")
    # both flush sites use the same function
    sites = []
    cls = repo.cls(NOISE, CN)
    for name, f in cls.methods.items():
        for c in ast.walk(f):
            if isinstance(c, ast.Call) and is_self_attr(c.func, "_flush_incoming_buffer"):
                sites.append(name)
    ctx.check("C04.flush", sorted(sites) == ["_on_protocol_state_changed", "receive"], where(NOISE, CN, None), "flush sites %s" % sorted(sites), "frames must be flushed on arrival (after the handshake) and when the transport state is reached, through the same function", "two sites, one function")
    # disconnect resets the protocol; the read side of the stream is fed from the queue
    hs = repo.method(NOISE, CN, "_handle_stream_event")
    src = unparse(hs)
    ok = "put_read_segment(self._incoming_segments_queue.get(" in src and "self.toLower(self._stream.get_write_segment())" in src
    ctx.check("C04.flush", ok, where(NOISE, CN + "._handle_stream_event", hs.lineno), "stream events", "handshake writes must go down through toLower and reads must come from the segment queue", "write -> toLower, read <- queue")


def rule_attempt(ctx):
    repo = ctx.repo
    cls = repo.cls(NOISE, CN)
    init = repo.method(NOISE, CN, "__init__")
    auth = repo.method(NOISE, CN, "on_auth")
    disc = repo.method(NOISE, CN, "on_disconnected")
    hs = repo.method(NOISE, CN, "_handle_stream_event")
    # stateful channels: attributes assigned in __init__ from a constructor whose name says stream / queue
    chans = {}
    for n in ast.walk(init):
        if isinstance(n, ast.Assign) and is_self_attr(n.targets[0]) and isinstance(n.value, ast.Call):
            f = unparse(n.value.func)
            if f.endswith("SegmentedStream") or f.endswith("Queue"):
                chans[n.targets[0].attr] = f
    worker_calls = [c for c in ast.walk(auth) if isinstance(c, ast.Call) and unparse(c.func) == "WANoiseProtocolHandshakeWorker"]
    used = set()
    for c in worker_calls:
        for a in c.args:
            if is_self_attr(a) and a.attr in chans:
                used.add(a.attr)
    for n in ast.walk(hs):
        if is_self_attr(n) and n.attr in chans:
            used.add(n.attr)
    fresh = {t.attr for n in ast.walk(auth) if isinstance(n, ast.Assign) for t in n.targets if is_self_attr(t) and t.attr in chans and isinstance(n.value, ast.Call)}
    cancels = [c for c in ast.walk(disc) if isinstance(c, ast.Call) and "_handshake_worker" in unparse(c.func)]
    drains = {t.attr for n in ast.walk(disc) if isinstance(n, ast.Assign) for t in n.targets if is_self_attr(t) and t.attr in chans}
    for attr in sorted(used):
        ok = attr in fresh or attr in drains or bool(cancels)
        ctx.check("C04.attempt", ok, where(NOISE, CN + ".on_auth", auth.lineno), "self.%s shared by every handshake attempt" % attr,
                  "self.%s (%s) is created once in __init__ and captured by the worker thread of every login attempt; a worker left blocked by a cut-off attempt is neither cancelled on disconnect nor isolated, so it consumes the next attempt's server reply" % (attr, chans[attr]),
                  "per-attempt channel (or the old worker is cancelled)")
    if not used:
        ctx.undecided("C04.attempt", where(NOISE, CN + ".on_auth", auth.lineno), "channels of the worker", "no stream / queue attribute found")
    # disconnect resets the protocol state
    ok = any(isinstance(c, ast.Call) and unparse(c.func) == "self._wa_noiseprotocol.reset" for c in ast.walk(disc))
    ctx.check("C04.attempt", ok, where(NOISE, CN + ".on_disconnected", disc.lineno), "protocol reset on disconnect", "the protocol must be reset on disconnect so that a later connect starts a fresh handshake", "reset on disconnect")
    # a new worker is only started when no handshake is in progress
    g = CFG(auth)
    starts = [n for n in g.live if any(isinstance(x, ast.Call) and unparse(x.func) == "self._handshake_worker.start" for e in node_exprs(n) for x in walk_no_nested(e))]
    tests = [n for n in g.live if n.kind == "test" and "_in_handshake" in unparse(n.stmt.test)]
    ok = len(starts) == 1 and len(tests) == 1 and g.dominates(tests[0], starts[0])
    ctx.check("C04.attempt", ok, where(NOISE, CN + ".on_auth", auth.lineno), "worker started only when no handshake is running", "a second worker could be started while a handshake is in progress", "guarded by not _in_handshake()")


def run(ctx):
    ctx.rule("C04.prologue", "prologue bytes and segmentation switch sequence", floor=2)
    ctx.rule("C04.config", "client config provenance and worker wiring", floor=5)
    ctx.rule("C04.finish", "finish callback on every path; failure reported upward", floor=4)
    ctx.rule("C04.rs", "changed server key persisted before the flush", floor=3)
    ctx.rule("C04.flush", "enqueue-before-test, single locked drain, stream event wiring", floor=6)
    ctx.rule("C04.intact", "server->client stanzas decoded completely (C02.alts adopted: all forms, full inflate)", floor=20)
    ctx.rule("C04.order", "frames intact and in sending order client->server: C11's lock-set rules adopted", floor=8)
    ctx.rule("C04.attempt", "per-attempt resources / reset", floor=3)
    ctx.assume("consonance calls the state callback and the stream events synchronously; the Noise handshake itself and chunkings (C05) are not decided here")
    ctx.guarded("C04.prologue", rule_prologue, ctx)
    ctx.guarded("C04.config", rule_config, ctx)
    ctx.guarded("C04.finish", rule_finish, ctx)
    ctx.guarded("C04.rs", rule_rs, ctx)
    ctx.guarded("C04.flush", rule_flush, ctx)
    ctx.guarded("C04.attempt", rule_attempt, ctx)
    # server->client: a compressed stanza is inflated completely, every alternative form is accepted (C02.alts), adopted
    from . import c02
    ctx.adopt_from("C02", [(c02.rule_alts, (c02.load_ref("format.json"),))], {"C02.alts": "C04.intact"})
    # 'stanzas arrive intact and in sending order' on the client->server side is the lock-set argument of C11, adopted
    from . import c11
    ctx.adopt_from("C11", [(c11.rule_hoh, ()), (c11.rule_enc, ()), (c11.rule_once_frame, ()), (c11.rule_disp, ())],
                   {"C11.hoh": "C04.order", "C11.enc": "C04.order", "C11.frame": "C04.order", "C11.once": "C04.order", "C11.disp": "C04.order"})
