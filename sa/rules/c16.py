"""C16 - connection lifecycle (typestate of the handlers).

C16.inv    finite automaton extracted from the network layer's callbacks (abstract interpretation of each handler over
           state x connected) explored exhaustively against an environment contract for the dispatcher
C16.auth   connected -> one auth broadcast; success -> authed + entity; failure -> entity + disconnect; stream error -> entity
C16.iface  stream error: entity up and disconnect on every path; reconnect flag iff option on and not a conflict;
           cleared on connected; disconnected with the flag -> connect
C16.reset  noise protocol reset and axolotl manager dropped on disconnected; dispatchers report disconnect
C16.ping   ping bookkeeping by abstract execution of waitPong / gotPong histories; thread start / stop; wait before send
"""
import ast
import itertools

from ..absint import Interp, Obj, Node, _Raise, C_NONE, show, flat_effects, enumerate_cells, clone_value, Budget, NeedAtom, DomainGrew
from ..cfg import CFG
from ..consts import Evaluator, alts
from ..layers import LayerRunner, symbolic_node
from ..report import where
from ..repo import unparse, is_self_attr

NET = "yowsup/layers/network/layer.py"
AUTH = "yowsup/layers/auth/layer_authentication.py"
IFACE = "yowsup/layers/interface/interface.py"
IQL = "yowsup/layers/protocol_iq/layer.py"
NOISE = "yowsup/layers/noise/layer.py"
AXB = "yowsup/layers/axolotl/layer_base.py"


def event_name(v):
    """name constant of a YowLayerEvent object value"""
    if v[0] == "obj":
        n = v[1].fields.get("name")
        if n and n[0] == "c":
            return n[1]
    return None


def event_arg(v, key):
    if v[0] == "obj":
        a = v[1].fields.get("args")
        if a and a[0] == "dict":
            return a[1].get(key)
    return None


class NetModel:
    def __init__(self, ctx):
        self.repo = ctx.repo
        self.cls = ctx.repo.cls(NET, "YowNetworkLayer")
        self.runner = LayerRunner(ctx.repo)
        ev = Evaluator(ctx.repo, self.cls.module, self.cls)
        self.S = {}
        for n in ("STATE_DISCONNECTED", "STATE_CONNECTING", "STATE_CONNECTED", "STATE_DISCONNECTING"):
            a = alts(ev.class_const(self.cls, n))
            self.S[n] = a[0] if a else None
        self.E = {}
        for n in ("EVENT_STATE_CONNECTED", "EVENT_STATE_DISCONNECTED", "EVENT_STATE_CONNECT", "EVENT_STATE_DISCONNECT"):
            a = alts(ev.class_const(self.cls, n))
            self.E[n] = a[0] if a else None

    def step(self, handler, state, connected, args=(), sync=False):
        """run one handler from (state, connected): -> (state', connected', effects, raised).
        sync: the dispatcher reports the close from inside disconnect() (the asyncore dispatcher always does, the socket
        dispatcher does when shutdown fails) - the layer's onDisconnected runs re-entrantly at that point."""
        it = Interp(self.repo, {}, {}, hooks=self.runner.hooks())
        it.layer_base = self.runner.base
        it.pure_depth = 0
        layer = self.runner.make_layer(it, self.cls)
        layer[1].fields["state"] = ("c", state)
        layer[1].fields["connected"] = ("c", connected)
        layer[1].fields["_dispatcher"] = ("ext", "dispatcher", [])
        it.hooks["method:__create_dispatcher"] = lambda *a: ("ext", "dispatcher", [])     # the dispatcher is the environment
        it.effects[:] = []
        raised = None
        if sync:
            def reenter(itp, recv, a, k, env, depth, e):
                itp.method_call(layer, "onDisconnected", [], {}, {"@module": self.cls.module, "@owner": self.cls}, depth + 1, None)
                return C_NONE
            it.hooks["ext:dispatcher.disconnect"] = reenter
        try:
            it.method_call(layer, handler, list(args), {}, {"@module": self.cls.module, "@owner": self.cls}, 0, None)
        except _Raise as r:
            raised = r.text
        except Exception as e:   # NeedAtom: the handler depends on something that is not (state, connected)
            raised = "undecided: %s" % e
        st = layer[1].fields.get("state")
        co = layer[1].fields.get("connected")
        effs = []
        for e in flat_effects(it.effects):
            if e[0] == "EMIT":
                effs.append(("EMIT", event_name(e[1])))
            elif e[0] == "CALL" and e[1].startswith("dispatcher."):
                effs.append(("DISP", e[1].split(".", 1)[1]))
        return (st[1] if st and st[0] == "c" else None, co[1] if co and co[0] == "c" else None, effs, raised)


def rule_inv(ctx):
    m = NetModel(ctx)
    w = where(NET, "YowNetworkLayer", None)
    S, E = m.S, m.E
    if None in S.values() or None in E.values() or len(set(S.values())) != 4:
        ctx.undecided("C16.inv", w, "state / event constants", "the four state constants or the event names are not distinct constants")
        return
    DISC, CONNECTING, CONNECTED, DISCONNECTING = S["STATE_DISCONNECTED"], S["STATE_CONNECTING"], S["STATE_CONNECTED"], S["STATE_DISCONNECTING"]
    mk_event = lambda: ("obj", _event_obj(ctx.repo))
    handlers = {"onConnected": (), "onDisconnected": (), "onConnectionError": (("c", "err"),), "onConnectLayerEvent": "ev", "onDisconnectLayerEvent": "ev", "send": (("c", b"x"),)}
    # the other way to ask for a connection: the layer interface's connect() (used by the application layer's connect / its
    # reconnect after a stream error, and by the encryption control layer after a key upload) calls a method of the layer
    iface_connect = None
    ic = ctx.repo.cls("yowsup/layers/network/layer_interface.py", "YowNetworkLayerInterface", required=False)
    if ic is not None and "connect" in ic.methods:
        for n in ast.walk(ic.methods["connect"]):
            if isinstance(n, ast.Call) and isinstance(n.func, ast.Attribute) and isinstance(n.func.value, ast.Attribute) and n.func.value.attr == "_layer" and not n.args:
                iface_connect = n.func.attr
    if iface_connect is not None and iface_connect not in handlers and ctx.repo.find_method(m.cls, iface_connect)[1] is not None:
        handlers[iface_connect] = ()
    else:
        iface_connect = None
    # transformers for every (state, connected)
    T, TS = {}, {}
    for h, args in handlers.items():
        for st in S.values():
            for co in (False, True):
                a = (mk_event(),) if args == "ev" else args
                T[(h, st, co)] = m.step(h, st, co, a)
                if ("DISP", "disconnect") in T[(h, st, co)][2]:
                    a = (mk_event(),) if args == "ev" else args
                    TS[(h, st, co)] = m.step(h, st, co, a, sync=True)
    ctx.units["C16.transformers"] = len(T) + len(TS)
    bad_raise = [(k, v[3]) for k, v in list(T.items()) + list(TS.items()) if v[3] and v[3].startswith("undecided")]
    if bad_raise:
        ctx.undecided("C16.inv", w, "handler %s" % bad_raise[0][0][0], "handler depends on more than (state, connected): %s" % bad_raise[0][1])
        return
    # structural facts on the transformers
    for (h, st, co), (st2, co2, effs, raised) in sorted(T.items(), key=str):
        if h == "send":
            wrote = ("DISP", "sendData") in effs
            ctx.check("C16.inv", wrote == bool(co), where(NET, "YowNetworkLayer.send", None), "send with state=%s connected=%s" % (st, co),
                      "data is %s although connected is %s" % ("written" if wrote else "dropped", co), "written iff connected")
    # exhaustive exploration: product with the environment's socket state and the announced flag
    # announced: "down" (no connection, or the last one was announced as down), "never" (a connection was requested but
    # not announced yet), "up"
    init = (DISC, False, "none", "down")
    seen = {init: None}
    todo = [init]
    viol = []
    ntrans = 0

    def env_events(sock, st):
        ev = ["onConnectLayerEvent"]      # a connect request may come at any time (another thread, an impatient application)
        if iface_connect is not None:
            ev.append(iface_connect)      # ... also through the layer interface
        if sock == "connecting":
            ev += ["onConnected", "onConnectionError", "onDisconnectLayerEvent"]
        if sock == "up":
            ev += ["onDisconnected", "onConnectionError", "onDisconnectLayerEvent", "send"]
        if sock == "closing":
            ev += ["onDisconnected", "send"]
        if sock == "none":
            ev += ["send", "onDisconnected"]     # dispatchers may report a close twice (error + close); the state guard absorbs it
        return ev
    while todo:
        s = todo.pop()
        st, co, sock, ann = s
        for h in env_events(sock, st):
            modes = [("", T[(h, st, co)])]
            if (h, st, co) in TS and sock in ("up", "connecting", "closing"):
                modes.append((" [dispatcher reports the close from inside disconnect()]", TS[(h, st, co)]))
            for mode, (st2, co2, effs, raised) in modes:
                hl = h + mode
                if raised:
                    viol.append((s, hl, "handler raises: %s" % raised))
                    continue
                sock2 = sock
                gone = h in ("onDisconnected", "onConnectionError")
                if h == "onConnected":
                    sock2 = "up"
                elif gone:
                    sock2 = "none"
                ann2 = ann
                for e in effs:
                    if e == ("DISP", "connect"):
                        if sock2 != "none":
                            viol.append((s, hl, "a second connection is opened while one exists"))
                        sock2 = "connecting"
                        if ann2 == "up":
                            viol.append((s, hl, "a new connection is opened although the previous one was never announced as down"))
                        ann2 = "never"
                    elif e == ("DISP", "disconnect"):
                        if mode:
                            sock2 = "none"
                            gone = True
                        elif sock2 in ("up", "connecting"):
                            sock2 = "closing"
                    elif e == ("DISP", "sendData"):
                        if ann2 != "up":
                            viol.append((s, hl, "data is written to a connection that was not announced as up (or already announced as down)"))
                    elif e == ("EMIT", E["EVENT_STATE_CONNECTED"]):
                        if ann2 == "up":
                            viol.append((s, hl, "CONNECTED announced twice without a DISCONNECTED in between"))
                        ann2 = "up"
                    elif e == ("EMIT", E["EVENT_STATE_DISCONNECTED"]):
                        if ann2 == "down":
                            viol.append((s, hl, "DISCONNECTED is announced a second time for the same connection"))
                        ann2 = "down"
                ntrans += 1
                s2 = (st2, co2, sock2, ann2)
                # invariants of the successor
                if co2 and ann2 != "up":
                    viol.append((s, hl, "connected flag is set although no CONNECTED was announced"))
                if co2 and st2 not in (CONNECTED, DISCONNECTING):
                    viol.append((s, hl, "connected flag set in state %s" % st2))
                if ann2 == "up" and sock2 == "none":
                    viol.append((s, hl, "the connection went away but no DISCONNECTED was announced for a connection announced as up"))
                if sock2 == "none" and st2 != DISC and gone:
                    viol.append((s, hl, "after the connection is gone the layer stays in state %s: a later close report is announced again and a later connect does not start fresh" % st2))
                if s2 not in seen:
                    seen[s2] = (s, hl)
                    todo.append(s2)
    ctx.units["C16.states"] = len(seen)
    ctx.units["C16.transitions"] = ntrans
    if viol:
        shown = set()
        for (s, h, what) in viol:
            if what in shown:
                continue
            shown.add(what)
            # path to s
            path = []
            x = s
            while seen.get(x):
                p, hh = seen[x]
                path.append(hh)
                x = p
            ctx.violate("C16.inv", where(NET, "YowNetworkLayer." + h, None), "automaton: %s in (state=%s, connected=%s, socket=%s, announced=%s)" % (h, s[0], s[1], s[2], s[3]),
                        "%s; history: %s" % (what, " -> ".join(reversed(path)) + " -> " + h))
    else:
        ctx.hold("C16.inv", w, "exhaustive exploration of the extracted automaton", "%d states, %d transitions: flag implies announced-up, each up gets exactly one down, nothing written while down, reconnect starts from DISCONNECTED" % (len(seen), ntrans))
    # a connect request in the disconnected state opens a connection
    st2, co2, effs, raised = T[("onConnectLayerEvent", DISC, False)]
    ctx.check("C16.inv", ("DISP", "connect") in effs and st2 == CONNECTING, where(NET, "YowNetworkLayer.onConnectLayerEvent", None), "connect request when disconnected",
              "a connect request in the disconnected state must open a connection and enter CONNECTING (effects %s, state %s)" % (effs, st2), "opens a connection, state CONNECTING")
    st2, co2, effs, raised = T[("onConnected", CONNECTING, False)]
    ctx.check("C16.inv", effs.count(("EMIT", E["EVENT_STATE_CONNECTED"])) == 1, where(NET, "YowNetworkLayer.onConnected", None), "connected callback", "CONNECTED must be announced exactly once per connect", "announced once")
    # both dispatchers report every way a connection (or an attempt) ends: decided by executing them against a scripted
    # socket library - the automaton above takes "one end report per connection" as given
    rule_dispatchers(ctx)


def dispatcher_histories(repo):
    """the two connection dispatchers, abstractly executed through the histories the socket library can drive them
    through -> [(dispatcher class, history label, callbacks reported in order)] or None when an execution cannot be followed"""
    from ..absint import NeedAtom, Budget, DomainGrew, C_NONE
    out = []
    rel, cn = "yowsup/layers/network/dispatcher/dispatcher_asyncore.py", "AsyncoreConnectionDispatcher"
    c = repo.cls(rel, cn)

    cbcls = repo.cls("yowsup/layers/network/dispatcher/dispatcher.py", "ConnectionCallbacks")

    def harness(extra=None):
        """interpreter + a dispatcher of class `c` built by its own constructor around a ConnectionCallbacks object whose
        methods (the interface the class declares) are recorded"""
        log = []

        def rec(name):
            def h(itp, recv, a, k, env, d, e):
                if recv[0] == "obj" and recv[1].cls is cbcls:
                    log.append(name)
                    return C_NONE
                return None
            return h
        hooks = {"method:" + n: rec(n) for n in cbcls.methods}
        hooks.update(extra or {})
        it = Interp(repo, {}, {}, hooks=hooks)
        return it, ("obj", Obj(cbcls)), log
    HOST = ("list", [("c", "e1.whatsapp.net"), ("c", 443)])
    for label, steps in (("connect, connected, closed by the peer", ["connect", "handle_connect", "handle_close"]),
                         ("connect, the attempt fails (socket error before the connection is up)", ["connect", "handle_error"]),
                         ("connect, the attempt is closed before the connection is up", ["connect", "handle_close"]),
                         ("connect, connected, socket error", ["connect", "handle_connect", "handle_error"]),
                         ("connect, connected, disconnect requested", ["connect", "handle_connect", "disconnect"]),
                         ("connect, disconnect requested while still connecting", ["connect", "disconnect"]),
                         ("connect fails at once (the socket library raises from connect() itself: unresolvable host)", ["connect!"])):
        fired = []

        def lib_connect(itp, label, a, k, env, d, e, fired=fired):
            # asyncore.dispatcher_with_send.connect(self, host) raising socket.gaierror (an OSError, alias socket.error)
            if label.strip(".()").split(".")[-1] == "connect" and e is not None and "dispatcher" in unparse(e.func):
                fired.append(1)
                raise _Raise(("ext", "socket.error", []), "gaierror: name resolution failed")
            return None
        it, cbs, log = harness({"extcall": lib_connect} if steps == ["connect!"] else None)
        steps = [m.rstrip("!") for m in steps]
        try:
            o = it.construct(c, [cbs], {}, {"@module": c.module, "@owner": None}, 0, None)
            o[1].fields.setdefault("out_buffer", ("c", b""))          # asyncore's own attribute
            for m in steps:
                if repo.find_method(c, m)[1] is None:
                    continue        # not overridden: the library's own default (does nothing that reports)
                try:
                    it.method_call(o, m, [HOST] if m == "connect" else [], {}, {"@module": c.module, "@owner": c}, 0, None)
                except _Raise:
                    pass
        except (NeedAtom, Budget, DomainGrew, _Raise):
            return None
        if "connect!" in label or "fails at once" in label:
            if not fired:
                return None         # the library's connect was not reached the way this scenario scripts it: not decided
        out.append((c, label, list(log)))
    rel, cn = "yowsup/layers/network/dispatcher/dispatcher_socket.py", "SocketConnectionDispatcher"
    c = repo.cls(rel, cn)
    for label, script in (("connect refused", {"connect": "raise", "recv": []}),
                          ("connected, closed by the peer at once", {"connect": "ok", "recv": [b""]}),
                          ("connected, data, closed by the peer", {"connect": "ok", "recv": [b"abc", b""]}),
                          ("connected, data, socket error while reading", {"connect": "ok", "recv": [b"abc", "raise"]})):
        pending = list(script["recv"])

        def sock_connect(itp, recv, a, k, env, d, e, script=script):
            if script["connect"] == "raise":
                raise _Raise(("ext", "OSError", []), "OSError: connection refused")
            return C_NONE

        def sock_recv(itp, recv, a, k, env, d, e, pending=pending):
            if not pending:
                return ("c", b"")
            x = pending.pop(0)
            if x == "raise":
                raise _Raise(("ext", "OSError", []), "OSError: connection reset")
            return ("c", x)
        it, cbs, log = harness({"anymethod:connect": sock_connect, "anymethod:recv": sock_recv, "ext:*.connect": sock_connect, "ext:*.recv": sock_recv})
        it.loop_unroll = 8          # the read loop is driven by the scripted socket until it ends the connection
        try:
            o = it.construct(c, [cbs], {}, {"@module": c.module, "@owner": None}, 0, None)
            try:
                it.method_call(o, "connect", [HOST], {}, {"@module": c.module, "@owner": c}, 0, None)
            except _Raise:
                pass
        except (NeedAtom, Budget, DomainGrew, _Raise):
            return None
        out.append((c, label, list(log)))
    return out


def rule_dispatchers(ctx):
    hs = dispatcher_histories(ctx.repo)
    if hs is None:
        ctx.undecided("C16.inv", where("yowsup/layers/network/dispatcher/dispatcher.py", "YowConnectionDispatcher", None), "dispatcher histories", "a dispatcher could not be executed")
        return
    END = ("onDisconnected", "onConnectionError")
    for c, label, rep in hs:
        ends = [r for r in rep if r in END]
        ups = [r for r in rep if r == "onConnected"]
        want_up = 1 if "connected" in label.split(", ") else 0
        bad = []
        if len(ends) != 1:
            bad.append("the end of the connection is reported %d time(s) (%s): the layer %s" % (len(ends), rep, "stays in its connecting / connected state and refuses every later connect" if not ends else "announces the disconnect twice"))
        elif rep[-1] not in END:
            bad.append("something is reported after the end of the connection: %s" % rep)
        if len(ups) != want_up:
            bad.append("the connection is reported up %d time(s), expected %d (%s)" % (len(ups), want_up, rep))
        ctx.check("C16.inv", not bad, where(c.relpath, c.name, None), "%s: %s" % (c.name, label), "; ".join(bad), "reported: %s" % ", ".join(rep))


def _event_obj(repo):
    c = repo.cls("yowsup/layers/__init__.py", "YowLayerEvent")
    o = Obj(c)
    o.fields.update({"name": ("c", "ev"), "detached": ("c", False), "args": ("dict", {})})
    return o


def run_handler(repo, rel, cn, method, args, fields=None, props=None, cell=None, domains=None, extra_hooks=None):
    runner = LayerRunner(repo, props or {})
    cls = repo.cls(rel, cn)
    hooks = runner.hooks()
    hooks.update(extra_hooks or {})
    it = Interp(repo, cell if cell is not None else {}, domains if domains is not None else {}, hooks=hooks)
    it.layer_base = runner.base
    layer = runner.make_layer(it, cls)
    for k, v in (fields or {}).items():
        layer[1].fields[k] = v
    it.effects[:] = []
    raised = None
    try:
        it.method_call(layer, method, list(args(it) if callable(args) else args), {}, {"@module": cls.module, "@owner": cls}, 0, None)
    except _Raise as r:
        raised = r.text
    return {"effects": list(flat_effects(it.effects)), "layer": layer, "raised": raised}, it


def rule_auth(ctx):
    repo = ctx.repo
    cls = repo.cls(AUTH, "YowAuthenticationProtocolLayer")
    ev = Evaluator(repo, cls.module, cls)
    EV_AUTH = alts(ev.class_const(cls, "EVENT_AUTH"))[0]
    EV_AUTHED = alts(ev.class_const(cls, "EVENT_AUTHED"))[0]
    net = repo.cls(NET, "YowNetworkLayer")
    EV_DISC = alts(Evaluator(repo, net.module, net).class_const(net, "EVENT_STATE_DISCONNECT"))[0]
    w = lambda m: where(AUTH, "YowAuthenticationProtocolLayer." + m, None)
    r, it = run_handler(repo, AUTH, "YowAuthenticationProtocolLayer", "on_connected", [("obj", _event_obj(repo))])
    b = [e for e in r["effects"] if e[0] == "BCAST"]
    ok = len(b) == 1 and event_name(b[0][1]) == EV_AUTH and event_arg(b[0][1], "passive") is not None and not [e for e in r["effects"] if e[0] in ("UP", "DOWN")]
    ctx.check("C16.auth", ok, w("on_connected"), "connected -> auth broadcast", "a connect must trigger exactly one auth broadcast carrying the passive flag (effects: %s)" % [(e[0], event_name(e[1])) for e in r["effects"]], "one auth broadcast with the passive flag")

    def handler(name, tag):
        return enumerate_cells(lambda cell, d: run_handler(repo, AUTH, "YowAuthenticationProtocolLayer", name, lambda itp: [symbolic_node(tag)], cell=cell, domains=d), {}, max_cells=200)
    for cell, r in handler("handleSuccess", "success"):
        b = [event_name(e[1]) for e in r["effects"] if e[0] == "BCAST"]
        ups = [e for e in r["effects"] if e[0] == "UP"]
        ctx.check("C16.auth", b == [EV_AUTHED] and len(ups) == 1 and ups[0][1][0] == "obj", w("handleSuccess"), "success -> authed + entity",
                  "a success reply must announce the authenticated state once and deliver one entity (broadcasts %s, %d deliveries)" % (b, len(ups)), "authed once, entity up once")
    for cell, r in handler("handleFailure", "failure"):
        b = [event_name(e[1]) for e in r["effects"] if e[0] == "BCAST"]
        ups = [e for e in r["effects"] if e[0] == "UP"]
        ctx.check("C16.auth", b == [EV_DISC] and len(ups) == 1, w("handleFailure"), "failure -> entity + disconnect",
                  "a login failure must be delivered and close the connection (broadcasts %s, %d deliveries)" % (b, len(ups)), "entity up, disconnect requested")
    n = 0
    for cell, r in handler("handleStreamError", "stream:error"):
        ups = [e for e in r["effects"] if e[0] == "UP"]
        if r["raised"]:
            continue
        n += 1
        ctx.check("C16.auth", len(ups) == 1, w("handleStreamError"), "stream error -> entity (%s)" % ", ".join("%s=%s" % (a[2], v) for a, v in cell.items()), "a stream error must be delivered to the application", "entity up")
    if not n:
        ctx.violate("C16.auth", w("handleStreamError"), "stream error", "no stream error kind is delivered")


def rule_iface(ctx):
    repo = ctx.repo
    cls = repo.cls(IFACE, "YowInterfaceLayer")
    se = None
    for c in repo.by_simple.get("StreamErrorProtocolEntity", []):
        se = c
    ev = Evaluator(repo, se.module, se)
    CONFLICT = alts(ev.class_const(se, "TYPE_CONFLICT"))[0]
    net = repo.cls(NET, "YowNetworkLayer")
    EV_DISC = alts(Evaluator(repo, net.module, net).class_const(net, "EVENT_STATE_DISCONNECT"))[0]
    PROP = alts(Evaluator(repo, cls.module, cls).class_const(cls, "PROP_RECONNECT_ON_STREAM_ERR"))[0]
    w = where(IFACE, "YowInterfaceLayer.onStreamError", None)
    for opt in (True, False):
        for kind in (CONFLICT, "ack", "xml-not-well-formed"):
            def mk(itp, kind=kind):
                o = Obj(se)
                o.fields.update({"tag": ("c", "stream:error"), "data": ("dict", {kind: C_NONE})})
                return [("obj", o)]
            r, it = run_handler(repo, IFACE, "YowInterfaceLayer", "onStreamError", mk, fields={"reconnect": ("c", False), "entity_callbacks": ("dict", {})}, props={PROP: opt})
            ups = [e for e in r["effects"] if e[0] == "UP"]
            b = [event_name(e[1]) for e in r["effects"] if e[0] == "BCAST"]
            rec = r["layer"][1].fields.get("reconnect")
            want = opt and kind != CONFLICT
            label = "stream error %s, reconnect option %s" % (kind, "on" if opt else "off")
            ctx.check("C16.iface", len(ups) == 1 and b == [EV_DISC] and not r["raised"], w, label + ": delivered and closed",
                      "a stream error must be delivered once and the connection closed (deliveries %d, broadcasts %s, raised %s)" % (len(ups), b, r["raised"]), "entity up, disconnect requested")
            ctx.check("C16.iface", rec == ("c", want), w, label + ": reconnect flag",
                      "reconnect flag is %s, expected %s (reconnect iff the option is on and the error is not a sign-in conflict)" % (show(rec) if rec else None, want), "flag = %s" % want)
    # default of the option is on
    # by abstract execution with the option never set: getProp answers with the default the caller passes
    def unset_prop(itp, recv, a, k, env, d, e):
        if a and a[0] == ("c", PROP):
            return a[1] if len(a) > 1 else k.get("default", C_NONE)
        return None

    def mk_ack(itp):
        o = Obj(se)
        o.fields.update({"tag": ("c", "stream:error"), "data": ("dict", {"ack": C_NONE})})
        return [("obj", o)]
    r, it = run_handler(repo, IFACE, "YowInterfaceLayer", "onStreamError", mk_ack, fields={"reconnect": ("c", False), "entity_callbacks": ("dict", {})}, extra_hooks={"method:getProp": unset_prop})
    rec = r["layer"][1].fields.get("reconnect")
    ctx.check("C16.iface", rec == ("c", True) and not r["raised"], w, "reconnect option default", "the reconnect option must default to on (option unset: reconnect flag %s)" % (show(rec) if rec else None), "defaults to on")
    # connected clears the flag; disconnected with the flag reconnects once
    r, it = run_handler(repo, IFACE, "YowInterfaceLayer", "onConnected", [("obj", _event_obj(repo))], fields={"reconnect": ("c", True)})
    ctx.check("C16.iface", r["layer"][1].fields.get("reconnect") == ("c", False), where(IFACE, "YowInterfaceLayer.onConnected", None), "connected clears the flag", "the reconnect flag must be cleared when a connection is established", "cleared")
    for flag in (True, False):
        r, it = run_handler(repo, IFACE, "YowInterfaceLayer", "onDisconnected", [("obj", _event_obj(repo))], fields={"reconnect": ("c", flag)})
        conns = [e for e in r["effects"] if e[0] == "CALL" and e[1].endswith(".connect")]
        okc = (len(conns) == 1) == flag and r["layer"][1].fields.get("reconnect") == ("c", False)
        ctx.check("C16.iface", okc, where(IFACE, "YowInterfaceLayer.onDisconnected", None), "disconnected with flag %s" % flag,
                  "on disconnect the layer must reconnect exactly when the flag is set, and clear it (connect calls %d, flag %s)" % (len(conns), show(r["layer"][1].fields.get("reconnect"))), "reconnects iff flagged; flag cleared")


    # the network interface's connect() blocks for the whole life of the new connection (both dispatchers loop inside
    # it) and `disconnected` events are delivered detached: by the time connect() returns, the new connection may have
    # ended with another stream error that set the flag again.  Environment reaction at the connect call: set the flag.
    # The flag must survive the rest of the handler, i.e. it has to be cleared BEFORE connecting.
    holder = {}

    def env_connect(itp, recv, a, k, env, depth, e):
        holder["layer"][1].fields["reconnect"] = ("c", True)
        return C_NONE
    runner = LayerRunner(repo, {})
    hooks = runner.hooks()
    hooks["ext:layerInterface.connect"] = env_connect
    it = Interp(repo, {}, {}, hooks=hooks)
    it.layer_base = runner.base
    icls = repo.cls(IFACE, "YowInterfaceLayer")
    layer = runner.make_layer(it, icls)
    holder["layer"] = layer
    layer[1].fields["reconnect"] = ("c", True)
    raised = None
    try:
        it.method_call(layer, "onDisconnected", [("obj", _event_obj(repo))], {}, {"@module": icls.module, "@owner": icls}, 0, None)
    except _Raise as r_:
        raised = r_.text
    ctx.check("C16.iface", raised is None and layer[1].fields.get("reconnect") == ("c", True), where(IFACE, "YowInterfaceLayer.onDisconnected", None),
              "second stream error during the automatic reconnect",
              "the reconnect flag set by a stream error on the re-established connection (while connect() is still running) is wiped when connect() returns: the second automatic reconnect never happens - clear the flag before connecting",
              "flag cleared before connecting: a stream error on the new connection is not lost")


def rule_reset(ctx):
    """what the layers do with their per-connection state when the connection events arrive, decided by delivering the
    events through each layer's own onEvent (the handler table is the one the library's constructor builds): the noise
    layer resets its protocol object on `disconnected`; the encryption layers' manager is gone after `disconnected` and
    is (re)loaded from the profile on `connected`; the network layer announces the end of a connection detached"""
    repo = ctx.repo
    net = repo.cls(NET, "YowNetworkLayer")
    nev = Evaluator(repo, net.module, net)
    EV_DISCONNECTED = alts(nev.class_const(net, "EVENT_STATE_DISCONNECTED"))[0]
    EV_CONNECTED = alts(nev.class_const(net, "EVENT_STATE_CONNECTED"))[0]

    def deliver(cls, evname, layer_it=None):
        if layer_it is None:
            runner = LayerRunner(repo, {})
            it = Interp(repo, {}, {}, hooks=runner.hooks())
            it.layer_base = runner.base
            layer = runner.make_layer(it, cls)
        else:
            layer, it = layer_it
        ev = _event_obj(repo)
        ev.fields["name"] = ("c", evname)
        it.effects[:] = []
        raised = None
        try:
            it.method_call(layer, "onEvent", [("obj", ev)], {}, {"@module": cls.module, "@owner": cls}, 0, None)
        except _Raise as r:
            raised = r.text
        return layer, it, raised
    # noise layer
    nl = repo.cls(NOISE, "YowNoiseLayer")
    wn = where(NOISE, "YowNoiseLayer", None)
    try:
        layer, it, raised = deliver(nl, EV_DISCONNECTED)
        resets = [e for e in flat_effects(it.effects) if e[0] == "CALL" and e[1].split(".")[-1] == "reset" and "NoiseProtocol" in e[1]]
        ctx.check("C16.reset", raised is None and len(resets) == 1, wn, "noise protocol reset on disconnected",
                  "the noise layer must reset its protocol state on the disconnected event (%s)" % ("raises %s" % raised[:50] if raised else "%d reset call(s) on the protocol object" % len(resets)), "reset on disconnected")
    except (NeedAtom, Budget, DomainGrew) as x:
        ctx.undecided("C16.reset", wn, "noise protocol reset on disconnected", "the event's delivery could not be executed: %s" % (x,))
    # encryption layers: the manager (read through the public `manager` property)
    ax = repo.cls(AXB, "AxolotlBaseLayer")
    wa = where(AXB, "AxolotlBaseLayer", None)
    try:
        layer, it, raised = deliver(ax, EV_CONNECTED)
        m1 = it.force(it.get_attr(layer, "manager", {"@module": ax.module, "@owner": None}, 0))
        loaded = raised is None and m1 != C_NONE and m1[0] not in ("unset",) and "profile" in show(m1)
        ctx.check("C16.reset", loaded, wa, "manager set on connected", "the manager must be (re)loaded from the profile on connect (after the connected event it is %s)" % show(m1)[:50], "manager loaded on connected")
        layer, it, raised2 = deliver(ax, EV_DISCONNECTED, (layer, it))
        m2 = it.force(it.get_attr(layer, "manager", {"@module": ax.module, "@owner": None}, 0))
        ctx.check("C16.reset", raised2 is None and m2 == C_NONE, wa, "axolotl manager dropped on disconnected",
                  "the encryption layers must drop their manager on the disconnected event - it is re-created on connect (after the event it is %s)" % show(m2)[:50], "manager dropped")
    except (NeedAtom, Budget, DomainGrew) as x:
        ctx.undecided("C16.reset", wa, "manager across connections", "the events' delivery could not be executed: %s" % (x,))
    # the disconnected event is detached (delivered from the stack loop, not from inside the dispatcher callback)
    from .c12_order import emitted_events
    ex = emitted_events(repo, net, "onDisconnected")
    wd = where(NET, "YowNetworkLayer.onDisconnected", None)
    if ex is None:
        ctx.undecided("C16.reset", wd, "disconnected event is detached", "the callback could not be executed")
    else:
        evs = [(n_, d_) for (n_, d_, _st) in ex if n_ == EV_DISCONNECTED]
        ctx.check("C16.reset", bool(evs) and all(d_ for _n, d_ in evs), wd, "disconnected event is detached",
                  "the disconnected event must be deferred (detached): %s" % ("it is never announced" if not evs else "announced not detached"), "detached")


def rule_reset_buffers(ctx):
    """"transport state is reset so that a later connect starts fresh": the stack - and with it every layer object - is
    reused across connections.  For every core transport layer: a layer built by its constructor receives the beginning
    of a frame (segmentation on); whatever containers the constructor left empty and this receive filled are the
    layer's per-connection read state; after the layer's handler of the disconnected event they must be empty again (a
    layer without such a handler keeps the rest of a cut-off frame and glues it in front of the next connection's
    stream)."""
    from ..stackmodel import default_layers, flatten, FLAGS
    repo = ctx.repo
    net = repo.cls(NET, "YowNetworkLayer")
    EV_DISCONNECTED = alts(Evaluator(repo, net.module, net).class_const(net, "EVENT_STATE_DISCONNECTED"))[0]
    v, _se = default_layers(repo, dict.fromkeys(FLAGS, True))
    layers = flatten(v)
    if layers is None:
        ctx.undecided("C16.reset", where("yowsup/stacks/yowstack.py", "YowStackBuilder.getDefaultLayers", None), "default stack", "not evaluated")
        return
    core = [L for L in layers[:5] if not isinstance(L, list)]

    def is_empty_container(x):
        return (x[0] == "c" and isinstance(x[1], (bytearray, bytes, list, dict)) and len(x[1]) == 0) or (x[0] in ("list", "dict") and not x[1] and not (len(x) > 2 and x[2]))

    def content(x):
        if x[0] == "c" and isinstance(x[1], (bytearray, bytes)):
            return bytes(x[1])
        if x[0] in ("list", "dict"):
            return len(x[1])
        return repr(x)[:40]
    n = 0
    for L in core:
        if L is net or "receive" not in {m for k in repo.mro(L) for m in k.methods if k.name != "YowLayer"}:
            continue
        props = {}
        for k in repo.mro(L):
            for cname, ce in k.consts.items():
                if cname.startswith("PROP_"):
                    a = alts(Evaluator(repo, k.module, k).ev(ce))
                    if a and len(a) == 1:
                        props[a[0]] = True
        runner = LayerRunner(repo, props)
        it = Interp(repo, {}, {}, hooks=runner.hooks())
        it.layer_base = runner.base
        try:
            layer = runner.make_layer(it, L)
            state0 = {f: x for f, x in layer[1].fields.items() if isinstance(x, tuple) and is_empty_container(x)}
            if not state0:
                continue
        except Exception:
            continue
        try:
            it.method_call(layer, "receive", [("c", bytearray(b"\x00\x00\x05ab"))], {}, {"@module": L.module, "@owner": L}, 0, None)
        except Exception:
            pass                # a receive that cannot be followed to its end on raw bytes: what it stored so far is looked at
        dirty = {f for f in state0 if f in layer[1].fields and not is_empty_container(layer[1].fields[f])}
        if not dirty:
            continue
        n += 1
        w = where(L.relpath, L.name, None)
        # the handler is whatever the layer's own constructor registered for the event (decorators applied by the
        # interpreter); the event is delivered through onEvent
        ec = layer[1].fields.get("event_callbacks")
        handlers = [v_[2] for k_, v_ in (ec[1].items() if ec is not None and ec[0] == "dict" else []) if k_ == EV_DISCONNECTED and v_[0] == "bound"]
        left = None
        if handlers:
            ev = _event_obj(repo)
            ev.fields["name"] = ("c", EV_DISCONNECTED)
            try:
                it.method_call(layer, "onEvent", [("obj", ev)], {}, {"@module": L.module, "@owner": L}, 0, None)
            except _Raise as r:
                left = "the handler raises %s" % r.text[:50]
            if left is None:
                still = sorted(f for f in dirty if not is_empty_container(layer[1].fields.get(f, ("c", None))))
                if still:
                    left = "%s still hold%s %r after %s" % (", ".join("self." + f for f in still), "s" if len(still) == 1 else "", content(layer[1].fields[still[0]]), "/".join(handlers))
        else:
            left = "the layer has no handler for the disconnected event: %s keep%s what the dead connection left (%r)" % (", ".join("self." + f for f in sorted(dirty)), "s" if len(dirty) == 1 else "", content(layer[1].fields[sorted(dirty)[0]]))
        ctx.check("C16.reset", left is None, w, "read buffers of %s are empty again after the disconnected event" % L.name,
                  "%s - the rest of a frame that the connection cut off is glued in front of the next connection's stream (the layer object is reused across connections)" % left,
                  "%s reset by %s" % (", ".join(sorted(dirty)), "/".join(handlers)))
    ctx.units["C16.layers_with_read_buffers"] = n


def rule_ping(ctx, tier):
    repo = ctx.repo
    cls = repo.cls(IQL, "YowIqProtocolLayer")
    runner = LayerRunner(repo)
    net = repo.cls(NET, "YowNetworkLayer")
    EV_DISC = alts(Evaluator(repo, net.module, net).class_const(net, "EVENT_STATE_DISCONNECT"))[0]
    w = where(IQL, "YowIqProtocolLayer", None)
    ids = ("p1", "p2", "p3")
    ops = [("wait", i) for i in ids] + [("pong", i) for i in ids + ("zz",)]
    maxlen = 5 if tier == "thorough" else 4
    bad = []
    n = 0
    for L in range(1, maxlen + 1):
        for hist in itertools.product(ops, repeat=L):
            waits = [h[1] for h in hist if h[0] == "wait"]
            if len(waits) != len(set(waits)):
                continue
            n += 1
            it = Interp(repo, {}, {}, hooks=runner.hooks())
            it.layer_base = runner.base
            layer = runner.make_layer(it, cls)
            it.hooks["method:getStack"] = lambda itp, recv, args, kwargs, env, depth, e: recv   # stack.broadcastEvent -> recorded on the layer
            outstanding = set()
            for (op, i) in hist:
                it.effects[:] = []
                try:
                    if op == "wait":
                        it.method_call(layer, "waitPong", [("c", i)], {}, {"@module": cls.module, "@owner": cls}, 0, None)
                        outstanding.add(i)
                        want = len(outstanding) >= 2
                    else:
                        it.method_call(layer, "gotPong", [("c", i)], {}, {"@module": cls.module, "@owner": cls}, 0, None)
                        if i in outstanding:
                            outstanding = set()
                        want = False
                except _Raise as r:
                    bad.append((hist, "raises %s" % r.text))
                    break
                got = [event_name(e[1]) for e in flat_effects(it.effects) if e[0] == "BCAST"]
                if (got == [EV_DISC]) != want or len(got) > 1:
                    bad.append((hist, "after %s(%s): disconnect requested=%s, expected %s (outstanding pings: %d)" % (op, i, got == [EV_DISC], want, len(outstanding))))
                    break
                q = layer[1].fields.get("_pingQueue")
                size = len(q[1]) if q and q[0] == "dict" else None
                if size != len(outstanding):
                    bad.append((hist, "after %s(%s) %s pings are recorded as outstanding, expected %d" % (op, i, size, len(outstanding))))
                    break
            if len(bad) > 3:
                break
        if len(bad) > 3:
            break
    ctx.units["C16.ping_histories"] = n
    if bad:
        ctx.violate("C16.ping", w, "waitPong / gotPong histories (length <= %d)" % maxlen, "%s in history %s" % (bad[0][1], list(bad[0][0])))
    else:
        ctx.hold("C16.ping", w, "waitPong / gotPong histories (length <= %d)" % maxlen, "%d histories: disconnect exactly when a second ping is outstanding; a pong clears only when its id is outstanding" % n)
    # thread: started on authed when interval > 0 and none running - by abstract execution of onAuthed from a state whose
    # bookkeeping still holds an entry of the previous connection (a ping registered while the old thread was dying)
    fn = repo.method(IQL, "YowIqProtocolLayer", "onAuthed")
    wa = where(IQL, "YowIqProtocolLayer.onAuthed", fn.lineno)
    for label, thread in (("no keep-alive running", C_NONE), ("keep-alive already running", ("ext", "oldthread", []))):
        def run2(cell, domains, thread=thread):
            runner2 = LayerRunner(repo, {})
            hooks = runner2.hooks()
            it = Interp(repo, cell, domains, hooks=hooks)
            it.layer_base = runner2.base
            layer = runner2.make_layer(it, cls)
            layer[1].fields["_pingQueue"] = ("dict", {"stale-ping": C_NONE})
            layer[1].fields["_pingThread"] = thread
            snap = []

            def start_hook2(itp, recv, a, k, env, d, e):
                q = layer[1].fields.get("_pingQueue")
                snap.append((recv, dict(q[1]) if q and q[0] == "dict" else None))
                return C_NONE
            it.hooks["method:start"] = start_hook2
            it.effects[:] = []
            raised = None
            try:
                it.method_call(layer, "onAuthed", [("obj", _event_obj(repo))], {}, {"@module": cls.module, "@owner": cls}, 0, None)
            except _Raise as r_:
                raised = r_.text
            return {"raised": raised, "starts": snap, "layer": layer}, it
        try:
            cells = enumerate_cells(run2, {}, max_cells=50)
        except Budget:
            ctx.undecided("C16.ping", wa, "keep-alive start, " + label, "budget exceeded")
            continue
        bad = []
        for cell, r in cells:
            pos = [v for k_, v in cell.items() if k_[0] == "F" and "Gt 0" in k_[1]]
            positive = bool(pos and pos[0])
            want = thread == C_NONE and positive
            if r["raised"]:
                bad.append("raises %s" % r["raised"][:60])
                continue
            if want:
                if len(r["starts"]) != 1:
                    bad.append("with a positive interval and no thread running, %d threads are started" % len(r["starts"]))
                    continue
                recv, q = r["starts"][0]
                t = r["layer"][1].fields.get("_pingThread")
                if not (recv[0] == "obj" and recv[1].cls is not None and recv[1].cls.name == "YowPingThread" and t is not None and t[0] == "obj" and t[1] is recv[1]):
                    bad.append("the started thread is not the YowPingThread the layer remembers")
                if q is None or len(q) != 0:
                    bad.append("the keep-alive of a new connection starts with ping bookkeeping left over from the previous one (%s): its first ping already counts as the second outstanding one and closes the connection" % sorted(map(str, q or ["?"])))
            elif r["starts"]:
                bad.append("a thread is started although %s" % ("one is running" if thread != C_NONE else "the interval is not positive"))
        ctx.check("C16.ping", not bad, wa, "keep-alive start, " + label, "; ".join(sorted(set(bad))[:2]), "%d cell(s): started iff interval > 0 and none running, with empty bookkeeping" % len(cells))
    EVD = alts(Evaluator(repo, net.module, net).class_const(net, "EVENT_STATE_DISCONNECTED"))[0]
    # decided by delivering each event to a layer whose keep-alive is running, through the layer's own onEvent (the
    # handler table is the one YowLayer.__init__ builds from what the decorators left on the methods)
    stops, notes = set(), []
    for evn in (EV_DISC, EVD):
        try:
            runner = LayerRunner(repo)
            it = Interp(repo, {}, {}, hooks=runner.hooks())
            it.layer_base = runner.base
            layer = runner.make_layer(it, cls)
            thread = ("ext", "pingthread", [])
            layer[1].fields["_pingThread"] = thread
            evo = _event_obj(repo)
            evo.fields["name"] = ("c", evn)
            it.effects[:] = []
            it.method_call(layer, "onEvent", [("obj", evo)], {}, {"@module": cls.module, "@owner": cls}, 0, None)
            stopped = any(e[0] == "CALL" and e[1] == "pingthread.stop" for e in flat_effects(it.effects))
            if stopped:
                stops.add(evn)
            else:
                notes.append("%s: the running keep-alive thread is not stopped" % evn.split(".")[-1])
        except _Raise as x:
            notes.append("%s: raises %s" % (evn.split(".")[-1], (x.text or "")[:50]))
        except (NeedAtom, Budget, DomainGrew) as x:
            ctx.undecided("C16.ping", w, "keep-alive stopped on %s" % evn, "the event's delivery could not be executed: %s" % (x,))
            stops.add(evn)
    ctx.check("C16.ping", {EV_DISC, EVD} <= stops, w, "keep-alive stopped on %s" % sorted(stops), "the ping thread must be stopped on the disconnect request and on the disconnected event (%s): it goes on pinging into the next connection - or a second one is never started because one is still registered" % "; ".join(notes), "stopped on both events")
    # the keep-alive thread's loop, abstractly executed for three rounds (the stop flag is raised by the environment after the
    # third send): every round records a ping as outstanding and then sends THAT ping, and no two rounds use the same id -
    # waitPong keys its bookkeeping by id, so a repeated id never adds up to "two pings unanswered" and a dead connection
    # is never closed
    from ..absint import NeedAtom as _NA, Budget as _BU, DomainGrew as _DG, C_TRUE as _CT, C_FALSE as _CF
    pt = repo.cls(IQL, "YowPingThread")
    run = pt.methods["run"]
    wr = where(IQL, "YowPingThread.run", run.lineno)

    def run_loop(cell, domains):
        state = {"sends": 0, "thread": None}

        def send_iq(itp, recv, a, k, env, d, e):
            state["sends"] += 1
            if state["sends"] >= 3 and state["thread"] is not None:
                for f_ in list(state["thread"].fields):
                    if f_.endswith("_stop"):
                        state["thread"].fields[f_] = _CT
            return C_NONE
        it = Interp(repo, cell, domains, hooks={"ext:layer.sendIq": send_iq})
        it.loop_unroll = 5
        o = Obj(pt)
        state["thread"] = o
        o.fields.update({"_layer": ("ext", "layer", []), "_interval": ("c", 1), "_stop": _CF, "_YowPingThread__logger": ("ext", "logger", []), "name": ("c", "YowPing")})
        raised = None
        try:
            it.call_function(run, pt, ("obj", o), [], {}, depth=0)
        except _Raise as r:
            raised = r.text
        seq = []
        for e in flat_effects(it.effects):
            if e[0] == "CALL" and e[1] in ("layer.waitPong", "layer.sendIq"):
                seq.append((e[1].split(".")[-1], e[2][0] if e[2] else None))
        return {"seq": seq, "raised": raised}, it
    try:
        cells = enumerate_cells(run_loop, {}, max_cells=64)
    except (_BU, _NA, _DG) as x:
        cells = None
        ctx.undecided("C16.ping", wr, "three rounds of the keep-alive loop", "could not be executed: %s" % (x,))
    if cells is not None:
        bad = []
        n_rounds = 0
        for cell, r in cells:
            if r["raised"]:
                bad.append("the loop raises %s" % r["raised"][:60])
                continue
            seq = r["seq"]
            ids = []
            i = 0
            while i < len(seq):
                if seq[i][0] != "waitPong" or i + 1 >= len(seq) or seq[i + 1][0] != "sendIq":
                    bad.append("round %d: a ping is %s" % (len(ids) + 1, "sent without having been recorded as outstanding first (its pong can arrive at once)" if seq[i][0] == "sendIq" else "recorded as outstanding but not sent"))
                    break
                pid, ent = seq[i][1], seq[i + 1][1]
                eid = None
                if ent is not None and ent[0] == "obj":
                    try:
                        eid = Interp(repo, {}, {}).method_call(ent, "getId", [], {}, {"@module": pt.module, "@owner": None}, 0, None)
                    except Exception:
                        eid = None
                if eid is None or eid != pid:
                    bad.append("round %d: the id recorded as outstanding (%s) is not the id of the ping that is sent (%s)" % (len(ids) + 1, show(pid)[:30], show(eid)[:30] if eid else "?"))
                ids.append(pid)
                i += 2
            n_rounds = max(n_rounds, len(ids))
            if len(ids) >= 2 and len({repr(x) for x in ids}) != len(ids):
                bad.append("the same ping id (%s) is used in %d rounds: the bookkeeping is keyed by id, two unanswered pings never add up and a dead connection is never closed" % (show(ids[0])[:30], len(ids)))
        ctx.check("C16.ping", not bad and n_rounds >= 2, wr, "each round: record the ping's id, then send that ping; a fresh id per round",
                  "; ".join(sorted(set(bad))[:2]) or "fewer than two rounds could be followed", "%d round(s): recorded, then sent; ids pairwise different" % n_rounds)
    # the pong callback clears by the ping's id
    op = repo.method(IQL, "YowIqProtocolLayer", "onPong")
    ok = any(isinstance(c, ast.Call) and is_self_attr(c.func, "gotPong") and unparse(c.args[0]).endswith(".getId()") for c in ast.walk(op))
    ctx.check("C16.ping", ok, where(IQL, "YowIqProtocolLayer.onPong", op.lineno), "pong clears by the ping's id", "the pong callback must clear the bookkeeping with the id of the answered ping", "gotPong(ping id)")


def run(ctx):
    ctx.rule("C16.inv", "extracted connection automaton: exhaustive exploration + transformer facts", floor=12)
    ctx.rule("C16.auth", "auth layer reactions", floor=5)
    ctx.rule("C16.iface", "stream error / reconnect handling in the interface layer", floor=15)
    ctx.rule("C16.reset", "transport and session state reset on disconnected", floor=4)
    ctx.rule("C16.ping", "keep-alive bookkeeping", floor=5)
    ctx.assume("environment contract of the dispatcher: after connect() it reports connected or an error; a live connection may close or fail at any time; after disconnect() it reports disconnected; a connect request arrives only while no connection exists; a dispatcher may report the same close twice")
    ctx.assume("timing of the keep-alive and the order of detached deliveries across threads are not decided")
    ctx.guarded("C16.inv", rule_inv, ctx)
    ctx.guarded("C16.auth", rule_auth, ctx)
    ctx.guarded("C16.iface", rule_iface, ctx)
    ctx.guarded("C16.reset", rule_reset, ctx)
    ctx.guarded("C16.reset", rule_reset_buffers, ctx)
    # options switched off must stay off: the property table's semantics (C18.prim), adopted
    from .c18 import rule_prim
    ctx.guarded("C16.iface", rule_prim, ctx, "C16.iface", ("prop",))
    # 'the application is told that the connection went down': no layer's state-event callback swallows the event
    from .c18 import rule_callbacks
    ctx.guarded("C16.iface", rule_callbacks, ctx, "C16.iface")
    # a failed handshake must reach the finish callback so that the failure is delivered and the connection closed (C04.finish), adopted
    from . import c04
    from ..report import Ctx
    scratch = Ctx(ctx.repo, "C04", ctx.tier)
    scratch.rule("C04.finish", "", 0)
    ctx.guarded("C16.auth", c04.rule_finish, scratch)
    ctx.adopt(scratch, {"C04.finish": "C16.auth"})
    ctx.guarded("C16.ping", rule_ping, ctx, ctx.tier)
