"""C03 - end-to-end messaging: confidentiality and handler shape (abstract execution of the encryption layers).

C03.taint      nothing that leaves the encryption send layer downward is a plaintext message stanza: every DOWN is an
               encrypted envelope (no proto child), an iq / receipt, or a non-message stanza passed through
C03.enq        the original is queued before its envelope goes down; the queue is bounded with drop-oldest
C03.dup        duplicate -> exactly one receipt (id / to / participant of the message), no delivery
C03.retry      invalid key id / invalid message -> retry receipt with a per-id counter, reset on success
C03.park       no session -> the stanza is parked, keys are requested, the continuation re-processes it
C03.once       each decrypt handler delivers exactly once, a stanza that carries the decrypted payload in a proto child
C03.skdm       both recvMessageStanza implementations look at the payload before delivering (a payload that only
               carries a sender-key distribution must not surface)
C03.persist    (C13.commit adopted) every key-store write is committed when the store call returns: restarts between messages
C03.state      sent queue, parked stanzas, retry counters are per layer instance (bound by the constructors)
C03.map        the manager maps each library exception to the same-named exception the layer handles; unpads on request
"""
import ast

from ..absint import (Interp, Obj, Node, _Raise, C_NONE, show, flat_effects, enumerate_cells, Budget, NeedAtom, DomainGrew, deps_of, OTHER)
from ..cfg import CFG, fmt_path, walk_no_nested
from ..consts import Evaluator, alts
from ..deps import node_exprs
from ..layers import LayerRunner, symbolic_node
from ..report import where
from ..repo import unparse, is_self_attr
from ..routing import GroupSim, cell_label, ATOM_PAYLOAD, ATOM_SKDM
from .c07 import node_of, tagname, attr, child, A
from .c06 import cell_view

SEND = "yowsup/layers/axolotl/layer_send.py"
RECV = "yowsup/layers/axolotl/layer_receive.py"
MGR = "yowsup/axolotl/manager.py"
EXC = "yowsup/axolotl/exceptions.py"


def mk_layer(repo, rel, cn, cell, domains, extra_hooks=None):
    runner = LayerRunner(repo)
    cls = repo.cls(rel, cn)
    hooks = runner.hooks()
    hooks.update(extra_hooks or {})
    it = Interp(repo, cell, domains, hooks=hooks)
    it.layer_base = runner.base
    layer = runner.make_layer(it, cls)
    layer[1].fields["_manager"] = ("ext", "manager", [])
    it.effects[:] = []
    return it, layer, cls


def classify_down(v, root):
    """-> (kind, detail)"""
    if v[0] != "node":
        return "other", show(v)
    n = v[1]
    if n is root:
        return "same", None
    mb = getattr(n, "made_by", None)
    cname = mb[0].cls.name if mb and mb[0].cls is not None else None
    protos = [c for kind, c in n.children if isinstance(c, Node) and tagname(c) == "proto"]
    return "built", (cname, tagname(n), bool(protos))


def rule_taint(ctx):
    repo = ctx.repo
    w = where(SEND, "AxolotlSendLayer.send", None)

    def keys_hook(itp, recv, args, kwargs, env, depth, e):
        # getKeysFor(jids, resultClbk, errorClbk=None): the server's answer arrives later; both outcomes are explored
        cb = args[1] if len(args) > 1 else kwargs.get("resultClbk")
        ok = itp.ask(("F", "key fetch succeeds for the recipient"))
        jids = args[0]
        if ok:
            itp.apply(cb, [jids, ("dict", {})], {}, env, depth, e)
        else:
            itp.apply(cb, [("list", []), ("dict", {"x@s.whatsapp.net": ("ext", "UntrustedIdentityException", [])})], {}, env, depth, e)
        return C_NONE

    def run(cell, domains):
        it, layer, cls = mk_layer(repo, SEND, "AxolotlSendLayer", cell, domains, {"method:getKeysFor": keys_hook})
        layer[1].fields["skipEncJids"] = ("list", [], True)       # jids the key server did not answer for: unknown content
        node = symbolic_node("message")
        node[1].tag = ("atom", ("A", (), "#tag"))
        it.domains.setdefault(("A", (), "#tag"), ["message"])
        res = {"raised": None, "root": node[1]}
        try:
            it.method_call(layer, "send", [node], {}, {"@module": cls.module, "@owner": cls}, 0, None)
        except _Raise as r:
            res["raised"] = r.text
        res["effects"] = list(flat_effects(it.effects))
        res["layer"] = layer
        return res, it
    try:
        cells = enumerate_cells(run, {}, max_cells=3000)
    except Budget:
        ctx.undecided("C03.taint", w, "send", "budget exceeded")
        return
    ctx.units["C03.send_cells"] = len(cells)
    plain = {}
    leaks = {}
    n_env = 0
    for cell, r in cells:
        view = cell_view(cell)
        is_msg = view.get("#tag") == "message"
        for e in r["effects"]:
            if e[0] != "DOWN":
                continue
            kind, d = classify_down(e[1], r["root"])
            if kind == "same":
                if is_msg:
                    plain.setdefault(e[2]["site"] if len(e) > 2 else "self.toLower(node)", []).append(cell_label(cell))
            elif kind == "built":
                cname, tag, has_proto = d
                if tag == "message":
                    if has_proto or cname != "EncryptedMessageProtocolEntity":
                        leaks.setdefault("message stanza built by %s %s" % (cname, "with a proto child" if has_proto else ""), []).append(cell_label(cell))
                    else:
                        n_env += 1
                        # every enc child carries the result of an encrypt call
                        encs = []
                        for kk, c in e[1][1].children:
                            if isinstance(c, Node) and tagname(c) == "enc":
                                encs.append(c)
                            elif isinstance(c, Node) and tagname(c) == "participants":
                                for k2, c2 in c.children:
                                    if isinstance(c2, Node):
                                        encs += [c3 for k3, c3 in c2.children if isinstance(c3, Node) and tagname(c3) == "enc"]
                        for c in encs:
                            dtxt = show(c.data)
                            if not ("manager.encrypt" in dtxt or "manager.group_encrypt" in dtxt or "encrypt" in dtxt):
                                leaks.setdefault("an enc child carries %s, not the result of an encrypt call" % dtxt[:50], []).append(cell_label(cell))
            else:
                leaks.setdefault("unclassified value goes down: %s" % d[:60], []).append(cell_label(cell))
    if plain:
        for what, labs in plain.items():
            ctx.violate("C03.taint", w, what,
                        "the plaintext message stanza itself is forwarded downward (%d cell(s), e.g. %s): the body leaves the client unencrypted" % (len(labs), labs[0][:120]))
    for what, labs in leaks.items():
        ctx.violate("C03.taint", w, what, "%s (%d cell(s), e.g. %s)" % (what, len(labs), labs[0][:120]))
    if not leaks:
        ctx.hold("C03.taint", w, "envelopes built in %d send cells" % len(cells), "%d envelope(s): no proto child, every enc child is the result of an encrypt call" % n_env)
    # non-message stanzas pass through unchanged exactly once
    bad = []
    for cell, r in cells:
        view = cell_view(cell)
        if view.get("#tag") == "message" or r["raised"]:
            continue
        dn = [e for e in r["effects"] if e[0] == "DOWN"]
        if len(dn) != 1 or classify_down(dn[0][1], r["root"])[0] != "same":
            bad.append(cell_label(cell))
    ctx.check("C03.taint", not bad, w, "non-message stanzas pass through", "a stanza that is not a message is not passed down unchanged exactly once (%s)" % bad[:2], "passed through unchanged")


def rule_enq(ctx):
    repo = ctx.repo
    fn = repo.method(SEND, "AxolotlSendLayer", "sendEncEntities")
    g = CFG(fn)
    w = where(SEND, "AxolotlSendLayer.sendEncEntities", fn.lineno)
    enq = [n for n in g.live if any(isinstance(x, ast.Call) and is_self_attr(x.func, "enqueueSent") for e in node_exprs(n) for x in walk_no_nested(e))]
    low = [n for n in g.live if any(isinstance(x, ast.Call) and is_self_attr(x.func, "toLower") for e in node_exprs(n) for x in walk_no_nested(e))]
    tests = [n for n in g.live if n.kind == "test" and "participant" in unparse(n.stmt.test)]
    ok = len(enq) == 1 and len(low) == 1 and len(tests) == 1 and g.path(tests[0], lambda x: x is low[0], avoid=enq, edge_ok=lambda a, b, k: not (a is tests[0] and k != "true")) is None \
        and g.path(low[0], lambda x: x is enq[0]) is None
    ctx.check("C03.enq", ok, w, enq[0].stmt if enq else fn, "the original must be queued before its envelope is sent (a retry receipt could arrive before it is queued)", "queued, then sent")
    arg_ok = enq and "enqueueSent(node)" in unparse(enq[0].stmt)
    ctx.check("C03.enq", bool(arg_ok), w, "queued value is the plaintext original", "the retry path re-encrypts what was queued: it must be the original stanza", "the original stanza is queued")
    eq = repo.method(SEND, "AxolotlSendLayer", "enqueueSent")
    src = unparse(eq)
    cls = repo.cls(SEND, "AxolotlSendLayer")
    mx = alts(Evaluator(repo, cls.module, cls).class_const(cls, "MAX_SENT_QUEUE"))
    # bounded queue with drop-oldest, by abstract execution of enqueueSent on a queue that holds MAX-1 and MAX entries:
    # afterwards the queue holds min(n + 1, MAX) entries, the new one last, the survivors in their order, and - when it
    # was full - exactly the oldest one is gone
    weq = where(SEND, "AxolotlSendLayer.enqueueSent", eq.lineno)
    if not mx or len(mx) != 1 or not isinstance(mx[0], int):
        ctx.undecided("C03.enq", weq, "bounded queue, drop-oldest", "MAX_SENT_QUEUE is not a constant")
    else:
        M = mx[0]
        bad = []
        for n in sorted({max(M - 1, 0), M}):
            it, layer, cls_ = mk_layer(repo, SEND, "AxolotlSendLayer", {}, {})
            old_items = [("c", "old-%d" % i) for i in range(n)]
            q = ("list", list(old_items))
            layer[1].fields["sentQueue"] = q
            new_item = ("c", "new")
            try:
                it.method_call(layer, "enqueueSent", [new_item], {}, {"@module": cls_.module, "@owner": cls_}, 0, None)
            except (_Raise, Budget) as x:
                bad.append("enqueueSent on a queue of %d raises / is not followed (%s)" % (n, type(x).__name__))
                continue
            got = layer[1].fields.get("sentQueue")
            if not (got and got[0] == "list" and not (len(got) > 2 and got[2])) or it.notes:
                bad = None
                break
            want = (old_items + [new_item])[-M:] if M > 0 else []
            if got[1] != want:
                bad.append("a queue of %d entries holds %d afterwards (%s)" % (n, len(got[1]),
                           "the oldest entry is kept and another dropped" if len(got[1]) == len(want) else "expected %d, newest last, oldest dropped" % len(want)))
        if bad is None:
            ctx.undecided("C03.enq", weq, "bounded queue, drop-oldest, MAX=%s" % M, "enqueueSent could not be followed by the interpreter")
        else:
            ctx.check("C03.enq", not bad and M >= 100, weq, "bounded queue, drop-oldest, MAX=%s" % M,
                      "the sent queue must be bounded (>= 100) and drop its oldest entry when full: " + ("; ".join(bad) if bad else "MAX_SENT_QUEUE is %d" % M), "bounded, oldest dropped")
    rule_requeue(ctx)


def rule_requeue(ctx):
    """receipts for a queued message, by abstract execution of AxolotlSendLayer.receive over the cells of
    (participant present?, receipt type): a group message stays queued (other participants may still ask for a retry);
    a retry receipt is acknowledged, the requester's keys are fetched and the continuation re-encrypts the queued
    original for that receipt; every other receipt - and every receipt for a message that is not queued - bubbles up once."""
    repo = ctx.repo
    rc = repo.method(SEND, "AxolotlSendLayer", "receive")
    w = where(SEND, "AxolotlSendLayer.receive", rc.lineno)

    def run(cell, domains, queued=True):
        keyreqs, resent = [], []
        hooks = {"method:getKeysFor": lambda itp, recv, a, k, env, d, e: (keyreqs.append((a, k)), C_NONE)[1],
                 "method:processPlaintextNodeAndSend": lambda itp, recv, a, k, env, d, e: (resent.append(a), C_NONE)[1]}
        it, layer, cls = mk_layer(repo, SEND, "AxolotlSendLayer", cell, domains, hooks)
        it.pure_depth = 0
        msg = Node(("c", "message"), None)
        msg.attrs.update({"id": MID if queued else ("c", "ANOTHER-ID"), "to": MFROM, "type": ("c", "text")})
        layer[1].fields["sentQueue"] = ("list", [("node", msg)])
        node = symbolic_node("receipt")
        node[1].path = None
        node[1].attrs.update({"id": MID, "from": A((), "from"), "participant": A((), "participant"), "type": A((), "type"), "t": ("c", "1")})
        rn = Node(("c", "retry"), None)
        rn.attrs.update({"count": ("c", "1"), "id": MID, "t": ("c", "1"), "v": ("c", "1")})
        node[1].children.append(("one", rn))
        reg = Node(("c", "registration"), None)
        reg.data = ("ext", "regid", [])
        node[1].children.append(("one", reg))
        res = {"raised": None}
        try:
            it.method_call(layer, "receive", [node], {}, {"@module": cls.module, "@owner": cls}, 0, None)
        except _Raise as r:
            res["raised"] = r.text
        res["effects"] = list(flat_effects(it.effects))
        q = layer[1].fields.get("sentQueue")
        res["still_queued"] = bool(q and q[0] == "list" and any(x[0] == "node" and x[1] is msg for x in q[1]))
        res["keyreqs"], res["resent"], res["msg"], res["node"], res["it"] = keyreqs, resent, msg, node, it
        # run the key-fetch continuation with one successful jid
        if keyreqs and len(keyreqs[0][0]) > 1:
            try:
                it.apply(keyreqs[0][0][1], [("list", [("c", "x")]), ("dict", {})], {}, {}, 0, None)
            except _Raise as r:
                res["raised"] = "continuation: " + r.text
        return res, it

    for queued in (True, False):
        try:
            # the cells of (participant present?, receipt type) come from the property, not from what the code happens to
            # test: they are fixed up front so that a handler that stops looking at one of them is still judged per cell
            cells = []
            for part in (None, OTHER):
                for typ in ("retry", None, OTHER):
                    base = {("A", (), "participant"): part, ("A", (), "type"): typ}
                    for c, r in enumerate_cells(lambda c, d, base=base: run({**base, **c}, d, queued), {}, max_cells=200):
                        cells.append(({**base, **c}, r))
        except Budget:
            ctx.undecided("C03.enq", w, "receipt for a %s message" % ("queued" if queued else "message that is not queued"), "budget exceeded")
            continue
        groups = {}
        for cell, r in cells:
            part = cell.get(("A", (), "participant"))
            typ = cell.get(("A", (), "type"))
            kind = ("group" if part is not None else "1:1", "retry" if typ == "retry" else "other")
            groups.setdefault(kind, []).append((cell, r))
        ctx.units.setdefault("C03.receipt_cells", {})["queued" if queued else "not queued"] = {"%s/%s" % k: len(v) for k, v in sorted(groups.items())}
        for kind, lst in sorted(groups.items()):
            bad = []
            for cell, r in lst:
                ups = [e for e in r["effects"] if e[0] == "UP"]
                dns = [node_of(e) for e in r["effects"] if e[0] == "DOWN"]
                if r["raised"]:
                    bad.append("raises %s" % r["raised"][:60])
                    continue
                if not queued:
                    if len(ups) != 1 or node_of(ups[0]) is not r["node"][1] or dns or r["keyreqs"]:
                        bad.append("a receipt for a message the layer does not hold must bubble up once, untouched (up %d, down %d)" % (len(ups), len(dns)))
                    continue
                if kind[0] == "group" and not r["still_queued"]:
                    bad.append("the group message is removed from the sent queue by this receipt: a later retry receipt of another participant finds nothing to re-encrypt")
                if kind[1] == "retry":
                    ack = [d for d in dns if d is not None and tagname(d) == "ack"]
                    if len(ack) != 1 or ups:
                        bad.append("a retry receipt must be acknowledged once and not bubble up (acks %d, up %d)" % (len(ack), len(ups)))
                    if len(r["keyreqs"]) != 1:
                        bad.append("the requester's keys must be fetched once (requests %d)" % len(r["keyreqs"]))
                    else:
                        jids = r["keyreqs"][0][0][0]
                        want = A((), "participant") if kind[0] == "group" else A((), "from")
                        if not (jids[0] == "list" and len(jids[1]) == 1 and jids[1][0] == want):
                            bad.append("keys are fetched for %s instead of the requester" % show(jids)[:50])
                    if len(r["resent"]) != 1 or not (r["resent"][0] and r["resent"][0][0][0] == "node" and r["resent"][0][0][1] is r["msg"]) or len(r["resent"][0]) < 2 or r["resent"][0][1] == C_NONE:
                        bad.append("after the keys arrive the queued original must be re-encrypted for this retry receipt (re-sent %d)" % len(r["resent"]))
                else:
                    if len(ups) != 1 or node_of(ups[0]) is not r["node"][1] or r["keyreqs"] or r["resent"]:
                        bad.append("a non-retry receipt must bubble up once and trigger nothing else (up %d)" % len(ups))
            ctx.check("C03.enq", not bad, w, "%s receipt, %s, message %s" % (kind[1], kind[0], "queued" if queued else "not queued"), "; ".join(sorted(set(bad))[:3]),
                      "%d cell(s)" % len(lst))


def rule_persist(ctx):
    """'across process restarts of a party between messages': the ratchet / sender-key / prekey state a message
    advanced must be committed when the store call returns - C13.commit, adopted (a lost commit replays a used
    message key after a restart: every recipient drops the message as a duplicate)."""
    from . import c13
    from ..report import Ctx
    scratch = Ctx(ctx.repo, "C13", ctx.tier)
    for r in ("C13.commit", "C13.replace", "C13.schema", "C13.blob"):
        scratch.rule(r, "", 0)
    model = c13.StoreModel(scratch)
    c13.rule_commit_replace(scratch, model)
    ctx.adopt(scratch, {"C13.commit": "C03.persist"})


def rule_state(ctx):
    """sent queue, parked stanzas, retry counters, skip list: per layer instance (a second stack in the process must not
    see - or evict - the first one's queued originals)"""
    from ..state import per_instance_state
    n = 0
    for rel, cn in ((SEND, "AxolotlSendLayer"), (RECV, "AxolotlReceivelayer")):
        n += per_instance_state(ctx, "C03.state", ctx.repo.cls(rel, cn))
    ctx.units["C03.state_attrs"] = n
    # the manager's cipher getters keep ciphers between calls: what they hand out must be the cipher OF the party asked
    # for - executed for two parties in a row on one manager, each result must be built from its own arguments
    repo = ctx.repo
    mgr = repo.cls(MGR, "AxolotlManager")
    for gname, calls in (("_get_group_cipher", [[("c", "g1"), ("c", "alice")], [("c", "g1"), ("c", "bob")], [("c", "g2"), ("c", "bob")], [("c", "g1"), ("c", "alice")]]),
                         ("_get_session_cipher", [[("c", "alice")], [("c", "bob")], [("c", "alice")]])):
        fn = mgr.methods.get(gname)
        if fn is None:
            continue
        w = where(MGR, "AxolotlManager." + gname, fn.lineno)
        it = Interp(repo, {}, {}, hooks={})
        o = Obj(mgr)
        o.fields.update({"_store": ("ext", "store", []), "_username": ("c", "me")})
        # the caches are created by the constructor: take their initial values from it (names are not assumed)
        init = mgr.methods.get("__init__")
        for n_ in ast.walk(init) if init else []:
            if isinstance(n_, ast.Assign) and is_self_attr(n_.targets[0]) and isinstance(n_.value, ast.Dict) and not n_.value.keys:
                o.fields[n_.targets[0].attr] = ("dict", {})
        bad, problem = [], None
        results = []
        for args in calls:
            try:
                v = it.method_call(("obj", o), gname, list(args), {}, {"@module": mgr.module, "@owner": mgr}, 0, None)
            except _Raise as r:
                problem = "raises " + r.text[:50]
                break
            except Exception as x:
                problem = "%s: %s" % (type(x).__name__, x)
                break
            results.append(v)
            missing = [a[1] for a in args if ("const", repr(a[1])) not in deps_of(v)]
            if missing:
                bad.append("%s(%s) hands out %s, which is not built from %s" % (gname, ", ".join(repr(a[1]) for a in args), show(v)[:40], missing))
        if problem:
            ctx.undecided("C03.state", w, fn, "%s could not be followed: %s" % (gname, problem))
            continue
        ctx.check("C03.state", not bad, w, "%s hands out the cipher of the party asked for" % gname,
                  "a cipher kept from an earlier call is handed out for another party (%s): messages of one member are decrypted - or one's own are signed - with another member's key state" % "; ".join(bad[:2]),
                  "every result is built from its own arguments (%d calls in a row)" % len(calls))


MANAGER_DECRYPT = ("decrypt_pkmsg", "decrypt_msg", "group_decrypt")


def exc_raiser(repo, name):
    m = repo.module(EXC)
    c = m.classes.get(name)

    def hook(itp, recv, args, kwargs, env, depth, e):
        raise _Raise(("obj", Obj(c)), "raise exceptions.%s()" % name)
    return hook


MID, MFROM, MPART = ("c", "MSG-1"), ("c", "123-456@g.us"), ("c", "999@s.whatsapp.net")      # concrete field values: the handlers only copy them


def rule_failures(ctx):
    repo = ctx.repo
    w = where(RECV, "AxolotlReceivelayer.handleEncMessage", None)

    def run_case(exc_name, times=1, then_success=False):
        # failures are injected where the layer meets the manager (decrypt_pkmsg / decrypt_msg / group_decrypt), not at the
        # layer's own handler methods: however the layer is organised inside, this is what fails
        hooks = {"method:parseAndHandleMessageProto": lambda itp, recv, a, k, env, d, e: C_NONE}
        for h in MANAGER_DECRYPT:
            hooks["ext:manager." + h] = exc_raiser(repo, exc_name) if exc_name else (lambda itp, recv, a, k, env, d, e: ("ext", "plaintext", []))
        regs = []

        def keys_hook(itp, recv, args, kwargs, env, depth, e):
            regs.append((args, kwargs))
            return C_NONE
        hooks["method:getKeysFor"] = keys_hook
        cell0 = {("A", (), "participant"): OTHER, ("A", (), "from"): OTHER, ("A", (), "id"): OTHER}     # a group message from a known sender
        it, layer, cls = mk_layer(repo, RECV, "AxolotlReceivelayer", cell0, {}, hooks)
        it.pure_depth = 0
        node = symbolic_node("message")
        # one pkmsg enc child, version 2
        encn = Node(("c", "enc"), None)
        encn.attrs.update({"type": ("c", "pkmsg"), "v": ("c", "2")})
        encn.data = ("ext", "ciphertext", [])
        node[1].children.append(("one", encn))
        node[1].path = None
        node[1].attrs.update({"id": MID, "from": MFROM, "participant": MPART, "type": ("c", "text"), "t": ("c", "1")})
        out = []
        for i in range(times):
            it.effects[:] = []
            try:
                it.method_call(layer, "handleEncMessage", [node], {}, {"@module": cls.module, "@owner": cls}, 0, None)
                out.append((list(flat_effects(it.effects)), None))
            except _Raise as r:
                out.append((list(flat_effects(it.effects)), r.text))
        if then_success:
            for h in MANAGER_DECRYPT:
                it.hooks["ext:manager." + h] = lambda itp, recv, a, k, env, d, e: ("ext", "plaintext", [])
            it.effects[:] = []
            it.method_call(layer, "handleEncMessage", [node], {}, {"@module": cls.module, "@owner": cls}, 0, None)
        return out, layer, regs, node, it, cls
    # duplicate
    out, layer, regs, node, it, cls = run_case("DuplicateMessageException")
    effs, raised = out[0]
    dn = [node_of(e) for e in effs if e[0] == "DOWN"]
    ups = [e for e in effs if e[0] == "UP"]
    ok = raised is None and len(dn) == 1 and not ups and tagname(dn[0]) == "receipt" and attr(dn[0], "id") == MID and attr(dn[0], "to") == MFROM \
        and attr(dn[0], "type") in (None, C_NONE) and child(dn[0], "retry") is None      # a plain delivery receipt, not a retry request
    okp = ok and attr(dn[0], "participant") == MPART
    ctx.check("C03.dup", bool(ok and okp), w, "except DuplicateMessageException", "a message the session has already decrypted must be answered with exactly one plain delivery receipt naming its id, sender and participant - not a retry request - and not be delivered again (receipts %d, deliveries %d, receipt type %s)" % (len(dn), len(ups), show(attr(dn[0], "type")) if dn and dn[0] is not None and attr(dn[0], "type") is not None else None),
              "one receipt (id, to, participant), no delivery")
    # retry on invalid key id / invalid message, counter per id, reset on success
    for exc in ("InvalidKeyIdException", "InvalidMessageException"):
        out, layer, regs, node, it, cls = run_case(exc, times=2)
        counts = []
        okshape = True
        for effs, raised in out:
            dn = [node_of(e) for e in effs if e[0] == "DOWN"]
            if raised or len(dn) != 1 or tagname(dn[0]) != "receipt" or attr(dn[0], "type") != ("c", "retry") or [e for e in effs if e[0] == "UP"]:
                okshape = False
                continue
            rn = child(dn[0], "retry")
            counts.append(attr(rn, "count") if rn else None)
            if attr(dn[0], "id") != MID or attr(dn[0], "to") != MFROM or attr(dn[0], "participant") != MPART:
                okshape = False
        ctx.check("C03.retry", okshape and counts == [("c", "1"), ("c", "2")], w, "except " + exc, "an undecryptable message must trigger one retry receipt per attempt with an increasing per-message counter and no delivery (counts %s)" % [show(c) for c in counts],
                  "retry receipt, counter 1 then 2")
    out, layer, regs, node, it, cls = run_case("InvalidMessageException", times=1, then_success=True)
    ret = layer[1].fields.get("_retries")
    ctx.check("C03.retry", ret is not None and ret[0] == "dict" and len(ret[1]) == 0, w, "retry counter reset on success", "the retry counter of a message must be dropped once it was decrypted", "counter dropped after a successful decryption")
    # no session: park + request keys + continuation re-processes
    out, layer, regs, node, it, cls = run_case("NoSessionException")
    effs, raised = out[0]
    pend = layer[1].fields.get("pendingIncomingMessages")
    parked = pend is not None and pend[0] == "dict" and any(v[0] == "list" and any(x[0] == "node" and x[1] is node[1] for x in v[1]) for v in pend[1].values() if isinstance(v, tuple)) or \
        (pend is not None and pend[0] == "dict" and any(isinstance(v, tuple) and v[0] == "list" and len(v[1]) == 2 and v[1][1][0] == "list" and any(x[0] == "node" and x[1] is node[1] for x in v[1][1][1]) for v in pend[1].values()))
    ok = raised is None and parked and len(regs) == 1 and not [e for e in effs if e[0] in ("UP",)]
    ctx.check("C03.park", bool(ok), w, "except NoSessionException", "without a session the stanza must be parked and the sender's keys requested (parked=%s, key requests=%d)" % (parked, len(regs)), "parked; keys requested once")
    if regs:
        args, kwargs = regs[0]
        jids = args[0]
        sender_ok = jids[0] == "list" and len(jids[1]) == 1
        cb = args[1] if len(args) > 1 else None
        # run the continuation with a success: the parked stanza is processed again
        again = []
        it.hooks["method:handleEncMessage"] = lambda itp, recv, a, k, env, d, e: (again.append(a[0]), C_NONE)[1]
        try:
            it.apply(cb, [("list", [("c", "x")]), ("dict", {})], {}, {}, 0, None)
        except _Raise:
            pass
        reproc = any(a[0] == "node" and a[1] is node[1] for a in again)
        pend2 = layer[1].fields.get("pendingIncomingMessages")
        ctx.check("C03.park", sender_ok and reproc, w, "key-fetch continuation", "after the keys arrived the parked stanza must be processed again (re-processed=%s)" % reproc, "continuation re-processes the parked stanza")
        again[:] = []
        try:
            it.apply(cb, [("list", []), ("dict", {})], {}, {}, 0, None)
        except _Raise:
            pass
        ctx.check("C03.park", not again, w, "key fetch without success", "nothing must be processed when no session could be built", "nothing re-processed without keys")


def rule_once(ctx):
    repo = ctx.repo
    for h, enc_type, dec in (("handlePreKeyWhisperMessage", "pkmsg", "decrypt_pkmsg"), ("handleWhisperMessage", "msg", "decrypt_msg"), ("handleSenderKeyMessage", "skmsg", "group_decrypt")):
        w = where(RECV, "AxolotlReceivelayer.handleEncMessage", None)

        def run(cell, domains, h=h, enc_type=enc_type):
            hooks = {"method:parseAndHandleMessageProto": lambda itp, recv, a, k, env, d, e: C_NONE}
            it, layer, cls = mk_layer(repo, RECV, "AxolotlReceivelayer", cell, domains, hooks)
            it.pure_depth = 0
            it.no_default_in = ("isGroupMessage", "isOutgoing")     # who the author is must be decided per cell, not by a default
            node = symbolic_node("message")
            node[1].path = None
            encn = Node(("c", "enc"), None)
            encn.attrs.update({"type": ("c", enc_type), "v": ("c", "2"), "mediatype": A(("enc",), "mediatype")})
            encn.data = ("ext", "ciphertext", [])
            node[1].children.append(("one", encn))
            node[1].attrs.update({"id": A((), "id"), "from": A((), "from"), "participant": A((), "participant"), "type": ("c", "text"), "t": ("c", "1")})
            res = {"raised": None}
            try:
                it.method_call(layer, "handleEncMessage", [node], {}, {"@module": cls.module, "@owner": cls}, 0, None)
            except _Raise as r:
                res["raised"] = r.text
            res["effects"] = list(flat_effects(it.effects))
            return res, it
        try:
            cells = enumerate_cells(run, {}, max_cells=300)
        except Budget:
            ctx.undecided("C03.once", w, h, "budget exceeded")
            continue
        bad = []
        for cell, r in cells:
            if r["raised"]:
                continue
            ups = [e for e in r["effects"] if e[0] == "UP"]
            if len(ups) != 1:
                bad.append("%d deliveries" % len(ups))
                continue
            n = node_of(ups[0])
            p = child(n, "proto") if n else None
            at_emit = ups[0][2].get("children", ()) if len(ups[0]) > 2 else ()
            if p is None or "proto" not in at_emit:
                bad.append("the stanza is delivered without (or before it gets) its proto child")
                continue
            d = p.data
            from_manager = d[0] == "fn" and d[1] == dec and d[2] and d[2][0][0] == "ext" and d[2][0][1] == "manager"
            if not from_manager:
                bad.append("the proto child carries %s, not the result of manager.%s" % (show(d)[:40], dec))
            if attr(n, "id") != A((), "id"):
                bad.append("the delivered stanza does not keep the message id")
            # whose session / pinned identity is used: the participant's whenever the stanza names one, else the sender's
            if from_manager and len(d[2]) > 1:
                part = cell.get(("A", (), "participant"), OTHER)
                if dec == "group_decrypt":
                    # (group id, sender within the group): the sender is the participant
                    allw = {a_[2] for x_ in d[2][1:] for a_ in deps_of(x_) if a_[0] == "A" and a_[1] == ()}
                    who = set() if "participant" in allw else (allw & {"from"})
                    want = {"participant"}
                else:
                    who = {a_[2] for a_ in deps_of(d[2][1]) if a_[0] == "A" and a_[1] == ()}
                    want = {"participant"} if part is not None else {"from"}
                if who and who != want:
                    bad.append("the message is decrypted with the session (and checked against the pinned identity) of `%s` although %s" % ("/".join(sorted(who)), "the stanza names a participant as its author" if part is not None else "it is a direct message"))
            if [c for kk, c in n.children if isinstance(c, Node) and tagname(c) == "proto"].__len__() != 1:
                bad.append("more than one proto child")
        ctx.check("C03.once", not bad, w, "a %s envelope is delivered once" % enc_type, "; ".join(sorted(set(bad))[:3]), "one delivery of a stanza whose proto child is the decrypted payload")
    # handleEncMessage: the pairwise handlers are alternatives; a group key message is handled in addition
    # a stanza that carries a pkmsg AND a msg envelope (and a group envelope): exactly one pairwise decryption, the group
    # envelope in addition
    fn = repo.method(RECV, "AxolotlReceivelayer", "handleEncMessage")
    calls = []
    hooks = {"method:parseAndHandleMessageProto": lambda itp, recv, a, k, env, d, e: C_NONE}
    for hname in MANAGER_DECRYPT:
        hooks["ext:manager." + hname] = (lambda nm: (lambda itp, recv, a, k, env, d, e: (calls.append(nm), ("ext", "plaintext", []))[1]))(hname)
    it, layer, cls = mk_layer(repo, RECV, "AxolotlReceivelayer", {("A", (), "participant"): OTHER, ("A", (), "from"): OTHER, ("A", (), "id"): OTHER}, {}, hooks)
    it.pure_depth = 0
    node = symbolic_node("message")
    node[1].path = None
    for t in ("pkmsg", "msg", "skmsg"):
        encn = Node(("c", "enc"), None)
        encn.attrs.update({"type": ("c", t), "v": ("c", "2")})
        encn.data = ("ext", "ciphertext-" + t, [])
        node[1].children.append(("one", encn))
    node[1].attrs.update({"id": MID, "from": MFROM, "participant": MPART, "type": ("c", "text"), "t": ("c", "1")})
    raised = None
    try:
        it.method_call(layer, "handleEncMessage", [node], {}, {"@module": cls.module, "@owner": cls}, 0, None)
    except _Raise as r:
        raised = r.text
    pair = [c for c in calls if c != "group_decrypt"]
    ctx.check("C03.once", len(pair) == 1 and calls.count("group_decrypt") == 1 and not raised, where(RECV, "AxolotlReceivelayer.handleEncMessage", fn.lineno), "pkmsg / msg are alternatives",
              "a pairwise envelope must be handled by exactly one of the two pairwise handlers (and a group envelope in addition): decryptions %s%s" % (calls, " raising " + raised if raised else ""), "one pairwise decryption, plus the group envelope")


def rule_skdm(ctx):
    repo = ctx.repo
    sim = GroupSim(repo)
    doms = {}
    res = enumerate_cells(lambda cell, d: sim.receive("message", cell, d), doms, max_cells=6000)
    by_layer = {"messages": {"consulted": 0, "blind": []}, "media": {"consulted": 0, "blind": []}}
    for cell, rs in res:
        view = cell_view(cell)
        ups = [e for e in flat_effects(rs["effects"]) if e[0] == "UP"]
        if not ups or rs["raised"]:
            continue
        which = "media" if view.get("type") == "media" and view.get("proto/mediatype") not in (None,) else "messages"
        asked = ups[0][2].get("asked", ()) if len(ups[0]) > 2 else ()
        if ATOM_PAYLOAD in asked or ATOM_SKDM in asked:
            by_layer[which]["consulted"] += 1
        else:
            by_layer[which]["blind"].append(cell_label(cell))
    for which, rel, cn in (("messages", "yowsup/layers/protocol_messages/layer.py", "YowMessagesProtocolLayer"), ("media", "yowsup/layers/protocol_media/layer.py", "YowMediaProtocolLayer")):
        d = by_layer[which]
        w = where(rel, cn + ".recvMessageStanza", None)
        if d["blind"]:
            ctx.violate("C03.skdm", w, "delivery decided on the mediatype attribute alone",
                        "%s delivers an entity without looking at the decrypted payload (%d cell(s), e.g. %s): the key-distribution-only envelope of a group message surfaces as a second, empty message" % (cn, len(d["blind"]), d["blind"][0][:100]))
        else:
            ctx.hold("C03.skdm", w, "payload consulted before every delivery", "%d delivering cell(s), all after looking at the payload" % d["consulted"])


def _mgr_run(repo, cls, name, args, cipher=None, hooks_extra=None):
    """abstract execution of one AxolotlManager method: the session / group cipher is an opaque object whose methods
    return an opaque value or raise a library exception (`cipher`: {"raise": name} or {}), `_unpad` and
    `_generate_random_padding` are observed.  -> (outcome, value, log)"""
    log = {"unpad": [], "cipher": []}
    PLAIN = ("ext", "PLAINTEXT", [])

    def get_cipher(it, fn, owner, self_val, a, k):
        return ("ext", "cipher", [])

    def unpad(it, fn, owner, self_val, a, k):
        log["unpad"].append(a[0] if a else None)
        return ("fn", "unpadded", [a[0]] if a else [])

    def pad(it, fn, owner, self_val, a, k):
        return ("ext", "PADDING", [])

    def cipher_call(mname):
        def h(it, recv, a, k, env, depth, e):
            log["cipher"].append((mname, list(a)))
            if cipher and cipher.get("raise"):
                raise _Raise(("ext", cipher["raise"], []), "library raises " + cipher["raise"])
            return PLAIN if mname.startswith("decrypt") else ("fn", "ciphertext", list(a))
        return h
    hooks = {"fn:_get_session_cipher": get_cipher, "fn:_get_group_cipher": get_cipher, "fn:_unpad": unpad, "fn:_generate_random_padding": pad}
    if cipher and cipher.get("raise_parse"):
        # the envelope itself is damaged: the library's message class refuses the bytes when it is constructed
        def parse(itp, label, a, k, env, depth, e):
            if label.strip(".()").split(".")[-1].endswith("WhisperMessage"):
                log["cipher"].append(("parse", list(a)))
                raise _Raise(("ext", cipher["raise_parse"], []), "library raises " + cipher["raise_parse"])
            return None
        hooks["extcall"] = parse
    for m in ("decryptMsg", "decryptPkmsg", "decrypt", "encrypt"):
        hooks["ext:cipher." + m] = cipher_call(m)
    hooks.update(hooks_extra or {})
    it = Interp(repo, {}, {}, hooks=hooks)
    from ..absint import Obj
    o = Obj(cls)
    o.fields["_username"] = ("c", "me")
    try:
        v = it.method_call(("obj", o), name, args, {}, {"@module": cls.module, "@owner": cls}, 0, None)
    except _Raise as r:
        return "raise", r.exc, log
    except Budget:
        return "budget", None, log
    return "ret", v, log


def rule_map(ctx):
    """the manager's decrypt / encrypt entry points by abstract execution (cipher opaque): each library exception a
    method catches comes out as the layer's namesake exception; the decrypted payload is returned unpadded (when asked
    to); the payload handed to the cipher on the way out is message + padding; the padding scheme is its own inverse."""
    repo = ctx.repo
    cls = repo.cls(MGR, "AxolotlManager")
    MSG = ("ext", "MSG", [])
    PLAIN = ("ext", "PLAINTEXT", [])

    def caught_names(fn, depth=2):
        out = []
        for x in ast.walk(fn):
            if isinstance(x, ast.ExceptHandler) and x.type is not None:
                ts = x.type.elts if isinstance(x.type, ast.Tuple) else [x.type]
                out += [unparse(t).split(".")[-1] for t in ts]
            if depth and isinstance(x, ast.Call) and is_self_attr(x.func) and x.func.attr in cls.methods and x.func.attr != fn.name:
                out += caught_names(cls.methods[x.func.attr], depth - 1)
        return out
    for name in ("decrypt_pkmsg", "decrypt_msg", "group_decrypt"):
        fn = cls.methods[name]
        w = where(MGR, "AxolotlManager." + name, fn.lineno)
        nparams = len(fn.args.args) - 1
        base_args = [("c", "peer"), ("c", "peer2"), ("ext", "DATA", [])][:nparams] if name == "group_decrypt" else [("c", "peer"), ("ext", "DATA", [])]
        bad = []
        # the failures the property names: unknown session, unknown prekey (pairwise only), undecryptable, duplicate
        names = ["NoSessionException", "InvalidMessageException", "DuplicateMessageException"] + (["InvalidKeyIdException"] if name != "group_decrypt" else [])
        for exc in names:
            args = list(base_args) + ([("c", True)] if name != "group_decrypt" else [])
            out, v, log = _mgr_run(repo, cls, name, args, {"raise": exc})
            got = None
            if out == "raise":
                if v[0] == "obj" and v[1].cls is not None:
                    got = v[1].cls.module.name + "." + v[1].cls.name
                elif v[0] in ("ext", "fn"):
                    got = v[1]
                if v[0] == "fn" and ("ext", "module yowsup.axolotl.exceptions", []) in v[2]:
                    got = "yowsup.axolotl.exceptions." + v[1]
            if got != "yowsup.axolotl.exceptions." + exc:
                bad.append("%s -> %s" % (exc, got if out == "raise" else out))
        ctx.check("C03.map", len(names) >= 3 and not bad, w, "library exceptions mapped by name (%d)" % len(names),
                  "a library exception is mapped to a different (or no) layer exception: %s (the wrong failure branch would run)" % bad, "each caught exception re-raised as its namesake")
        # an envelope whose framing is damaged (the library's message class refuses the bytes): that, too, is "a message
        # that cannot be decrypted" and must come out as the layer's invalid-message error, so that a retry is requested
        if name != "group_decrypt":
            args = list(base_args) + [("c", True)]
            out, v, log = _mgr_run(repo, cls, name, args, {"raise_parse": "InvalidMessageException"})
            got = None
            if out == "raise":
                if v[0] == "obj" and v[1].cls is not None:
                    got = v[1].cls.module.name + "." + v[1].cls.name
                elif v[0] in ("ext", "fn"):
                    got = ("yowsup.axolotl.exceptions." + v[1]) if (v[0] == "fn" and ("ext", "module yowsup.axolotl.exceptions", []) in v[2]) else v[1]
            parsed = [m for m, a in log["cipher"] if m == "parse"]
            if not parsed:
                ctx.undecided("C03.map", w, "a damaged envelope is an invalid message", "the message object is not built from the data by a library message class")
            else:
                ctx.check("C03.map", got == "yowsup.axolotl.exceptions.InvalidMessageException", w, "a damaged envelope is an invalid message",
                          "when the library's message class refuses the bytes (damaged framing) the error leaves the manager as %s, not as the layer's InvalidMessageException: the receive path does not catch it - no retry is requested and the message is lost" % (got if out == "raise" else out),
                          "the parse error is mapped like a failed decryption")
        # padding stripped
        oks = []
        for unpad in ((True, False) if name != "group_decrypt" else (True,)):
            args = list(base_args) + ([("c", unpad)] if name != "group_decrypt" else [])
            out, v, log = _mgr_run(repo, cls, name, args)
            if unpad:
                oks.append(out == "ret" and v == ("fn", "unpadded", [PLAIN]) and len(log["unpad"]) == 1)
            else:
                oks.append(out == "ret" and v == PLAIN and not log["unpad"])
        ctx.check("C03.map", all(oks), w, "padding stripped", "the random padding must be stripped from the decrypted payload (exactly once, and only when the caller asks for it)", "unpadded")
    enc = cls.methods["encrypt"]
    oks = []
    for name in ("encrypt", "group_encrypt"):
        out, v, log = _mgr_run(repo, cls, name, [("c", "peer"), MSG])
        sent = [a for m, a in log["cipher"] if m == "encrypt"]
        oks.append(out == "ret" and len(sent) == 1 and len(sent[0]) == 1 and sent[0][0] == ("fn", "Add", [MSG, ("ext", "PADDING", [])]) and v == ("fn", "ciphertext", sent[0]))
    ctx.check("C03.map", all(oks), where(MGR, "AxolotlManager.encrypt", enc.lineno), "padding added on both encrypt paths", "the payload must be padded before encryption (the receiver strips it)", "padded on encrypt")
    # the padding scheme: n bytes of value n for n in 1..255, stripped again by _unpad - evaluated for every n
    up = cls.methods["_unpad"]
    gp = cls.methods["_generate_random_padding"]
    wup = where(MGR, "AxolotlManager._unpad", up.lineno)
    ranges, bad, unknown = set(), [], None
    for n in range(1, 256):
        def randint(it, recv, a, k, env, depth, e, n=n):
            if len(a) == 2 and a[0][0] == "c" and a[1][0] == "c":
                ranges.add((a[0][1], a[1][1]))
            return ("c", n)
        it = Interp(repo, {}, {}, hooks={"ext:random.randint": randint})
        from ..absint import Obj
        o = ("obj", Obj(cls))
        try:
            padv = it.call_function(gp, cls, o, [], {}, depth=0)
            if padv[0] != "c" or not isinstance(padv[1], (bytes, bytearray)):
                unknown = "padding for n=%d is %s" % (n, show(padv)[:40])
                break
            if bytes(padv[1]) != bytes([n]) * n:
                bad.append("padding for the random number %d is %d byte(s) of %s" % (n, len(padv[1]), sorted(set(padv[1]))[:3]))
                continue
            back = it.call_function(up, cls, o, [("c", b"payload" + bytes(padv[1]))], {}, depth=0)
            if back[0] != "c":
                unknown = "unpadded value for n=%d is %s" % (n, show(back)[:40])
                break
            if back[1] != b"payload":
                bad.append("payload + %d padding byte(s) is unpadded to %d byte(s)" % (n, len(back[1])))
        except (_Raise, Budget, NeedAtom) as x:
            unknown = "n=%d: %s" % (n, x)
            break
    if unknown:
        ctx.undecided("C03.map", wup, "pad = n bytes of value n (1..255); unpad strips data[-1] bytes", "padding scheme could not be evaluated: " + unknown)
    else:
        ctx.check("C03.map", not bad and ranges == {(1, 255)}, wup, "pad = n bytes of value n (1..255); unpad strips data[-1] bytes",
                  "padding and unpadding must be inverse: " + ("; ".join(bad[:2]) if bad else "random range %s" % sorted(ranges)), "inverse padding scheme (255 lengths)")


def media_label_scenarios(repo):
    """three send-side histories on AxolotlSendLayer with a media message (`mediatype="image"` on its proto child): to a
    contact, to a group whose members all have sessions, and a group member's retry receipt for the queued message.
    -> {scenario: (ok, text)} or None when an execution cannot be followed.  In the envelope that goes down, every enc
    child whose ciphertext was computed from the message's payload must carry the message's media type - the receiving
    side routes by that label (without it a picture is taken for a text message and never shown)."""
    from ..absint import Obj, deps_of
    from ..repo import ClassInfo
    GOOD, OWN, GROUP = "111@s.whatsapp.net", "999@s.whatsapp.net", "123-456@g.us"
    PAYLOAD = ("ext", "PAYLOAD", [])

    def message(to):
        n = Node(("c", "message"), None)
        n.attrs.update({"id": ("c", "MSG-1"), "to": ("c", to), "type": ("c", "media")})
        p = Node(("c", "proto"), None)
        p.attrs.update({"mediatype": ("c", "image")})
        p.data = PAYLOAD
        n.children.append(("one", p))
        return n

    def mentions_payload(v, seen=None):
        seen = seen if seen is not None else set()
        if id(v) in seen:
            return False
        seen.add(id(v))
        if v is PAYLOAD or (isinstance(v, tuple) and len(v) == 3 and v[0] == "ext" and v[1] == "PAYLOAD"):
            return True
        if isinstance(v, tuple):
            return any(mentions_payload(x, seen) for x in v if isinstance(x, (tuple, list)))
        if isinstance(v, list):
            return any(mentions_payload(x, seen) for x in v)
        return False

    fetched = []

    def run(cell, domains, scenario):
        hooks = {"method:getKeysFor": lambda itp, recv, a, k, env, d, e: (fetched.append(scenario), itp.apply(a[1], [a[0], ("dict", {})], {}, env, d, e), C_NONE)[-1],
                 "ext:manager.session_exists": lambda *a: ("c", True), "ext:*.isEmpty": lambda *a: ("c", False), "anymethod:isEmpty": lambda *a: ("c", False),
                 "ext:*.getUsername": lambda *a: ("c", OWN)}
        it, layer, cls = mk_layer(repo, SEND, "AxolotlSendLayer", cell, domains, hooks)
        it.pure_depth = 0
        env = {"@module": cls.module, "@owner": cls}
        raised = None
        try:
            if scenario == "contact":
                it.method_call(layer, "send", [("node", message(GOOD))], {}, env, 0, None)
            elif scenario == "group":
                it.method_call(layer, "send", [("node", message(GROUP))], {}, env, 0, None)
            else:
                layer[1].fields["sentQueue"] = ("list", [("node", message(GROUP))])
                r = Node(("c", "receipt"), None)
                r.attrs.update({"id": ("c", "MSG-1"), "from": ("c", GROUP), "participant": ("c", GOOD), "type": ("c", "retry"), "t": ("c", "1")})
                rn = Node(("c", "retry"), None)
                rn.attrs.update({"count": ("c", "1"), "id": ("c", "MSG-1"), "t": ("c", "1"), "v": ("c", "1")})
                r.children.append(("one", rn))
                reg = Node(("c", "registration"), None)
                reg.data = ("c", b"\x00\x00\x00\x01")
                r.children.append(("one", reg))
                it.method_call(layer, "receive", [("node", r)], {}, env, 0, None)
        except _Raise as x:
            raised = x.text
        encs = []
        for e in flat_effects(it.effects):
            if e[0] == "DOWN" and e[1][0] == "node" and tagname(e[1][1]) == "message":
                todo = [e[1][1]]
                while todo:
                    n = todo.pop()
                    for kk, c in n.children:
                        if isinstance(c, Node):
                            if tagname(c) == "enc":
                                encs.append(c)
                            else:
                                todo.append(c)
        return {"raised": raised, "encs": [(show(c.attrs.get("type", C_NONE)), c.attrs.get("mediatype"), mentions_payload(c.data)) for c in encs]}, it
    out = {}
    names = {"contact": "a picture to a contact", "group": "a picture to a group (members have sessions)", "retry": "a group member asks for the picture again (retry receipt)"}
    for scenario in ("contact", "group", "retry"):
        try:
            cells = enumerate_cells(lambda c, d, sc_=scenario: run(c, d, sc_), {}, max_cells=64)
        except (NeedAtom, Budget, DomainGrew):
            return None
        bad, n_payload = [], 0
        for cell, r in cells:
            carrying = [x for x in r["encs"] if x[2]]
            n_payload += len(carrying)
            if not carrying:
                if scenario == "retry" and "retry" not in fetched:
                    return None         # the retry never reached the key fetch this scenario answers: not decided
                bad.append("no envelope with the payload goes down%s" % (" (raises %s)" % r["raised"][:50] if r["raised"] else ""))
            for typ, mt, _p in carrying:
                if mt != ("c", "image"):
                    bad.append("the %s envelope that carries the picture is labelled mediatype=%s: the receiver takes it for a text message and the picture is never shown" % (typ, show(mt) if mt is not None else None))
        out[names[scenario]] = (not bad, "; ".join(sorted(set(bad))[:2]), n_payload)
    return out


def rule_media_label(ctx):
    sc = media_label_scenarios(ctx.repo)
    w = where(SEND, "AxolotlSendLayer", None)
    if sc is None:
        ctx.undecided("C03.media", w, "media label of the envelopes", "the send scenarios could not be executed")
        return
    for name, (ok, why, n) in sorted(sc.items()):
        ctx.check("C03.media", ok, w, name, why, "%d envelope(s) carrying the payload, each labelled with the message's media type" % n)


def run(ctx):
    ctx.rule("C03.taint", "only envelopes / non-message stanzas leave the send layer downward", floor=2)
    ctx.rule("C03.enq", "queue before send; bounded queue; receipts for queued messages by abstract execution (keep group messages, retry re-encrypts)", floor=7)
    ctx.rule("C03.dup", "duplicate -> one receipt, no delivery", floor=1)
    ctx.rule("C03.retry", "retry receipts with per-id counter", floor=3)
    ctx.rule("C03.park", "park and fetch keys, continuation re-processes", floor=3)
    ctx.rule("C03.once", "one delivery per decrypt handler with the decrypted proto child", floor=4)
    ctx.rule("C03.skdm", "payload consulted before delivery in both message layers", floor=2)
    ctx.rule("C03.persist", "every key-store write is committed before the store call returns (C13.commit adopted)", floor=9)
    ctx.rule("C03.payload", "payload converter is a bijection (C10.bij / C10.has adopted)", floor=100)
    ctx.rule("C03.ids", "ids unique across entity classes (C08.id adopted)", floor=3)
    ctx.rule("C03.state", "queues / parked stanzas / counters of the encryption layers are bound per instance", floor=6)
    ctx.rule("C03.map", "exception mapping and padding in the manager", floor=8)
    ctx.rule("C03.media", "every envelope that carries a media payload is labelled with the message's media type (contact, group, retry)", floor=3)
    ctx.assume("python-axolotl's ratchets, sessions and exceptions behave as documented; conversations, restarts and group fan-out are not decided")
    ctx.guarded("C03.taint", rule_taint, ctx)
    ctx.guarded("C03.enq", rule_enq, ctx)
    ctx.guarded("C03.failures", rule_failures, ctx)
    ctx.guarded("C03.once", rule_once, ctx)
    ctx.guarded("C03.skdm", rule_skdm, ctx)
    ctx.guarded("C03.map", rule_map, ctx)
    ctx.guarded("C03.media", rule_media_label, ctx)
    ctx.guarded("C03.persist", rule_persist, ctx)
    ctx.guarded("C03.state", rule_state, ctx)
    # 'delivered with the original content': the payload goes through C10's converter on both sides (C10.bij / C10.has), adopted
    from . import c10, c08

    def conv_rules(scratch):
        c10.rule_converter(scratch)
    ctx.adopt_from("C10", [(conv_rules, ())], {"C10.bij": "C03.payload", "C10.has": "C03.payload"})
    # key requests, group-info requests and messages are correlated by id: ids unique across entity classes (C08.id), adopted
    ctx.adopt_from("C08", [(c08.rule_id, ())], {"C08.id": "C03.ids"})
