"""C08.transit - "whatever layer of the stack transports them".

A request the application issues through the interface layer is transported by one of the protocol layers; the reply
comes back up through the same group.  For the application's callback to run, the reply has to arrive at the interface
layer as an entity: the transporting layer either registers the request itself (callbacks that forward the parsed reply,
decided by C06.reply / C08.cb) or forwards replies of that kind in its receive handler.  Decided by executing, per iq
request class the group forwards, one history on ONE group object: the request goes down, then a reply with the request's
id comes in - once as type="error", once as type="result" in the shape the transporting layer's own parser accepts - and
the number of entities handed upward is counted."""
from ..absint import enumerate_cells, Budget, flat_effects, _Raise, NeedAtom, DomainGrew, C_NONE, show
from ..layers import symbolic_node
from ..report import where
from ..routing import GroupSim, concrete_entity_classes, ups
from ..stackmodel import FLAGS


def request_classes(repo):
    iqbase = repo.cls("yowsup/layers/protocol_iq/protocolentities/iq.py", "IqProtocolEntity")
    out = []
    for c in concrete_entity_classes(repo):
        if iqbase in repo.mro(c) and not any(k.name.startswith(("Result", "Error")) or "Result" in k.name for k in [c]):
            out.append(c)
    return out


def history(sim, cls, reply_type, cell, domains):
    """send one entity of `cls` down through the group, then receive a reply with its id -> (forwarded?, up count range, raised)"""
    it = sim.new_interp(cell, domains)
    g = sim.make_group(it)
    res = {"ctor_raised": None, "raised": None, "down": 0, "ups": (0, 0), "type": None}
    try:
        ent = sim.make_entity(it, cls)
    except _Raise as r:
        res["ctor_raised"] = r.text
        return res, it
    k, m = sim.repo.find_method(g[1].cls, "send")
    it.input_entity = ent[1] if ent[0] == "obj" else None
    try:
        it.call_function(m, k, g, [ent], {}, depth=0)
    except _Raise as r:
        res["raised"] = "send: " + (r.text or "")
        return res, it
    sent = [e for e in flat_effects(it.effects) if e[0] == "DOWN"]
    res["down"] = len(sent)
    if not sent:
        return res, it
    rid = it.method_call(ent, "getId", [], {}, {"@module": cls.module}, 0, None)
    rtype = it.method_call(ent, "getType", [], {}, {"@module": cls.module}, 0, None)
    res["type"] = rtype[1] if rtype[0] == "c" else None
    it.effects[:] = []
    node = symbolic_node("iq")
    node[1].attrs["id"] = rid
    node[1].attrs["type"] = ("c", reply_type)
    k2, m2 = sim.repo.find_method(g[1].cls, "receive")
    try:
        it.call_function(m2, k2, g, [node], {}, depth=0)
    except _Raise as r:
        res["raised"] = "reply: " + (r.text or "")
    res["ups"] = ups(it.effects)
    return res, it


def rule_transit(ctx, known_ok=()):
    repo = ctx.repo
    sim = GroupSim(repo, {f: True for f in FLAGS})
    n = 0
    for c in request_classes(repo):
        if c.relpath.startswith("yowsup/layers/axolotl/"):
            continue        # key requests are issued (and registered) by the encryption layers below the group
        w = where(c.relpath, c.name, None)
        for reply in ("error",):        # (the shape of a result is the kind's own; an error reply is recognisable as such)
            try:
                cells = enumerate_cells(lambda cell, d: history(sim, c, reply, cell, d), {}, max_cells=600)
            except (Budget, NeedAtom, DomainGrew):
                ctx.undecided("C08.transit", w, "%s reply to %s" % (reply, c.name), "the history could not be enumerated")
                continue
            sent = [r for _c, r in cells if r["down"] and not r["ctor_raised"]]
            if not sent:
                continue            # not forwarded by the group (its module decides elsewhere, C06.out)
            if not any(r["type"] in ("get", "set") for r in sent):
                continue            # not a request
            n += 1
            got = [r["ups"] for r in sent if not r["raised"]]
            raised = [r["raised"] for r in sent if r["raised"]]
            reaches = any(hi >= 1 for lo, hi in got)
            # (a reply that also carries a child some other layer forwards on sight - a <sync> inside an unrelated result -
            # is not the shape of a reply to this request: "twice" only when every shape that reaches the top does so twice)
            twice = reaches and all(hi > 1 for lo, hi in got if hi >= 1)
            label = "%s reply to %s" % (reply, c.name)
            if raised and not got:
                ctx.violate("C08.transit", w, label, "handling the reply raises %s" % raised[0][:60])
            elif twice:
                ctx.violate("C08.transit", w, label, "the reply is handed upward more than once (%s): the application's callback would run twice" % got)
            else:
                ctx.check("C08.transit", reaches, w, label,
                          "the request is sent down by its protocol layer without being registered there, and no layer hands a%s reply with its id upward: the reply never reaches the interface layer, the callback the application registered with the request is never invoked and its registry entry stays for ever" % ("n error" if reply == "error" else " result"),
                          "the reply reaches the interface layer as one entity")
    ctx.units["C08.request_kinds"] = n
