"""C01 - codec round trip (structural clauses).

C01.bind   every intra-codec call binds
C01.int    writeIntN / readIntN are bit-exact inverses
C01.class  each size-class branch implies the value fits the length form it writes
C01.tags   every control byte the encoder emits is dispatched by the decoder with the matching length reader
C01.dbl    double-byte token arithmetic is inverse
C01.pack   nibble / hex packing tables are inverse; packed header bit layout agrees
C01.unpack packed body: writer nibble placement and filler; reader abstractly executed for every (kind, header byte)
C01.count  the list header of a node counts exactly the items that are written (same condition for counting and writing)
C01.str    strings are one byte per character on both sides (ord / chr / latin-1; no other charset)
C01.node   ProtocolTreeNode.__init__ keeps attributes (also falsy values), children and data unchanged (abstract execution)
C01.layer  YowCoderLayer.send writes protocolTreeNodeToBytes(<its argument>) on every path
C01.dict   dictionary sizes stay below the control bytes
C01.eq     ProtocolTreeNode.__eq__ compares every component and matches children in both directions
"""
import ast
import os
import re

from .. import bits, linear
from ..calls import Resolver, bind_problems
from ..cfg import CFG, fmt_path, walk_no_nested
from ..consts import Evaluator, K, UNK, alts, eval_simple_function, RAISES
from ..report import where
from ..repo import unparse, is_self_attr, params_of

ENC = "yowsup/layers/coder/encoder.py"
DEC = "yowsup/layers/coder/decoder.py"
TOK = "yowsup/layers/coder/tokendictionary.py"
LAY = "yowsup/layers/coder/layer.py"
PTN = "yowsup/structs/protocoltreenode.py"

FRAME_BOUND = (1 << 24) - 1     # C05.guard refuses anything larger
LIST_BOUND = (1 << 16) - 1      # the format has no larger list form


# ------------------------------------------------------------------ C01.bind
def rule_bind(ctx, files=(ENC, DEC, TOK, LAY), rule="C01.bind"):
    res = Resolver(ctx.repo)
    n = 0
    for rel in files:
        m = ctx.repo.module(rel)
        for c in m.classes.values():
            for fname, fn in c.methods.items():
                for call in ast.walk(fn):
                    if not isinstance(call, ast.Call):
                        continue
                    for (k, callee, implicit) in res.resolve_call(m, c, fn, call):
                        probs = bind_problems(callee, call, implicit)
                        n += 1
                        w = where(rel, c.name + "." + fname, call.lineno)
                        ctx.check(rule, not probs, w, call,
                                  "call does not bind to %s%s: %s" % ((k.name + "." if k else ""), callee.name, "; ".join(probs)),
                                  "binds to %s%s" % ((k.name + "." if k else ""), callee.name))
    return n


# ------------------------------------------------------------------ C01.int
def writer_bytes(ctx, cls, fn, _depth=0):
    """-> (value param, [bitvec per appended byte]) or None"""
    ps = params_of(fn)
    if len(ps) != 2:
        return None
    v, data = ps
    cev = Evaluator(ctx.repo, cls.module, cls)
    out = []
    for s in fn.body:
        if isinstance(s, ast.Expr) and isinstance(s.value, ast.Constant):
            continue
        if isinstance(s, ast.Expr) and isinstance(s.value, ast.Call) and isinstance(s.value.func, ast.Attribute) \
                and s.value.func.attr == "append" and unparse(s.value.func.value) == data and len(s.value.args) == 1:
            out.append((s, bits.ev(s.value.args[0], {v: bits.var("v", bits.N)}, cev)))
        elif isinstance(s, ast.Expr) and isinstance(s.value, ast.Call) and is_self_attr(s.value.func) and re.match(r"^writeInt\d+$", s.value.func.attr) \
                and s.value.func.attr in cls.methods and s.value.func.attr != fn.name and len(s.value.args) == 2 and unparse(s.value.args[1]) == data and _depth < 3:
            # the low-order bytes are written by a narrower writer: its bytes, with its argument replaced by what it is given
            sub = writer_bytes(ctx, cls, cls.methods[s.value.func.attr], _depth + 1)
            if sub is None:
                return None
            arg_bits = bits.ev(s.value.args[0], {v: bits.var("v", bits.N)}, cev)
            for (s2, bv) in sub[1]:
                out.append((s, bits.subst(bv, {"v": arg_bits})))
        else:
            return None
    return v, out


def reader_expr(ctx, cls, fn, _depth=0):
    """-> (n_bytes, bitvec over b0..bk) or None"""
    ps = params_of(fn)
    if len(ps) != 1:
        return None
    data = ps[0]
    cev = Evaluator(ctx.repo, cls.module, cls)
    env = {}
    k = 0
    rets = []
    import copy as _copy

    def delegate(e):
        """`self.readIntM(data)` inside an expression: the bytes that narrower reader consumes, renumbered after the ones
        consumed so far, and its result in place of the call (calls in source order).  -> rewritten expression or None"""
        nonlocal k
        e = _copy.deepcopy(e)          # the repository's syntax tree is shared: never rewritten in place
        calls = [c for c in ast.walk(e) if isinstance(c, ast.Call)]
        subs = [c for c in calls if is_self_attr(c.func) and re.match(r"^readInt\d+$", c.func.attr) and c.func.attr in cls.methods
                and c.func.attr != fn.name and len(c.args) == 1 and unparse(c.args[0]) == data]
        if not subs:
            return e
        if _depth >= 3:
            return None
        repl = {}
        for c in sorted(subs, key=lambda c: (c.lineno, c.col_offset)):
            sub = reader_expr(ctx, cls, cls.methods[c.func.attr], _depth + 1)
            if sub is None:
                return None
            k2, (_s2, bv2) = sub
            name = "_sub%d" % len(env)
            env[name] = bits.subst(bv2, {"b%d" % i: bits.var("b%d" % (k + i), 8) for i in range(k2)})
            k += k2
            repl[id(c)] = name

        class R(ast.NodeTransformer):
            def visit_Call(self, node):
                if id(node) in repl:
                    return ast.copy_location(ast.Name(id=repl[id(node)], ctx=ast.Load()), node)
                return self.generic_visit(node)
        return R().visit(e)

    def is_pop(e):
        return isinstance(e, ast.Call) and isinstance(e.func, ast.Attribute) and e.func.attr == "pop" \
            and unparse(e.func.value) == data and len(e.args) == 1 and isinstance(e.args[0], ast.Constant) and e.args[0].value == 0

    def walk(stmts):
        nonlocal k
        for s in stmts:
            if isinstance(s, ast.Expr) and isinstance(s.value, ast.Constant):
                continue
            if isinstance(s, ast.Assign) and len(s.targets) == 1 and isinstance(s.targets[0], ast.Name):
                if is_pop(s.value):
                    env[s.targets[0].id] = bits.var("b%d" % k, 8)
                    k += 1
                else:
                    v2 = delegate(s.value)
                    if v2 is None:
                        return False
                    env[s.targets[0].id] = bits.ev(v2, env, cev)
            elif isinstance(s, ast.Expr) and is_pop(s.value):
                k += 1     # byte consumed and discarded
            elif isinstance(s, ast.Return):
                if s.value is not None and is_pop(s.value):
                    rets.append((s, bits.var("b%d" % k, 8)))
                    k += 1
                elif s.value is not None and isinstance(s.value, ast.Constant):
                    continue   # dead default such as `return ""`
                else:
                    v2 = delegate(s.value)
                    if v2 is None:
                        return False
                    rets.append((s, bits.ev(v2, env, cev)))
            elif isinstance(s, ast.If):
                walk(s.body)
                walk(s.orelse)
            else:
                return False
        return True
    if not walk(fn.body) or len(rets) != 1:
        return None
    return k, rets[0]


def rule_int(ctx):
    enc = ctx.repo.cls(ENC, "WriteEncoder")
    dec = ctx.repo.cls(DEC, "ReadDecoder")
    widths = {}
    for name, fn in sorted(enc.methods.items()):
        m = re.match(r"^writeInt(\d+)$", name)
        if not m:
            continue
        N = int(m.group(1))
        rfn = dec.methods.get("readInt%d" % N)
        w = where(ENC, "WriteEncoder." + name, fn.lineno)
        wb = writer_bytes(ctx, enc, fn)
        if wb is None:
            ctx.undecided("C01.int", w, fn, "writer is not a sequence of data.append(<bit expression of the value>)")
            continue
        v, wbytes = wb
        okb = True
        for (s, bv) in wbytes:
            if any(x != 0 for x in bv[8:]) or "X" in bv:
                okb = False
                ctx.violate("C01.int", where(ENC, "WriteEncoder." + name, s.lineno), s,
                            "appended value is not a byte-sized slice of the argument: " + bits.describe(bv))
        # writer alone: contiguous MSB-first cover of [0, W)
        nb = len(wbytes)
        comp = [0] * bits.N
        for i, (s, bv) in enumerate(wbytes):
            sh = 8 * (nb - 1 - i)
            comp = bits._or(comp, bits._shl(bv, sh))
        W = 0
        while W < bits.N and comp[W] == ("v", "v", W):
            W += 1
        clean = all(x == 0 for x in comp[W:])
        ctx.check("C01.int", okb and clean and W == N, w, "%s emits %d byte(s)" % (name, nb),
                  "big-endian concatenation of the emitted bytes carries %s, expected exactly bits [0,%d) of the value" % (bits.describe(comp), N),
                  "bytes are contiguous MSB-first slices covering bits [0,%d)" % N)
        widths[N] = W if (okb and clean) else None
        if rfn is None:
            ctx.violate("C01.int", w, fn, "no matching readInt%d in the decoder" % N)
            continue
        wr = where(DEC, "ReadDecoder.readInt%d" % N, rfn.lineno)
        rd = reader_expr(ctx, dec, rfn)
        if rd is None:
            ctx.undecided("C01.int", wr, rfn, "reader is not `pop bytes; return <bit expression>`")
            continue
        k, (rs, rbv) = rd
        if k != nb:
            ctx.violate("C01.int", wr, rs, "reader consumes %d byte(s) but the writer emits %d" % (k, nb))
            continue
        mapping = {"b%d" % i: bv for i, (s, bv) in enumerate(wbytes)}
        out = bits.subst(rbv, mapping)
        ident = all(out[i] == ("v", "v", i) for i in range(N)) and all(x == 0 for x in out[N:])
        # every byte used exactly once
        used = {}
        for x in rbv:
            if isinstance(x, tuple) and x[0] == "v":
                used.setdefault(x[1], set()).add(x[2])
        ctx.check("C01.int", ident, wr, rs,
                  "readInt%d(writeInt%d(v)) is not v on %d bits: reader assembles %s; composed with the writer: %s" % (
                      N, N, N, bits.describe(rbv), bits.describe(out)),
                  "reader reassembles every byte into the slice the writer took it from (identity on %d bits)" % N)
    ctx.units["C01.int_widths"] = {str(k): v for k, v in widths.items()}
    return widths


# ------------------------------------------------------------------ C01.class
class Interval:
    def __init__(self, lo, hi):
        self.lo, self.hi = lo, hi

    def copy(self):
        return Interval(self.lo, self.hi)

    def empty(self):
        return self.lo > self.hi


def refine(iv, test, var, truth, cev):
    """refine interval of `var` knowing `test` evaluated to `truth`; returns new interval (or same)"""
    if isinstance(test, ast.UnaryOp) and isinstance(test.op, ast.Not):
        return refine(iv, test.operand, var, not truth, cev)
    if isinstance(test, ast.BoolOp):
        conj = isinstance(test.op, ast.And) == bool(truth)      # `a and b` true / `a or b` false: every operand decided
        if conj:
            out = iv.copy()
            for v in test.values:
                out = refine(out, v, var, truth, cev)
            return out
        # `a or b` true / `a and b` false: at least one operand - the hull of the alternatives
        parts = [refine(iv, v, var, truth, cev) for v in test.values]
        parts = [p_ for p_ in parts if not p_.empty()]
        if not parts:
            return Interval(1, 0)
        return Interval(min(p_.lo for p_ in parts), max(p_.hi for p_ in parts))
    if isinstance(test, ast.Compare) and len(test.ops) == 2 and all(isinstance(o, (ast.Lt, ast.LtE, ast.Gt, ast.GtE)) for o in test.ops):
        # a <= x <= b  ==  (a <= x) and (x <= b)
        both = ast.BoolOp(op=ast.And(), values=[ast.Compare(left=test.left, ops=[test.ops[0]], comparators=[test.comparators[0]]),
                                                ast.Compare(left=test.comparators[0], ops=[test.ops[1]], comparators=[test.comparators[1]])])
        return refine(iv, both, var, truth, cev)
    cn = linear.cmp_normal(test, cev)
    if cn is None:
        return iv
    l, op = cn
    rest = {k: v for k, v in l.items() if k != 1}
    c = l.get(1, 0)
    out = iv.copy()
    if rest == {var: 1}:       # var + c  op 0
        b = -c
        if op == ">":          # var > b
            if truth:
                out.lo = max(out.lo, b + 1)
            else:
                out.hi = min(out.hi, b)
        elif op == ">=":
            if truth:
                out.lo = max(out.lo, b)
            else:
                out.hi = min(out.hi, b - 1)
        elif op == "==" and truth:
            out.lo, out.hi = max(out.lo, b), min(out.hi, b)
        elif op == "!=" and not truth:
            out.lo, out.hi = max(out.lo, b), min(out.hi, b)
    elif rest == {var: -1}:    # c - var op 0
        b = c
        if op == ">":          # var < b
            if truth:
                out.hi = min(out.hi, b - 1)
            else:
                out.lo = max(out.lo, b)
        elif op == ">=":       # var <= b
            if truth:
                out.hi = min(out.hi, b)
            else:
                out.lo = max(out.lo, b + 1)
        elif op == "==" and truth:
            out.lo, out.hi = max(out.lo, b), min(out.hi, b)
    return out


def always_exits(stmts):
    for s in stmts:
        if isinstance(s, (ast.Return, ast.Raise)):
            return True
        if isinstance(s, ast.If) and s.orelse and always_exits(s.body) and always_exits(s.orelse):
            return True
    return False


def walk_intervals(stmts, var, iv, cev, on_call):
    """walk a block keeping the interval of `var` (a local name or `len(x)` symbol)"""
    for s in stmts:
        if isinstance(s, ast.If):
            t = refine(iv, s.test, var, True, cev)
            f = refine(iv, s.test, var, False, cev)
            if not t.empty():
                walk_intervals(s.body, var, t, cev, on_call)
            if not f.empty():
                walk_intervals(s.orelse, var, f, cev, on_call)
            if always_exits(s.body) and not s.orelse:
                iv = f
            elif s.orelse and always_exits(s.orelse) and not always_exits(s.body):
                iv = t
            continue
        if isinstance(s, (ast.For, ast.While)):
            walk_intervals(s.body, var, iv, cev, on_call)
            continue
        if isinstance(s, ast.Assign) and any(isinstance(t, ast.Name) and t.id == var for t in s.targets):
            continue
        for n in walk_no_nested(s):
            if isinstance(n, ast.Call):
                on_call(n, iv, s)


def rule_class(ctx, widths):
    enc = ctx.repo.cls(ENC, "WriteEncoder")
    cev = Evaluator(ctx.repo, enc.module, enc)
    sites = [
        ("writeBytes", "size", Interval(0, FRAME_BOUND), "content size (frame bound 16 MiB, C05.guard)"),
        ("writeListStart", None, Interval(0, LIST_BOUND), "list size (format has no form above 65535)"),
    ]
    for mname, var, iv0, what in sites:
        fn = ctx.repo.method(ENC, "WriteEncoder", mname)
        if var is None:
            var = params_of(fn)[0]

        def on_call(call, iv, stmt, mname=mname, var=var):
            f = call.func
            if not (is_self_attr(f) and re.match(r"^writeInt(\d+)$", f.attr)):
                return
            N = int(f.attr[8:])
            if not (call.args and isinstance(call.args[0], ast.Name) and call.args[0].id == var):
                return
            W = widths.get(N)
            w = where(ENC, "WriteEncoder." + mname, call.lineno)
            if W is None:
                ctx.undecided("C01.class", w, call, "width of writeInt%d not established (see C01.int)" % N)
                return
            ctx.check("C01.class", iv.hi < (1 << W), w, call,
                      "on this branch %s ranges over [%d, %d] but writeInt%d carries only %d bits (max %d): the length is truncated" % (var, iv.lo, iv.hi, N, W, (1 << W) - 1),
                      "%s in [%d, %d] fits %d bits" % (var, iv.lo, iv.hi, W))
        walk_intervals(fn.body, var, iv0, cev, on_call)
    # packed header: size < 128 on the path; writeInt8(size % 2 << 7 | len(arr)) with len(arr) = (size+1)/2
    fn = ctx.repo.method(ENC, "WriteEncoder", "tryPackAndWriteHeader")
    found = []

    def on_call2(call, iv, stmt):
        f = call.func
        if is_self_attr(f) and f.attr == "writeInt8" and call.args:
            found.append((call, iv))
    walk_intervals(fn.body, "size", Interval(0, FRAME_BOUND), cev, on_call2)
    for call, iv in found:
        w = where(ENC, "WriteEncoder.tryPackAndWriteHeader", call.lineno)
        # number of packed bytes is ceil(size/2) <= (hi+1)//2 and must fit the 7 length bits
        nbytes = (iv.hi + 1) // 2
        ctx.check("C01.class", nbytes < 128 and iv.hi <= 255, w, call,
                  "packed strings up to %d characters reach the header whose length field has 7 bits (max 127 bytes)" % iv.hi,
                  "size <= %d so at most %d packed bytes fit the 7-bit length field" % (iv.hi, nbytes))
    if not found:
        ctx.undecided("C01.class", where(ENC, "WriteEncoder.tryPackAndWriteHeader", fn.lineno), fn, "packed header write not found")


# ------------------------------------------------------------------ C01.tags
LATIN1 = {"latin-1", "latin1", "latin_1", "iso-8859-1", "iso8859-1", "iso_8859_1", "l1", "cp819", "8859"}


def chars_source(v, string_results, depth=0):
    """X when the abstract string value is one character per element of X with chr (code point = byte value)"""
    if not isinstance(v, tuple) or depth > 3:
        return None
    if v[0] == "fn" and v[1] == "join" and len(v[2]) == 2 and v[2][0] == ("c", ""):
        m = v[2][1]
        if isinstance(m, tuple) and m[0] == "fn" and m[1] == "map" and len(m[2]) == 2 and m[2][0] == ("ext", "chr", []):
            return m[2][1]
        return None
    if v[0] in ("ext", "fn") and v[1] in (".decode()", "decode") and len(v[2]) == 2:
        # bytes(X).decode('latin-1'): one character per byte, code point = byte value
        codec = [x for x in v[2] if x[0] == "c" and isinstance(x[1], str)]
        rest = [x for x in v[2] if not (x[0] == "c" and isinstance(x[1], str))]
        if len(codec) == 1 and len(rest) == 1 and codec[0][1].lower() in LATIN1:
            return bytes_source(rest[0], string_results)
        return None
    if v[0] == "fn" and v[1] == "readString()" and v[2] and v[2][0][0] == "c" and string_results is not None:
        outs = string_results(v[2][0][1])
        srcs = [chars_source(o, string_results, depth + 1) for o in outs]
        if srcs and all(x is not None for x in srcs) and all(x == srcs[0] for x in srcs):
            return srcs[0]
    return None


def bytes_source(v, string_results=None):
    """the list of byte values an abstract value is the bytes of, when the conversions applied are the identity on bytes:
    bytes(X), bytes(bytearray(X)), ''.join(map(chr, X)).encode('latin-1'); None otherwise"""
    if not isinstance(v, tuple):
        return None
    if v[0] == "fn" and v[1] in ("bytes", "bytearray") and len(v[2]) == 1:
        inner = v[2][0]
        if isinstance(inner, tuple) and inner[0] == "fn" and inner[1] in ("bytes", "bytearray"):
            return bytes_source(inner, string_results)
        return inner
    if v[0] in ("ext", "fn") and v[1] in (".encode()", "encode") and len(v[2]) == 2:
        # (receiver, codec) in either order, depending on how the call was reached
        codec = [x for x in v[2] if x[0] == "c" and isinstance(x[1], str)]
        rest = [x for x in v[2] if not (x[0] == "c" and isinstance(x[1], str))]
        if len(codec) == 1 and len(rest) == 1 and codec[0][1].lower() in LATIN1:
            return chars_source(rest[0], string_results)
    return None


def test_values(ctx, cls, test, var, domain=range(256)):
    """set of values of `var` for which `test` is definitely true; None if undecidable for some value"""
    out = set()
    for t in domain:
        ev = Evaluator(ctx.repo, cls.module, cls, {var: K(t)})
        a = alts(ev.ev(test))
        if a is None or len(a) != 1:
            return None
        if a[0]:
            out.add(t)
    return out


def mentions(e, var):
    return any(isinstance(n, ast.Name) and n.id == var for n in ast.walk(e))


def dispatch_table(ctx, cls, fn, var):
    """[(set of ints, body stmts, If node)] for the if-chains on `var` in fn (order preserved).
    A branch only sees values not taken by an earlier branch that always exits."""
    table = []

    def walk(stmts, remaining):
        for s in stmts:
            if isinstance(s, ast.If) and mentions(s.test, var):
                vals = test_values(ctx, cls, s.test, var)
                if vals is None:
                    table.append((None, s.body, s))
                    walk(s.orelse, remaining)
                    continue
                eff = vals & remaining
                table.append((eff, s.body, s))
                walk(s.body, eff)
                rem2 = remaining - vals
                walk(s.orelse, rem2)
                if always_exits(s.body) and not s.orelse:
                    remaining = rem2
            elif isinstance(s, ast.If):
                walk(s.body, remaining)
                walk(s.orelse, remaining)
            elif isinstance(s, (ast.For, ast.While, ast.Try)):
                walk(getattr(s, "body", []), remaining)
        return remaining
    rest = walk(fn.body, set(range(256)))
    return table, rest


def first_reader(ctx, cls, stmts, depth=0):
    """width N of the first self.readIntN(...) evaluated in stmts (following self calls); None if none"""
    for s in stmts:
        calls = [n for n in walk_no_nested(s) if isinstance(n, ast.Call)]
        calls.sort(key=lambda c: (c.lineno, c.col_offset))
        # evaluation order: arguments before the call; approximate by source order of innermost calls
        inner_first = sorted(calls, key=lambda c: (c.end_lineno, c.end_col_offset))
        for c in inner_first:
            f = c.func
            if is_self_attr(f):
                m = re.match(r"^readInt(\d+)$", f.attr)
                if m:
                    return int(m.group(1))
                if depth < 3 and f.attr in cls.methods and f.attr not in ("readString", "nextTreeInternal", "readList", "readAttributes", "getToken", "getTokenDouble"):
                    r = first_reader(ctx, cls, cls.methods[f.attr].body, depth + 1)
                    if r is not None:
                        return r
    return None


def emitted(ctx, enc, fn, data_name="data"):
    """[(const K or None, following writeInt width or None, stmt)] for data.append(K) in fn"""
    cev = Evaluator(ctx.repo, enc.module, enc)
    out = []

    def block(stmts):
        for i, s in enumerate(stmts):
            if isinstance(s, ast.Expr) and isinstance(s.value, ast.Call) and isinstance(s.value.func, ast.Attribute) \
                    and s.value.func.attr == "append" and unparse(s.value.func.value) == data_name and len(s.value.args) == 1:
                a = alts(cev.ev(s.value.args[0]))
                ks = a if a is not None else [None]
                N = None
                for s2 in stmts[i + 1:]:
                    hit = False
                    for n in walk_no_nested(s2):
                        if isinstance(n, ast.Call) and is_self_attr(n.func):
                            m = re.match(r"^writeInt(\d+)$", n.func.attr)
                            if m:
                                N = int(m.group(1))
                                hit = True
                                break
                    if hit or isinstance(s2, (ast.If, ast.For, ast.While)):
                        break
                for k in ks:
                    out.append((k, N, s, s.value.args[0]))
            for sub in ("body", "orelse", "finalbody"):
                if hasattr(s, sub) and isinstance(getattr(s, sub), list):
                    block(getattr(s, sub))
            if isinstance(s, ast.Try):
                for h in s.handlers:
                    block(h.body)
    block(fn.body)
    return out


def rule_tags(ctx):
    enc = ctx.repo.cls(ENC, "WriteEncoder")
    dec = ctx.repo.cls(DEC, "ReadDecoder")
    table = {"list": {}, "bytes": {}, "jid": {}, "packed": {}}
    # ---- encoder side
    for (k, N, s, _) in emitted(ctx, enc, ctx.repo.method(ENC, "WriteEncoder", "writeListStart")):
        table["list"][k] = N
    for (k, N, s, _) in emitted(ctx, enc, ctx.repo.method(ENC, "WriteEncoder", "writeBytes")):
        table["bytes"][k] = N
    for (k, N, s, _) in emitted(ctx, enc, ctx.repo.method(ENC, "WriteEncoder", "writeJid")):
        table["jid"][k] = N
    # packed header byte: data.append(v) where v is the first parameter; constants from the call sites
    tp = ctx.repo.method(ENC, "WriteEncoder", "tryPackAndWriteHeader")
    pvals = set()
    for fn in enc.methods.values():
        # loop variables that range over a constant tuple (`for packType in (255, 251):`)
        loopvals = {}
        for lp in ast.walk(fn):
            if isinstance(lp, ast.For) and isinstance(lp.target, ast.Name):
                la = alts(Evaluator(ctx.repo, enc.module, enc).ev(lp.iter))
                if la and len(la) == 1 and isinstance(la[0], (tuple, list)):
                    loopvals[lp.target.id] = list(la[0])
        for n in ast.walk(fn):
            if isinstance(n, ast.Call) and is_self_attr(n.func, "tryPackAndWriteHeader") and n.args:
                a = alts(Evaluator(ctx.repo, enc.module, enc).ev(n.args[0]))
                if a is None and isinstance(n.args[0], ast.Name) and n.args[0].id in loopvals:
                    a = loopvals[n.args[0].id]
                if a is None:
                    ctx.undecided("C01.tags", where(ENC, "WriteEncoder", n.lineno), n, "packed type passed to tryPackAndWriteHeader is not a constant")
                else:
                    pvals.update(a)
    v0 = params_of(tp)[0]
    for (k, N, s, arg) in emitted(ctx, enc, tp):
        if k is None and isinstance(arg, ast.Name) and arg.id == v0:
            for pv in pvals:
                table["packed"][pv] = N
        elif k is not None:
            table["packed"][k] = N
    ctx.units["C01.encoder_control_bytes"] = {ctxn: {str(k): v for k, v in t.items()} for ctxn, t in table.items()}
    if None in table["list"] or None in table["bytes"]:
        ctx.undecided("C01.tags", where(ENC, "WriteEncoder", None), "data.append(<non-constant>)", "encoder emits a control byte that is not a constant")
    # ---- decoder: list context (semantic dispatch: the function is abstractly executed per header byte)
    from ..bytedispatch import Dispatch
    rls = ctx.repo.method(DEC, "ReadDecoder", "readListSize")
    lvar = params_of(rls)[0]
    ldisp = Dispatch(ctx.repo, dec, rls, lvar)
    w = where(DEC, "ReadDecoder.readListSize", rls.lineno)
    for k, N in sorted(table["list"].items(), key=lambda kv: str(kv[0])):
        if k is None:
            continue
        b = ldisp.run_value(k)
        if not b.accepts:
            ctx.violate("C01.tags", w, "list header %s" % k, "encoder emits list header byte %s (+int%s) but readListSize has no accepting branch for it" % (k, N))
            continue
        rN = b.first_int()
        ctx.check("C01.tags", rN == N, w, "list header %s" % k,
                  "list header %s is written with a %s-bit size but read with a %s-bit size" % (k, N, rN), "list header %s: int%s both ways" % (k, N))
    # isListTag agrees with the list headers the encoder emits
    ilt = dec.methods.get("isListTag")
    if ilt is not None:
        p = params_of(ilt)[0]
        vals = set()
        for t in range(256):
            r = eval_simple_function(ctx.repo, dec, ilt, [K(t)])
            a = alts(r) if r is not RAISES else None
            if a and a[0]:
                vals.add(t)
        want = {k for k in table["list"] if k is not None}
        ctx.check("C01.tags", want <= vals and not (vals & (set(table["bytes"]) | set(table["packed"]) | set(table["jid"]))),
                  where(DEC, "ReadDecoder.isListTag", ilt.lineno), "isListTag accepts %s" % sorted(vals),
                  "children lists are introduced by %s but isListTag accepts %s (a list would be taken for content or vice versa)" % (sorted(want), sorted(vals)),
                  "isListTag covers the encoder's list headers %s" % sorted(want))
    # ---- decoder: content context (nextTreeInternal) and string context (readString)
    nti = ctx.repo.method(DEC, "ReadDecoder", "nextTreeInternal")
    # the dispatch variable of the content alternatives is the one tested by isListTag / compared with 252
    cvar = None
    for n in ast.walk(nti):
        if isinstance(n, ast.Call) and is_self_attr(n.func, "isListTag") and n.args and isinstance(n.args[0], ast.Name):
            cvar = n.args[0].id
    rs = ctx.repo.method(DEC, "ReadDecoder", "readString")
    svar = params_of(rs)[0]
    contexts = [("nextTreeInternal", nti, cvar, ("bytes", "packed")), ("readString", rs, svar, ("bytes", "packed", "jid"))]
    for fname, fn, var, kinds in contexts:
        if var is None:
            ctx.undecided("C01.tags", where(DEC, "ReadDecoder." + fname, fn.lineno), fn, "content dispatch variable not found")
            continue
        try:
            disp = Dispatch(ctx.repo, dec, fn, var)
        except LookupError as x:
            ctx.undecided("C01.tags", where(DEC, "ReadDecoder." + fname, fn.lineno), fn, str(x))
            continue
        wh = where(DEC, "ReadDecoder." + fname, fn.lineno)
        for kind in kinds:
            for k, N in sorted(table[kind].items(), key=lambda kv: str(kv[0])):
                if k is None:
                    continue
                b = disp.run_value(k)
                if fname == "nextTreeInternal" and b.accepts and all(c.names[:1] == ["readString"] for c in b.cells if c.outcome == "ret"):
                    # handed on to readString: decided in the readString context - for binary content provided the
                    # conversions on the way (characters of the bytes, encoded again) are the identity on bytes
                    if kind == "bytes":
                        why = None
                        try:
                            sdisp = Dispatch(ctx.repo, dec, rs, svar)
                            for c in b.cells:
                                if c.outcome == "ret" and isinstance(c.value, tuple) and c.value[0] == "node":
                                    src = bytes_source(c.value[1].data, lambda kk: [cc.value for cc in sdisp.run_value(kk).cells if cc.outcome == "ret"])
                                    if src is None:
                                        why = "as a string that is not converted back to the same bytes"
                        except LookupError:
                            why = "as a string"
                        ctx.check("C01.tags", why is None, wh, "control byte %s in %s" % (k, fname),
                                  "encoder emits control byte %s (%s) as node content but %s reads it %s" % (k, kind, fname, why),
                                  "read through readString and encoded back byte for byte (chr / latin-1)")
                    continue
                if not b.accepts:
                    ctx.violate("C01.tags", wh, "control byte %s in %s" % (k, fname),
                                "encoder emits control byte %s (%s) but %s has no accepting branch for it" % (k, kind, fname) if not b.cells or not any(c.trace for c in b.cells)
                                else "branch for control byte %s only raises" % k)
                    continue
                if kind == "jid":
                    nrs = b.count("readString")
                    ctx.check("C01.tags", nrs == 2, wh, "control byte %s in %s" % (k, fname),
                              "a JID pair is written as two strings but %d string(s) are read back" % nrs, "JID pair: two strings both ways")
                    continue
                rN = b.first_int()
                if kind == "packed" and rN is None and b.count("readPacked8") == 1:
                    # the packed reader takes the header byte itself (C01.unpack decides what it does with it)
                    pk = [t for t in b.calls("readPacked8")]
                    ctx.check("C01.tags", pk[0][1][:1] == [str(k)] or pk[0][1][:1] == [repr(k)], wh, "control byte %s in %s" % (k, fname),
                              "packed kind %s is handed to the packed reader as %s" % (k, pk[0][1][:1]), "control byte %s: packed reader called with the kind" % k)
                    continue
                ctx.check("C01.tags", rN == N, wh, "control byte %s in %s" % (k, fname),
                          "control byte %s is followed by a %s-bit length when written but a %s-bit length is read in %s" % (k, N, rN, fname),
                          "control byte %s: int%s both ways" % (k, N))
    # absent JID user is written as token 0 and read back as None
    wj = ctx.repo.method(ENC, "WriteEncoder", "writeJid")
    zero = [n for n in ast.walk(wj) if isinstance(n, ast.Call) and is_self_attr(n.func, "writeToken") and n.args
            and isinstance(n.args[0], ast.Constant) and n.args[0].value == 0]
    r0 = eval_simple_function(ctx.repo, dec, rs, [K(0), UNK])
    ctx.check("C01.tags", bool(zero) and isinstance(r0, K) and r0.v is None, where(DEC, "ReadDecoder.readString", rs.lineno), "token 0 (absent JID user)",
              "encoder writes token 0 for an absent user but readString(0) does not return None", "token 0 <-> None")


def always_raises(stmts):
    has_return = any(isinstance(n, ast.Return) for s in stmts for n in ast.walk(s))
    return (not has_return) and any(isinstance(s, ast.Raise) for s in stmts)


# ------------------------------------------------------------------ C01.dbl
def secondary_size(ctx):
    """number of entries of the secondary dictionary (the finite domain of double-byte tokens)"""
    try:
        td = ctx.repo.cls(TOK, "TokenDictionary")
        init = td.methods["__init__"]
        ev = Evaluator(ctx.repo, td.module, td)
        for n in ast.walk(init):
            if isinstance(n, ast.Assign) and unparse(n.targets[0]) == "self.secondaryDictionary":
                a = alts(ev.ev(n.value))
                if a and len(a) == 1:
                    return len(a[0])
    except Exception:
        pass
    return None


def dbl_encode(repo, enc, ws, index):
    """abstract execution of writeString for a string the dictionary finds at (index, secondary=True):
    -> ('bytes', [ints]) | ('raise', text) | ('unknown', why)"""
    from ..absint import Interp, Obj, _Raise, Budget, NeedAtom
    def get_index(it, recv, args, kwargs, env, depth, e):
        return ("c", (index, True))
    it = Interp(repo, {}, {}, hooks={"ext:tokdict.getIndex": get_index})
    o = Obj(enc)
    o.fields["tokenDictionary"] = ("ext", "tokdict", [])
    out = ("list", [])
    params = params_of(ws)
    args = [("ext", "tag", [])] + [out if p == "data" else ("c", False) for p in params[1:]]
    try:
        it.call_function(ws, enc, ("obj", o), args, {}, depth=0)
    except _Raise as r:
        return ("raise", r.text)
    except (NeedAtom, Budget) as x:
        return ("unknown", "undecided test %s" % (x,))
    if all(v[0] == "c" and isinstance(v[1], int) for v in out[1]):
        return ("bytes", [v[1] for v in out[1]])
    return ("unknown", "non-constant output")


def dbl_decode(repo, dec, rs, data_bytes):
    """abstract execution of readString(first byte, rest) -> ('lookup', index, secondary) | ('raise', t) | ('unknown', why)"""
    from ..absint import Interp, Obj, _Raise, Budget, NeedAtom
    seen = []

    def get_token(it, recv, args, kwargs, env, depth, e):
        a = [x[1] if x[0] == "c" else None for x in args]
        sec = a[1] if len(a) > 1 else (kwargs.get("secondary", ("c", False))[1] if kwargs.get("secondary", ("c", False))[0] == "c" else None)
        seen.append((a[0] if a else None, sec))
        return ("c", "<token>")
    it = Interp(repo, {}, {}, hooks={"ext:tokdict.getToken": get_token})
    o = Obj(dec)
    o.fields["tokenDictionary"] = ("ext", "tokdict", [])
    data = ("list", [("c", b) for b in data_bytes[1:]])
    try:
        v = it.call_function(rs, dec, ("obj", o), [("c", data_bytes[0]), data], {}, depth=0)
    except _Raise as r:
        return ("raise", r.text)
    except (NeedAtom, Budget) as x:
        return ("unknown", "undecided test %s" % (x,))
    if len(seen) == 1 and v == ("c", "<token>") and not data[1]:
        return ("lookup", seen[0][0], seen[0][1])
    if not seen:
        return ("nolookup", show_val(v))
    return ("unknown", "lookups %s" % seen)


def show_val(v):
    from ..absint import show
    return show(v)[:60]


def rule_dbl(ctx):
    """double-byte (secondary dictionary) tokens over their whole finite domain: for every index i the encoder's
    writeString is abstractly executed with the dictionary answering (i, secondary) and the two bytes it emits are
    handed to the decoder's readString, which must look up exactly (i, secondary) - whatever arithmetic either side
    uses (//, divmod, shifts, tables)"""
    enc = ctx.repo.cls(ENC, "WriteEncoder")
    dec = ctx.repo.cls(DEC, "ReadDecoder")
    ws = ctx.repo.method(ENC, "WriteEncoder", "writeString")
    rs = ctx.repo.method(DEC, "ReadDecoder", "readString")
    w = where(ENC, "WriteEncoder.writeString", ws.lineno)
    wr = where(DEC, "ReadDecoder.readString", rs.lineno)
    n = secondary_size(ctx)
    if n is None:
        ctx.undecided("C01.dbl", w, ws, "size of the secondary dictionary not evaluated")
        return
    ctx.units["C01.secondary_entries"] = n
    bad_enc, bad_dec, unknown, pairs = [], [], [], {}
    for i in range(n):
        r = dbl_encode(ctx.repo, enc, ws, i)
        if r[0] == "unknown":
            unknown.append("index %d: %s" % (i, r[1]))
            break
        if r[0] == "raise":
            bad_enc.append("index %d is refused (%s)" % (i, r[1][:50]))
            continue
        if len(r[1]) != 2:
            bad_enc.append("index %d is written as %d byte(s) %s" % (i, len(r[1]), r[1][:4]))
            continue
        if tuple(r[1]) in pairs:
            bad_enc.append("indices %d and %d are both written as %s" % (pairs[tuple(r[1])], i, r[1]))
            continue
        pairs[tuple(r[1])] = i
        d = dbl_decode(ctx.repo, dec, rs, r[1])
        if d[0] == "unknown":
            unknown.append("bytes %s: %s" % (r[1], d[1]))
            break
        if d != ("lookup", i, True):
            bad_dec.append("index %d is written as %s and read back as %s" % (i, r[1], d))
    if unknown:
        ctx.undecided("C01.dbl", w, ws, "double-byte tokens could not be evaluated: " + unknown[0])
        return
    prefixes = sorted({p[0] for p in pairs})
    ctx.units["C01.double_byte_prefixes"] = prefixes
    ctx.check("C01.dbl", not bad_enc, w, "secondary dictionary indices 0..%d -> two bytes" % (n - 1),
              "; ".join(bad_enc[:3]) + (" (+%d more)" % (len(bad_enc) - 3) if len(bad_enc) > 3 else ""),
              "every secondary index is written as its own (prefix, offset) pair; prefixes %s" % prefixes)
    ctx.check("C01.dbl", not bad_dec, wr, "two bytes -> secondary dictionary index (all %d indices)" % n,
              "; ".join(bad_dec[:3]) + (" (+%d more)" % (len(bad_dec) - 3) if len(bad_dec) > 3 else ""),
              "readString looks up exactly the index the encoder wrote, in the secondary table")
    return prefixes


# ------------------------------------------------------------------ C01.pack
def rule_pack(ctx):
    enc = ctx.repo.cls(ENC, "WriteEncoder")
    dec = ctx.repo.cls(DEC, "ReadDecoder")
    pb = ctx.repo.method(ENC, "WriteEncoder", "packByte")
    ub = ctx.repo.method(DEC, "ReadDecoder", "unpackByte")
    kinds = sorted(ctx.units.get("C01.encoder_control_bytes", {}).get("packed", {"251": 8, "255": 8}))
    tables = {}
    for kind in [int(k) for k in kinds]:
        pack = {}
        for n in range(256):
            r = eval_simple_function(ctx.repo, enc, pb, [K(kind), K(n)])
            if r is RAISES:
                continue
            a = alts(r)
            if a is None:
                ctx.undecided("C01.pack", where(ENC, "WriteEncoder.packByte", pb.lineno), pb, "packByte(%d, %d) could not be evaluated" % (kind, n))
                return
            if a[0] != -1:
                pack[n] = a[0]
        unpack = {}
        for v in range(16):
            r = eval_simple_function(ctx.repo, dec, ub, [K(kind), K(v)])
            if r is RAISES:
                continue
            a = alts(r)
            if a is None:
                ctx.undecided("C01.pack", where(DEC, "ReadDecoder.unpackByte", ub.lineno), ub, "unpackByte(%d, %d) could not be evaluated" % (kind, v))
                return
            unpack[v] = a[0]
        bad = {n: (v, unpack.get(v)) for n, v in pack.items() if not (0 <= v <= 15) or unpack.get(v) != n}
        tables[kind] = (pack, unpack)
        w = where(ENC, "WriteEncoder.packByte", pb.lineno)
        ctx.check("C01.pack", not bad and len(pack) >= 10, w, "pack table %d (%d symbols)" % (kind, len(pack)),
                  "unpack(pack(c)) != c for %s" % {chr(n): x for n, x in list(bad.items())[:5]}, "unpack∘pack is the identity on %r" % "".join(chr(n) for n in sorted(pack)))
        if kind == 255:
            # the odd-length filler nibble 15 must not be a packable symbol and must be skipped by the reader
            ctx.check("C01.pack", 15 not in pack.values(), w, "filler nibble 15 (kind 255)",
                      "nibble value 15 encodes a symbol, so the odd-length filler is indistinguishable from data", "filler 15 is not a symbol")
    # (the header's bit layout is decided with the writer / reader executions of C01.unpack)
    return tables


# ------------------------------------------------------------------ C01.unpack
class _Undecided(Exception):
    pass


class PackedWalk:
    """Abstract execution of ReadDecoder.readPacked8 for one (kind, header byte): the kind and the header are concrete
    (both range over finite byte domains that are enumerated), the packed bytes stay symbolic.  Names are classified as
    BYTES (what readArray returned), NIB (the hexlified text), LEN (len(NIB) = 2 * count), CHAR (NIB[i]), VAL (the nibble
    value of CHAR); everything else is constant-folded.  The loop body is evaluated per (is-last-position, nibble value).
    Result: ('loop', {(last, v): 'skip' | ('unpack', v') | 'raw' | 'none'}) or ('slice', lo, hi, upper)."""

    def __init__(self, ctx, dec, fn, kind, hdr):
        from ..cfg import static_truth
        self.static_truth = static_truth
        self.ctx, self.dec, self.fn = ctx, dec, fn
        ps = [a.arg for a in fn.args.args][1:]
        if len(ps) != 2:
            raise _Undecided("readPacked8 signature changed: %s" % ps)
        self.kparam, self.dparam = ps
        self.kind, self.hdr = kind, hdr
        self.count = None
        self.env = {self.kparam: K(kind)}
        self.sym = {}
        self.upper = {}
        self.out_name = None
        self.result = None
        self.loop_table = None

    def ev(self, e, extra=None):
        env = dict(self.env)
        if extra:
            env.update(extra)
        return Evaluator(self.ctx.repo, self.dec.module, self.dec, env).ev(e)

    def truth(self, test, extra=None):
        t = self.static_truth(test)
        if t is not None:
            return t
        if isinstance(test, ast.BoolOp):
            vals = [self.truth(v, extra) for v in test.values]
            if isinstance(test.op, ast.And):
                return False if any(v is False for v in vals) else (True if all(v is True for v in vals) else None)
            return True if any(v is True for v in vals) else (False if all(v is False for v in vals) else None)
        if isinstance(test, ast.Compare) and len(test.ops) == 1 and isinstance(test.ops[0], (ast.Is, ast.IsNot)) and \
                isinstance(test.left, ast.Call) and isinstance(test.left.func, ast.Name) and test.left.func.id == "type":
            return None      # python2/3 element-type test: both arms are examined by the caller
        a = alts(self.ev(test, extra))
        if a is not None and len(a) == 1:
            return bool(a[0])
        return None

    def names(self, e):
        return {n.id for n in ast.walk(e) if isinstance(n, ast.Name)}

    def classify(self, e, loopvar=None):
        """symbolic class of an expression or None"""
        if isinstance(e, ast.IfExp):
            t = self.truth(e.test)
            if t is not None:
                return self.classify(e.body if t else e.orelse, loopvar)
            a, b = self.classify(e.body, loopvar), self.classify(e.orelse, loopvar)
            return a if a == b else None
        if isinstance(e, ast.Name):
            return self.sym.get(e.id)
        if isinstance(e, ast.Call):
            f = e.func
            fname = f.attr if isinstance(f, ast.Attribute) else (f.id if isinstance(f, ast.Name) else None)
            if fname == "readArray" and is_self_attr(f, "readArray"):
                c = alts(self.ev(e.args[0])) if e.args else None
                if not c or len(c) != 1:
                    raise _Undecided("byte count passed to readArray is not determined by the header: %s" % unparse(e))
                self.count = c[0]
                return "BYTES"
            if fname in ("bytearray", "bytes", "str") and len(e.args) == 1 and self.classify(e.args[0], loopvar) == "BYTES":
                return "BYTES"
            if fname == "hexlify" and len(e.args) == 1 and self.classify(e.args[0], loopvar) == "BYTES":
                return "NIBL"
            if fname in ("upper", "lower") and isinstance(f, ast.Attribute) and not e.args and self.classify(f.value, loopvar) in ("NIBL", "NIBU"):
                return "NIBU" if fname == "upper" else "NIBL"
            if fname == "len" and len(e.args) == 1 and self.classify(e.args[0], loopvar) in ("NIBL", "NIBU"):
                return "LEN"
            if fname == "chr" and len(e.args) == 1 and self.classify(e.args[0], loopvar) in ("CHARL", "CHARU"):
                return self.classify(e.args[0], loopvar)
            if fname == "ord" and len(e.args) == 1:
                a = e.args[0]
                if self.classify(a, loopvar) in ("CHARL", "CHARU"):
                    return self.classify(a, loopvar)
                # ord(binascii.unhexlify("0%s" % CHAR)) -> nibble value
                if isinstance(a, ast.Call) and getattr(a.func, "attr", None) == "unhexlify" and len(a.args) == 1:
                    b = a.args[0]
                    if isinstance(b, ast.BinOp) and isinstance(b.op, ast.Mod) and isinstance(b.left, ast.Constant) and b.left.value == "0%s" \
                            and self.classify(b.right, loopvar) in ("CHARL", "CHARU"):
                        return "VAL"
            if fname == "int" and len(e.args) == 2 and self.classify(e.args[0], loopvar) in ("CHARL", "CHARU") and alts(self.ev(e.args[1])) == [16]:
                return "VAL"
        if isinstance(e, ast.Subscript) and not isinstance(e.slice, ast.Slice):
            base = self.classify(e.value, loopvar)
            if base in ("NIBL", "NIBU") and isinstance(e.slice, ast.Name) and e.slice.id == loopvar:
                return "CHAR" + base[-1]
        return None

    # -- statements outside the loop
    def block(self, stmts):
        for s in stmts:
            r = self.stmt(s)
            if r == "return":
                return r
        return None

    def stmt(self, s):
        if isinstance(s, ast.Expr) and isinstance(s.value, ast.Constant):
            return None
        if isinstance(s, ast.Assign) and len(s.targets) == 1 and isinstance(s.targets[0], ast.Name):
            name, v = s.targets[0].id, s.value
            pre = self.ev(v)
            c = self.classify(v)
            sl = self.slice_of(v)
            self.sym.pop(name, None)
            self.env.pop(name, None)
            if isinstance(v, ast.Call) and is_self_attr(v.func, "readInt8") and self.count is None and "HDR" not in self.sym.values():
                self.env[name] = K(self.hdr)
                self.sym[name] = "HDR"
                return None
            if isinstance(v, ast.List) and not v.elts:
                self.sym[name] = "OUT"
                self.out_name = name
                return None
            if c == "LEN":
                self.env[name] = K(2 * self.count)
                return None
            if c in ("BYTES", "NIBL", "NIBU"):
                self.sym[name] = c
                return None
            if sl is not None:
                self.sym[name] = "OUT"
                self.out_name = name
                self.result = ("slice",) + sl
                return None
            val = pre
            if alts(val) is None:
                if self.names(v) & (set(self.sym) - {k for k, c in self.sym.items() if c == "HDR"}):
                    raise _Undecided("unrecognised use of the packed bytes: %s" % norm(s))
                self.sym[name] = "UNK"
            else:
                self.env[name] = val
            return None
        if isinstance(s, ast.If):
            t = self.truth(s.test)
            if t is None:
                raise _Undecided("branch condition not decided by (kind, header): %s" % unparse(s.test))
            return self.block(s.body if t else s.orelse)
        if isinstance(s, ast.For):
            self.loop(s)
            return None
        if isinstance(s, ast.Return):
            if isinstance(s.value, ast.Name) and self.sym.get(s.value.id) == "OUT":
                if self.result is None:
                    self.result = ("loop", self.loop_table or {})
                return "return"
            sl = self.slice_of(s.value) if s.value is not None else None
            if sl is not None:
                self.result = ("slice",) + sl
                return "return"
            raise _Undecided("returned value is not the output list: %s" % norm(s))
        raise _Undecided("statement kind not modelled: %s" % norm(s))

    def slice_of(self, e):
        """e is list(NIB[lo:hi]) / map(ord, list(NIB[lo:hi])) / NIB[lo:hi] (possibly under a version IfExp) -> (lo, hi, upper)"""
        if isinstance(e, ast.IfExp):
            t = self.truth(e.test)
            if t is None:
                return None
            return self.slice_of(e.body if t else e.orelse)
        if isinstance(e, ast.Call) and isinstance(e.func, ast.Name) and e.func.id in ("list", "bytearray", "tuple") and len(e.args) == 1:
            return self.slice_of(e.args[0])
        if isinstance(e, ast.Call) and isinstance(e.func, ast.Name) and e.func.id == "map" and len(e.args) == 2 and unparse(e.args[0]) == "ord":
            return self.slice_of(e.args[1])
        if isinstance(e, ast.Subscript) and isinstance(e.slice, ast.Slice) and self.classify(e.value) in ("NIBL", "NIBU") and e.slice.step is None:
            lo = alts(self.ev(e.slice.lower)) if e.slice.lower is not None else [None]
            hi = alts(self.ev(e.slice.upper)) if e.slice.upper is not None else [None]
            if not lo or not hi or len(lo) != 1 or len(hi) != 1:
                raise _Undecided("slice bounds not constant: %s" % unparse(e))
            return (lo[0], hi[0], self.classify(e.value) == "NIBU")
        return None

    # -- the per-nibble loop
    def loop(self, s):
        it = s.iter
        ok = isinstance(s.target, ast.Name) and isinstance(it, ast.Call) and isinstance(it.func, ast.Name) and it.func.id == "range"
        if ok:
            bounds = [alts(self.ev(a)) for a in it.args]
            ok = all(b and len(b) == 1 for b in bounds)
        if not ok or self.count is None:
            raise _Undecided("loop is not `for i in range(len(hex text))`: %s" % unparse(it))
        r = range(*[b[0] for b in bounds])
        D = 2 * self.count
        if (r.start, r.stop, r.step) != (0, D, 1):
            self.loop_table = {"range": (r.start, r.stop, r.step)}
            return
        lv = s.target.id
        table = {}
        positions = {True: [D - 1], False: [i for i in sorted({0, 1, D - 2}) if 0 <= i < D - 1]}
        for last, idxs in positions.items():
            for v in range(16):
                outs = set()
                for i in idxs:
                    outs.add(self.body_once(s.body, lv, i, v))
                if len(outs) > 1:
                    raise _Undecided("loop body treats non-final positions differently: %s" % sorted(map(str, outs)))
                if outs:
                    table[(last, v)] = outs.pop()
        self.loop_table = table

    def body_once(self, stmts, lv, i, v):
        saved_env, saved_sym = dict(self.env), dict(self.sym)
        self.env[lv] = K(i)
        emitted = []
        try:
            self.loop_block(stmts, lv, v, emitted)
        finally:
            self.env, self.sym = saved_env, saved_sym
        if not emitted:
            return "none"
        if len(emitted) > 1:
            raise _Undecided("more than one output per nibble")
        return emitted[0]

    def loop_block(self, stmts, lv, v, emitted):
        for s in stmts:
            if isinstance(s, ast.Assign) and len(s.targets) == 1 and isinstance(s.targets[0], ast.Name):
                name = s.targets[0].id
                c = self.classify(s.value, lv)
                val = self.ev(s.value)
                self.sym.pop(name, None)
                self.env.pop(name, None)
                if c in ("CHARL", "CHARU"):
                    self.sym[name] = c
                elif c == "VAL":
                    self.env[name] = K(v)
                else:
                    if alts(val) is None:
                        raise _Undecided("loop assignment not modelled: %s" % norm(s))
                    self.env[name] = val
            elif isinstance(s, ast.If):
                t = self.truth(s.test)
                if t is None:
                    raise _Undecided("loop condition not decided by (kind, position, nibble): %s" % unparse(s.test))
                r = self.loop_block(s.body if t else s.orelse, lv, v, emitted)
                if r:
                    return r
            elif isinstance(s, ast.Continue):
                if not emitted:
                    emitted.append("skip")
                return "continue"
            elif isinstance(s, ast.Expr) and isinstance(s.value, ast.Call) and isinstance(s.value.func, ast.Attribute) and s.value.func.attr == "append" \
                    and isinstance(s.value.func.value, ast.Name) and self.sym.get(s.value.func.value.id) == "OUT" and len(s.value.args) == 1:
                a = s.value.args[0]
                c = self.classify(a, lv)
                if c in ("CHARL", "CHARU"):
                    emitted.append("raw" + c[-1])
                elif isinstance(a, ast.Call) and is_self_attr(a.func, "unpackByte") and len(a.args) == 2:
                    kk, vv = alts(self.ev(a.args[0])), alts(self.ev(a.args[1]))
                    if not kk or not vv or len(kk) != 1 or len(vv) != 1:
                        raise _Undecided("unpackByte arguments not determined: %s" % unparse(a))
                    emitted.append(("unpack", kk[0], vv[0]))
                else:
                    raise _Undecided("appended value not modelled: %s" % unparse(a))
            elif isinstance(s, ast.Expr) and isinstance(s.value, ast.Constant):
                pass
            else:
                raise _Undecided("loop statement not modelled: %s" % norm(s))
        return None

    def run(self):
        self.block(self.fn.body)
        if self.result is None:
            raise _Undecided("no return of the output list found")
        return self.result


def norm(s):
    from ..repo import norm_stmt
    return norm_stmt(s)


_TERM_OPS = {"BitOr": lambda a, b: a | b, "BitAnd": lambda a, b: a & b, "LShift": lambda a, b: a << b, "RShift": lambda a, b: a >> b,
             "Add": lambda a, b: a + b, "Sub": lambda a, b: a - b, "Mult": lambda a, b: a * b, "Mod": lambda a, b: a % b,
             "FloorDiv": lambda a, b: a // b, "BitXor": lambda a, b: a ^ b}


def term_leaves(t, out=None):
    out = set() if out is None else out
    if t[0] == "ext":
        out.add(t[1])
    elif t[0] == "fn":
        for x in t[2]:
            term_leaves(x, out)
    return out


def term_eval(t, env):
    """value of an arithmetic term the interpreter built over opaque leaves; None when it is not such a term"""
    if t[0] == "c" and isinstance(t[1], int):
        return t[1]
    if t[0] == "ext":
        return env.get(t[1])
    if t[0] == "fn" and t[1] in _TERM_OPS and len(t[2]) == 2:
        a, b = term_eval(t[2][0], env), term_eval(t[2][1], env)
        if a is None or b is None:
            return None
        try:
            return _TERM_OPS[t[1]](a, b)
        except Exception:
            return None
    return None


def run_packer(repo, enc, tp, kind, n, refuse_at=None):
    """abstract execution of tryPackAndWriteHeader(kind, [b0..b(n-1)], data) with packByte answering an opaque nibble
    per position (or -1 at `refuse_at`) -> ('ret', value, data items) | ('raise', text) | ('unknown', why)"""
    from ..absint import Interp, _Raise, Budget, NeedAtom, DomainGrew

    def pack(it, fn, owner, self_val, args, kwargs):
        b = args[1] if len(args) > 1 else ("ext", "b?", [])
        b = it.force(b) if hasattr(it, "force") else b
        if b[0] != "ext" or not b[1].startswith("b"):
            return ("fn", "packByte()", list(args))
        i = int(b[1][1:])
        if refuse_at is not None and i == refuse_at:
            return ("c", -1)
        return ("ext", "nib%d" % i, [])
    it = Interp(repo, {}, {}, hooks={"fn:packByte": pack})
    try:
        o = it.construct(enc, [("ext", "tokdict", [])], {}, {"@module": enc.module, "@owner": None}, 0, None)
        data = ("list", [])
        hd = ("list", [("ext", "b%d" % i, []) for i in range(n)])
        ps = params_of(tp)
        args = [("c", kind), hd, data][:len(ps)]
        v = it.call_function(tp, enc, o, args, {}, depth=0)
    except _Raise as r:
        return ("raise", r.text)
    except (NeedAtom, Budget, DomainGrew) as x:
        return ("unknown", "undecided test %s" % (x,))
    return ("ret", v, list(data[1]))


def packer_obligation(res, kind, n):
    """None when the writer's output for n symbols is the format's; else what differs"""
    if res[0] != "ret":
        return "%s: %s" % (res[0], res[1])
    v, data = res[1], res[2]
    nb = (n + 1) // 2
    if n == 0 or n >= 128:
        if v != ("c", None):
            return "a string of %d symbols must not be packed (the header's byte count has 7 bits); the writer returns %s" % (n, str(v)[:40])
        return "the writer declines but has already written %d byte(s) to the frame" % len(data) if data else None
    if v == ("c", None):
        return "a packable string of %d symbols is not packed" % n
    if v[0] != "list" or (len(v) > 2 and v[2]):
        return "the packed bytes are not a closed list (%s)" % str(v)[:40]
    want_hdr = ((n % 2) << 7) | nb
    hdr = [term_eval(x, {}) for x in data]
    if hdr != [kind, want_hdr]:
        return "for %d symbols the writer emits the header %s; the format wants [kind %d, flag<<7|count = 0x%02x]" % (n, [h if h is not None else "?" for h in hdr], kind, want_hdr)
    if len(v[1]) != nb:
        return "%d symbols are packed into %d byte(s), the header announces %d" % (n, len(v[1]), nb)
    for j, t in enumerate(v[1]):
        hi, lo = "nib%d" % (2 * j), "nib%d" % (2 * j + 1)
        last_odd = (n % 2 == 1 and j == nb - 1)
        allowed = {hi} if last_odd else {hi, lo}
        extra = term_leaves(t) - allowed
        if extra:
            return "packed byte %d depends on %s (symbol i belongs in byte i//2)" % (j, sorted(extra))
        for a in range(16):
            for b in ([15] if last_odd else range(16)):
                got = term_eval(t, {hi: a, lo: b})
                if got is None:
                    return "packed byte %d is not an arithmetic term over the two nibbles (%s)" % (j, str(t)[:60])
                if got != ((a << 4) | b):
                    what = "the filler nibble 15 in the low half" if last_odd else "nibble %d in the low half" % (2 * j + 1)
                    return "packed byte %d of %d symbols is 0x%02x for nibbles (%d, %d); the reader expects symbol %d in the high half and %s (0x%02x)" % (j, n, got & 0xFFFF, a, b, 2 * j, what, (a << 4) | b)
    return None


def rule_unpack(ctx, tables):
    """packed strings, writer and reader.  Writer: tryPackAndWriteHeader is abstractly executed for 0, 1..7, 126, 127, 128
    symbols with packByte answering one opaque nibble per position: the header must be [kind, (n%2)<<7 | ceil(n/2)] and
    byte j must equal nibble(2j)<<4 | nibble(2j+1) - 15 as the filler of an odd length - for all 256 nibble pairs; a symbol
    packByte refuses (first / middle / last position) makes the writer decline without having written anything.
    Reader: for every kind and every header byte the reader emits exactly the symbols the writer packed."""
    enc = ctx.repo.cls(ENC, "WriteEncoder")
    dec = ctx.repo.cls(DEC, "ReadDecoder")
    tp = ctx.repo.method(ENC, "WriteEncoder", "tryPackAndWriteHeader")
    rp = ctx.repo.method(DEC, "ReadDecoder", "readPacked8")
    wenc = where(ENC, "WriteEncoder.tryPackAndWriteHeader", tp.lineno)
    sizes = [0, 1, 2, 3, 4, 5, 6, 7, 126, 127, 128, 129, 255, 256]
    for kind in sorted(tables):
        bad = None
        und = None
        for n in sizes:
            r = run_packer(ctx.repo, enc, tp, kind, n)
            if r[0] == "unknown":
                und = "%d symbols: %s" % (n, r[1])
                break
            bad = packer_obligation(r, kind, n)
            if bad:
                break
        if und:
            ctx.undecided("C01.unpack", wenc, "writer layout, kind %d" % kind, und)
        else:
            ctx.check("C01.unpack", not bad, wenc, "writer layout, kind %d" % kind, bad or "",
                      "header [kind, flag<<7|count] and byte j = nibble 2j << 4 | nibble 2j+1 (filler 15) for %d sizes x 256 nibble pairs" % len(sizes))
        # a symbol outside the alphabet anywhere in the string: not packed, nothing written
        bad = und = None
        for n, at in ((1, 0), (2, 1), (5, 0), (5, 2), (5, 4), (6, 5)):
            r = run_packer(ctx.repo, enc, tp, kind, n, refuse_at=at)
            if r[0] == "unknown":
                und = "%d symbols, position %d refused: %s" % (n, at, r[1])
                break
            if r[0] == "raise":
                bad = "a string with an unpackable symbol at position %d of %d raises %s" % (at, n, r[1][:50])
                break
            if r[1] != ("c", None) or r[2]:
                bad = "a string whose symbol %d of %d is outside the alphabet is %s" % (at, n, "packed anyway" if r[1] != ("c", None) else "declined after %d byte(s) were written to the frame" % len(r[2]))
                break
        if und:
            ctx.undecided("C01.unpack", wenc, "unpackable symbol, kind %d" % kind, und)
        else:
            ctx.check("C01.unpack", not bad, wenc, "unpackable symbol, kind %d" % kind, bad or "", "declined with nothing written (6 positions)")
    # -- reader, abstractly executed per (kind, header byte)
    counts = list(range(1, 128)) if ctx.tier == "thorough" else [1, 2, 3, 64, 127]
    ctx.units["C01.unpack_headers"] = {"kinds": sorted(tables), "counts": len(counts), "flags": 2}
    HEXU, HEXL = "0123456789ABCDEF", "0123456789abcdef"
    for kind in sorted(tables):
        pack, unpack = tables[kind]
        symbols = {v: unpack.get(v) for v in sorted(set(pack.values()))}
        for flag in (0, 1):
            w = where(DEC, "ReadDecoder.readPacked8", rp.lineno)
            label = "kind %d, odd-length flag %d" % (kind, flag)
            bad = None
            # decided by executing the reader on concrete packed strings (every string the writer can emit for the
            # header bytes tried); the walk over the source below is the fallback when the execution cannot be followed
            ex = reader_exec(ctx, dec, rp, kind, flag, pack, [1, 2, 3] if ctx.tier != "thorough" else [1, 2, 3, 4, 64, 127])
            if ex[0] == "decided":
                ctx.check("C01.unpack", ex[1] is None, w, label, ex[1] or "", "the reader returns exactly the symbols the writer packed (%d packed strings executed)" % ex[2])
                continue
            try:
                for c in counts:
                    res = PackedWalk(ctx, dec, rp, kind, (flag << 7) | c).run()
                    bad = unpack_obligation(res, kind, flag, c, symbols, HEXU, HEXL)
                    if bad:
                        bad = "%s (header byte 0x%02x)" % (bad, (flag << 7) | c)
                        break
            except _Undecided as e:
                ctx.undecided("C01.unpack", w, label, str(e))
                continue
            ctx.check("C01.unpack", not bad, w, label, bad or "", "every data nibble is mapped through the kind's unpack table, the filler is dropped iff the flag is set (%d header bytes)" % len(counts))


def reader_exec(ctx, dec, rp, kind, flag, pack, counts):
    """readPacked8 executed on concrete frames: for `count` packed bytes, every pair of nibbles the writer can emit in the
    last byte (the filler 15 as the low nibble iff the flag is set) behind a fixed prefix of data nibbles
    -> ('decided', problem or None, number of frames) | ('unknown', why)"""
    from ..consts import run_const
    inv = {}
    for n, v in pack.items():
        inv.setdefault(v, n)
    nibs = sorted(inv)
    if not nibs:
        return ("unknown", "no symbols")
    nframes = 0
    for c in counts:
        prefix = [nibs[(3 * i + 1) % len(nibs)] for i in range(2 * (c - 1))]
        lasts = [(a, 15) for a in nibs] if flag else [(a, b) for a in nibs for b in nibs]
        if c > 3:
            lasts = lasts[::7]
        for a, b in lasts:
            body = prefix + [a, b]
            frame = [(flag << 7) | c] + [(body[2 * i] << 4) | body[2 * i + 1] for i in range(c)]
            r = run_const(ctx.repo, dec, rp, [kind, list(frame)])      # (the reader consumes the list it is given)
            nframes += 1
            if r[0] == "unknown":
                return ("unknown", r[1])
            want = [inv[x] for x in (body[:-1] if flag else body)]
            if r[0] == "raise":
                return ("decided", "the packed string %s (header 0x%02x, kind %d) makes the reader raise %s" % (bytes(frame[1:]).hex(), frame[0], kind, r[1][:60]), nframes)
            got = r[1]
            if isinstance(got, (bytes, bytearray)):
                got = list(got)
            if isinstance(got, str):
                got = [ord(x) for x in got]
            if isinstance(got, list):
                got = [ord(x) if isinstance(x, str) and len(x) == 1 else x for x in got]
            if got != want:
                return ("decided", "the packed string %s (header 0x%02x, kind %d) holds %r but the reader returns %r" % (
                    bytes(frame[1:]).hex(), frame[0], kind, "".join(map(chr, want)), "".join(map(chr, got)) if isinstance(got, list) and all(isinstance(x, int) and 0 <= x < 256 for x in got) else got), nframes)
    return ("decided", None, nframes)


def unpack_obligation(res, kind, flag, count, symbols, HEXU, HEXL):
    D = 2 * count
    if res[0] == "slice":
        lo, hi, upper = res[1:]
        hexa = HEXU if upper else HEXL
        start = 0 if lo is None else (lo if lo >= 0 else max(D + lo, 0))
        stop = D if hi is None else (hi if hi >= 0 else max(D + hi, 0))
        want_stop = D - 1 if flag else D
        if start != 0 or stop != want_stop:
            return "reader returns hex text [%s:%s] of %d nibbles but the writer packed %d symbols" % (lo, hi, D, want_stop)
        wrong = {v: (hexa[v], chr(c) if c is not None else None) for v, c in symbols.items() if c is None or hexa[v] != chr(c)}
        if wrong:
            v = sorted(wrong)[0]
            return "reader returns the raw hex text for kind %d, whose alphabet differs: nibble %d is %r but the hex digit is %r" % (kind, v, wrong[v][1], wrong[v][0])
        return None
    table = res[1]
    if "range" in table:
        return "reader loops over range%s instead of every nibble" % (table["range"],)
    for (last, v), out in sorted(table.items(), key=str):
        is_filler = bool(flag) and last and v == 15
        is_symbol = v in symbols and not (bool(flag) and last)
        if is_filler:
            if out != "skip" and out != "none":
                return "the odd-length filler nibble is not dropped (emitted as %s)" % (out,)
            continue
        if not is_symbol:
            continue
        want = symbols[v]
        if want is None:
            return "nibble %d is written by the packer but has no unpack entry" % v
        if out in ("skip", "none"):
            return "data nibble %d (%r) at the %s position is dropped" % (v, chr(want), "last" if last else "a non-final")
        if isinstance(out, tuple):
            if out[1] != kind or out[2] != v:
                return "data nibble %d is unpacked as unpackByte(%s, %s)" % (v, out[1], out[2])
        elif out.startswith("raw"):
            hexa = HEXU if out.endswith("U") else HEXL
            if hexa[v] != chr(want):
                return "data nibble %d (%r) is emitted as the hex digit %r" % (v, chr(want), hexa[v])
    return None



# ------------------------------------------------------------------ C01.count
def canon_cond(e):
    """(kind, subject text, polarity) for the guard shapes the codec uses; polarity True = 'item present'"""
    pol = True
    while isinstance(e, ast.UnaryOp) and isinstance(e.op, ast.Not):
        pol = not pol
        e = e.operand
    if isinstance(e, ast.Compare) and len(e.ops) == 1 and isinstance(e.comparators[0], ast.Constant) and e.comparators[0].value is None:
        if isinstance(e.ops[0], ast.Is):
            return ("notnone", unparse(e.left), not pol)
        if isinstance(e.ops[0], ast.IsNot):
            return ("notnone", unparse(e.left), pol)
    if isinstance(e, ast.Call):
        return ("call", unparse(e), pol)
    return ("truth", unparse(e), pol)


def count_scenarios(ctx):
    """abstract execution of WriteEncoder.writeInternal on concrete abstract nodes (attributes None / 0..2 entries, content
    none / bytes / children): the number handed to writeListStart against the items actually written.
    -> list of (label, announced, written, problem) or None when the execution cannot be followed"""
    from ..absint import Interp, _Raise, Budget, NeedAtom, DomainGrew, C_NONE, Obj, _Return
    repo = ctx.repo
    enc = repo.cls(ENC, "WriteEncoder")
    ptn = repo.cls(PTN, "ProtocolTreeNode")
    fn = repo.method(ENC, "WriteEncoder", "writeInternal")
    out = []
    for nattr in (None, 0, 1, 2):
        for content in ("none", "data", "empty data", "children"):
            calls = []

            def rec(name):
                def h(itp, recv, a, k, env, d, e):
                    calls.append((name, a))
                    return C_NONE
                return h
            def raw_node(itp, c, args, kwargs, env, depth, e):
                # the node class itself, interpreted (not the interpreter's stanza model): its constructor decides what
                # `attributes`, `children` and `hasChildren()` are for the encoder
                if c is not ptn:
                    return None
                ob = Obj(c)
                k, init = repo.find_method(c, "__init__")
                try:
                    itp.call_function(init, k, ("obj", ob), args, kwargs, depth=depth + 1)
                except _Return:
                    pass
                return ("obj", ob)
            hooks = {"method:writeString": rec("item"), "method:writeBytes": rec("item"), "method:writeList": rec("item"),
                     "method:writeListStart": rec("start"), "method:writeInternal": rec("node"), "construct": raw_node}
            it = Interp(repo, {}, {}, hooks=hooks)
            label = "attributes %s, content %s" % ("omitted" if nattr is None else nattr, content)
            try:
                o = it.construct(enc, [("ext", "tokdict", [])], {}, {"@module": enc.module, "@owner": None}, 0, None)
                attrs = C_NONE if nattr is None else ("dict", dict(("k%d" % i, ("c", "v%d" % i)) for i in range(nattr)))
                child = it.construct(ptn, [("c", "c")], {}, {"@module": ptn.module, "@owner": None}, 0, None)
                kids = ("list", [child]) if content == "children" else C_NONE
                data = ("c", b"xy") if content == "data" else ("c", b"") if content == "empty data" else C_NONE
                node = it.construct(ptn, [("c", "t"), attrs, kids, data], {}, {"@module": ptn.module, "@owner": None}, 0, None)
                it.call_function(fn, enc, o, [node, ("list", [])][:len(params_of(fn))], {}, depth=0)
            except _Raise as r:
                out.append((label, None, None, "raises %s" % r.text[:80]))
                continue
            except (NeedAtom, Budget, DomainGrew, LookupError, TypeError, KeyError, AttributeError) as x:
                if os.environ.get('SA_DEBUG'):
                    raise
                return None
            def size_of(a):
                return a[0][1] if a and a[0][0] == "c" and isinstance(a[0][1], int) else None
            if not calls or calls[0][0] != "start" or size_of(calls[0][1]) is None:
                if os.environ.get('SA_DEBUG'):
                    raise LookupError("%s: %s" % (label, calls))
                return None
            announced = size_of(calls[0][1])
            written, i, prob = 0, 1, None
            while i < len(calls):
                name, a = calls[i]
                i += 1
                if name == "item":
                    written += 1
                elif name == "start":              # a child list: its header and that many nodes are one item
                    m = size_of(a)
                    j = i
                    while j < len(calls) and calls[j][0] == "node":
                        j += 1
                    if m is None:
                        return None
                    if j - i != m:
                        prob = "the child list announces %d node(s) and %d follow" % (m, j - i)
                    written += 1
                    i = j
                else:
                    prob = "a child node is written outside a child list"
            want = 1 + 2 * (nattr or 0) + (0 if content == "none" else 1)
            if prob is not None:
                pass
            elif announced != written:
                prob = "the list header announces %d item(s) but %d are written" % (announced, written)
            elif written != want:
                prob = "%d item(s) written, the format wants %d (tag, key and value per attribute, one content item)" % (written, want)
            out.append((label, announced, written, prob))
    return out


def rule_count(ctx):
    """decided by abstract execution (count_scenarios); the reading of the source's shape below is the fallback"""
    fn = ctx.repo.method(ENC, "WriteEncoder", "writeInternal")
    w = where(ENC, "WriteEncoder.writeInternal", fn.lineno)
    try:
        sc = count_scenarios(ctx)
    except Exception:       # noqa: the structural reading decides instead
        sc = None
    if sc is None:
        return rule_count_structural(ctx)
    for label, announced, written, prob in sc:
        ctx.check("C01.count", prob is None, w, "node with " + label, prob or "", "header announces %s item(s), %s written" % (announced, written))


def rule_count_structural(ctx):
    """the node's list header announces exactly the items that are written: every optional item (content, child list) is
    counted under the same condition under which it is written; attributes count two items each and are written as two"""
    fn = ctx.repo.method(ENC, "WriteEncoder", "writeInternal")
    w = where(ENC, "WriteEncoder.writeInternal", fn.lineno)
    count_stmt = None
    for st in fn.body:
        if isinstance(st, ast.Assign) and isinstance(st.targets[0], ast.Name):
            for c in ast.walk(fn):
                if isinstance(c, ast.Call) and is_self_attr(c.func, "writeListStart") and c.args and isinstance(c.args[0], ast.Name) and c.args[0].id == st.targets[0].id:
                    count_stmt = st
    if count_stmt is None:
        ctx.undecided("C01.count", w, fn, "the list-size computation handed to writeListStart was not found")
        return

    def terms(e):
        if isinstance(e, ast.BinOp) and isinstance(e.op, ast.Add):
            return terms(e.left) + terms(e.right)
        return [e]
    counted = {}     # canonical condition -> the term
    const = 0
    attr_term = None
    for t in terms(count_stmt.value):
        if isinstance(t, ast.Constant) and isinstance(t.value, int):
            const += t.value
        elif isinstance(t, ast.IfExp) and isinstance(t.body, ast.Constant) and isinstance(t.orelse, ast.Constant) and {t.body.value, t.orelse.value} == {0, 1}:
            k, subj, pol = canon_cond(t.test)
            present_when = pol if t.body.value == 1 else not pol
            counted[(k, subj, present_when)] = t
        elif isinstance(t, ast.IfExp) and isinstance(t.body, ast.Constant) and t.body.value == 0:
            attr_term = t
        else:
            ctx.undecided("C01.count", w, count_stmt, "term of the list size not modelled: %s" % unparse(t))
            return
    ctx.check("C01.count", const == 1, w, "tag counted once", "the tag must count as exactly one list item (constant part is %d)" % const, "one item for the tag")
    # attributes: 2 per attribute, written as key + value
    okattr = False
    if attr_term is not None:
        k, subj, pol = canon_cond(attr_term.test)
        o = attr_term.orelse
        two = isinstance(o, ast.BinOp) and isinstance(o.op, ast.Mult) and {unparse(o.left), unparse(o.right)} == {"2", "len(%s)" % subj}
        wa = ctx.repo.method(ENC, "WriteEncoder", "writeAttributes")
        loops = [n for n in ast.walk(wa) if isinstance(n, ast.For)]
        nwrites = len([c for l in loops for c in ast.walk(l) if isinstance(c, ast.Call) and is_self_attr(c.func, "writeString")]) if len(loops) == 1 else None
        guard = [n for n in ast.walk(wa) if isinstance(n, ast.If)]
        gok = len(guard) == 1 and canon_cond(guard[0].test)[0] == "notnone" and canon_cond(guard[0].test)[2] is True
        okattr = k == "notnone" and pol is False and two and nwrites == 2 and gok
    ctx.check("C01.count", okattr, w, "attributes: two items each", "attributes must be counted as 2 * len and written as key and value when present", "2 per attribute, key + value written")
    # optional items
    written = {}
    for st in fn.body:
        if isinstance(st, ast.If) and any(isinstance(c, ast.Call) and is_self_attr(c.func) and c.func.attr.startswith("write") for c in ast.walk(st)):
            k, subj, pol = canon_cond(st.test)
            written[(k, subj, pol)] = st
    for key, t in counted.items():
        subj = key[1]
        match = key in written
        near = [kk for kk in written if kk[1] == subj or subj in kk[1] or kk[1] in subj]
        ctx.check("C01.count", match, w, "counted: %s" % unparse(t),
                  "the list header counts an item when %s%s, but it is written when %s: for the inputs on which the two differ the frame announces an item that is never written (or writes one it did not announce)" %
                  ("" if key[2] else "not ", "%s %s" % (subj, "is not None" if key[0] == "notnone" else "is true"),
                   "; ".join("%s%s (%s)" % ("" if kk[2] else "not ", kk[1], "is not None" if kk[0] == "notnone" else "truthiness") for kk in near) or "never"),
                  "counted and written under the same condition")
    for key, st in written.items():
        if key not in counted and not any(kk[1] == key[1] for kk in counted):
            ctx.violate("C01.count", w, st, "an item is written under %s but never counted in the list header" % unparse(st.test))


# ------------------------------------------------------------------ C01.str / C01.node / C01.layer
LATIN = {"latin-1", "latin1", "latin_1", "iso-8859-1", "iso8859-1", "l1"}


def rule_str(ctx):
    """strings are one byte per character in both directions: the writer turns a str into ord(c) per character (or a
    latin-1 encode), the reader turns bytes into chr(b) per byte (or a latin-1 decode); any other charset on one side
    (utf-8: two bytes for U+0080..U+00FF) makes the two sides disagree about what a string is"""
    n = 0
    for rel, cn in ((ENC, "WriteEncoder"), (DEC, "ReadDecoder")):
        cls = ctx.repo.cls(rel, cn)
        for name, fn in sorted(cls.methods.items()):
            for c in ast.walk(fn):
                if isinstance(c, ast.Call) and isinstance(c.func, ast.Attribute) and c.func.attr in ("encode", "decode"):
                    cs = None
                    if c.args and isinstance(c.args[0], ast.Constant) and isinstance(c.args[0].value, str):
                        cs = c.args[0].value
                    elif not c.args and not c.keywords:
                        cs = "utf-8"      # the default
                    else:
                        continue
                    # encoding a constant ASCII literal is charset independent
                    if isinstance(c.func.value, ast.Constant) and isinstance(c.func.value.value, str) and all(ord(ch) < 128 for ch in c.func.value.value):
                        continue
                    n += 1
                    ctx.check("C01.str", cs.lower() in LATIN, where(rel, "%s.%s" % (cn, name), c.lineno), c,
                              "a string is converted with charset %r here while the other direction maps one character to one byte (ord / chr / latin-1): characters U+0080..U+00FF do not survive the round trip" % cs,
                              "latin-1: one byte per character")
    es = ctx.repo.method(ENC, "WriteEncoder", "encodeString")
    per_char = any(isinstance(c, ast.Call) and isinstance(c.func, ast.Name) and c.func.id == "ord" for c in ast.walk(es)) or \
        any(isinstance(c, ast.Call) and isinstance(c.func, ast.Attribute) and c.func.attr == "encode" and c.args and isinstance(c.args[0], ast.Constant) and str(c.args[0].value).lower() in LATIN for c in ast.walk(es))
    ctx.check("C01.str", per_char, where(ENC, "WriteEncoder.encodeString", es.lineno), "str -> one byte per character", "encodeString must map each character of a str to one byte (ord(c) / latin-1)", "ord(c) per character")
    ctx.units["C01.charset_sites"] = n


def rule_node(ctx):
    """the tree node keeps what it is given: attributes (also empty-string values), children and data reach the fields
    unchanged - by abstract execution of ProtocolTreeNode.__init__ on symbolic arguments, one run per cell"""
    from ..absint import Interp, enumerate_cells, Budget, _Raise, show
    repo = ctx.repo
    cls = repo.cls(PTN, "ProtocolTreeNode")
    init = cls.methods["__init__"]
    w = where(PTN, "ProtocolTreeNode.__init__", init.lineno)
    A1, A2 = ("atom", ("A", (), "k1")), ("atom", ("A", (), "k2"))

    def run(cell, domains):
        from ..absint import Obj
        it = Interp(repo, cell, domains, hooks={})
        o = Obj(cls)
        res = {"raised": None}
        try:
            it.call_function(init, cls, ("obj", o), [("c", "tag"), ("dict", {"k1": A1, "k2": A2}), ("list", []), ("ext", "databytes", [])], {}, depth=0)
        except _Raise as r:
            res["raised"] = r.text
        res["fields"] = dict(o.fields)
        return res, it
    try:
        cells = enumerate_cells(run, {}, max_cells=200)
    except Budget:
        ctx.undecided("C01.node", w, init, "budget exceeded")
        return
    bad = []
    for cell, r in cells:
        if r["raised"]:
            if "databytes" in r["raised"] or "type(data)" in r["raised"]:
                continue
            bad.append("raises %s" % r["raised"][:60])
            continue
        at = r["fields"].get("attributes")
        if at and at[0] == "dict" and any(isinstance(k_, tuple) for k_ in at[1]):
            ctx.undecided("C01.node", w, init, "the attribute dictionary is built in a way the interpreter does not follow")
            return
        if not (at and at[0] == "dict" and at[1].get("k1") == A1 and at[1].get("k2") == A2 and len(at[1]) == 2):
            lab = ", ".join("%s=%s" % (k[2] if k[0] == "A" else k[1], v) for k, v in cell.items())
            bad.append("attributes become %s%s" % (show(at)[:60] if at else None, " when " + lab if lab else ""))
        if r["fields"].get("tag") != ("c", "tag"):
            bad.append("tag altered")
        d = r["fields"].get("data")
        if not (d and d[0] == "ext" and d[1] == "databytes"):
            bad.append("data altered")
    ctx.check("C01.node", not bad, w, "ProtocolTreeNode(tag, attributes, children, data) keeps its arguments (%d cell(s))" % len(cells),
              "; ".join(sorted(set(bad))[:2]) + ": an attribute whose value is empty (or otherwise falsy) is dropped when a stanza is built or decoded", "fields hold the arguments unchanged")


def rule_layer(ctx):
    """the coder layer writes, for every stanza, the bytes of THAT stanza: on every path of send the value written is
    protocolTreeNodeToBytes(<the parameter>), not bytes kept from an earlier call"""
    from ..terms import PathEval, all_path_results, show
    repo = ctx.repo
    cls = repo.cls(LAY, "YowCoderLayer")
    fn = cls.methods["send"]
    w = where(LAY, "YowCoderLayer.send", fn.lineno)
    P = params_of(fn)[0]
    pe = PathEval(fn, Evaluator(repo, cls.module, cls))
    res = [r for r in all_path_results(CFG(fn), pe) if r["terminal"] == "exit"]
    bad, n = [], 0
    for r in res:
        wr = [e for e in r["events"] if e["func"] in ("write", "toLower") and e["recv_var"] == "self"]
        if len(wr) != 1 or not wr[0]["args"]:
            bad.append("a path writes %d times" % len(wr))
            continue
        n += 1
        a = wr[0]["args"][0]
        while isinstance(a, tuple) and a[0] == "call" and a[1] in ("bytearray", "bytes", "list") and a[3]:
            a = a[3][0]
        ok = isinstance(a, tuple) and a[0] == "call" and a[1] == "protocolTreeNodeToBytes" and a[3] and a[3][0] == ("param", P)
        if not ok:
            bad.append("a path writes %s" % show(a)[:70])
    ctx.check("C01.layer", not bad and n > 0, w, "send writes protocolTreeNodeToBytes(%s) on every path" % P, "; ".join(sorted(set(bad))[:2]) + ": the frame on the wire is not the encoding of the stanza that was sent",
              "%d path(s): the stanza's own encoding is written" % n)


# ------------------------------------------------------------------ C01.dict
def dictionary_lists(ctx):
    td = ctx.repo.cls(TOK, "TokenDictionary")
    init = ctx.repo.method(TOK, "TokenDictionary", "__init__")
    out = {}
    for n in ast.walk(init):
        if isinstance(n, ast.Assign) and len(n.targets) == 1 and is_self_attr(n.targets[0]) and isinstance(n.value, ast.List):
            vals = []
            ok = True
            for e in n.value.elts:
                if isinstance(e, ast.Constant) and isinstance(e.value, str):
                    vals.append(e.value)
                else:
                    a = alts(Evaluator(ctx.repo, td.module, td).ev(e))
                    if a and len(a) == 1 and isinstance(a[0], str):
                        vals.append(a[0])
                    else:
                        ok = False
            out[n.targets[0].attr] = vals if ok else None
    return out


def rule_dict(ctx):
    lists = dictionary_lists(ctx)
    w = where(TOK, "TokenDictionary.__init__", None)
    prim, sec = lists.get("dictionary"), lists.get("secondaryDictionary")
    if prim is None or sec is None:
        ctx.undecided("C01.dict", w, "dictionary literals", "token lists are not literal lists of strings")
        return None, None
    tags = ctx.units.get("C01.encoder_control_bytes", {})
    ctrl = [int(k) for t in tags.values() for k in t if k not in ("None", "0")]
    first_ctrl = min(ctrl + [236])
    ctx.check("C01.dict", len(prim) <= min(first_ctrl, 236), w, "len(dictionary) = %d" % len(prim),
              "primary dictionary has %d entries: indices >= %d collide with control bytes" % (len(prim), min(first_ctrl, 236)), "single-byte indices stay below the first control byte %d" % min(first_ctrl, 236))
    ctx.check("C01.dict", len(sec) <= 4 * 256, w, "len(secondaryDictionary) = %d" % len(sec),
              "secondary dictionary has %d entries, only 4x256 are addressable" % len(sec), "secondary indices fit 4 x 256")
    ctx.check("C01.dict", prim[:3] == ["", "xmlstreamstart", "xmlstreamend"], w, "reserved entries 0..2 = %r" % prim[:3],
              "indices 0..2 are reserved by the decoder (0 = absent, 1/2 = stream words) but hold %r" % prim[:3], "indices 0..2 reserved")
    dup = sorted({t for t in prim if prim.count(t) > 1} | {t for t in sec if sec.count(t) > 1} | (set(prim) & set(sec)))
    ctx.check("C01.dict", not dup, w, "duplicate tokens", "token(s) %s appear twice: index lookup and token lookup disagree" % dup[:5], "no duplicate token")
    rule_dict_lookup(ctx, prim, sec)
    return prim, sec


def rule_dict_lookup(ctx, prim, sec):
    """the two lookups of the token dictionary, executed on an object built by the real constructor, for every word of both
    lists: getIndex(word) names the list the word is in and its position there, getToken(position, secondary) gives the
    word back; a string that is no word has no index"""
    from ..absint import Interp, _Raise, NeedAtom, Budget, DomainGrew
    repo = ctx.repo
    cls = repo.cls(TOK, "TokenDictionary")
    gi = repo.method(TOK, "TokenDictionary", "getIndex")
    w = where(TOK, "TokenDictionary.getIndex", gi.lineno)
    it = Interp(repo, {}, {})
    it.max_steps = max(getattr(it, "max_steps", 0), 4000000)
    env = {"@module": cls.module, "@owner": cls}
    bad_i, bad_t = [], []
    try:
        o = it.construct(cls, [], {}, {"@module": cls.module, "@owner": None}, 0, None)

        def plain(v):
            v = it.force(v)
            if v[0] == "c":
                return v[1]
            if v[0] == "list" and not (len(v) > 2 and v[2]) and all(x[0] == "c" for x in v[1]):
                return tuple(x[1] for x in v[1])
            raise LookupError("not a constant: %s" % (v,))
        for words, secondary in ((prim, False), (sec, True)):
            for pos, word in enumerate(words):
                if words.index(word) != pos or (secondary and word in prim):
                    continue            # duplicates are reported above
                got = plain(it.method_call(o, "getIndex", [("c", word)], {}, env, 0, None))
                if got is None or tuple(got) != (pos, secondary):
                    bad_i.append("getIndex(%r) is %r, the word is entry %d of the %s dictionary" % (word, got, pos, "secondary" if secondary else "primary"))
                try:
                    back = plain(it.method_call(o, "getToken", [("c", pos), ("c", secondary)], {}, env, 0, None))
                except _Raise as r:
                    back = "raises " + r.text[:40]
                if back != word:
                    bad_t.append("getToken(%d, %s) is %r, not %r" % (pos, secondary, back, word))
        for stranger in ("no such token \x00", "Xmlstreamstart"):
            got = plain(it.method_call(o, "getIndex", [("c", stranger)], {}, env, 0, None))
            if got is not None:
                bad_i.append("getIndex(%r) is %r for a string that is in neither list" % (stranger, got))
    except (_Raise, NeedAtom, Budget, DomainGrew, LookupError) as x:
        ctx.undecided("C01.dict", w, "getIndex / getToken over every word", "the lookups could not be executed: %s" % (getattr(x, "text", x),))
        return
    n = len(prim) + len(sec)
    ctx.check("C01.dict", not bad_i, w, "getIndex(word) = (position, which list) for every word", "; ".join(bad_i[:3]) + (" (+%d more)" % (len(bad_i) - 3) if len(bad_i) > 3 else "")
              + ": the encoder writes a token byte the decoder reads as something else", "%d words: index and list as stored" % n)
    ctx.check("C01.dict", not bad_t, where(TOK, "TokenDictionary.getToken", None), "getToken(position, list) = the word for every word", "; ".join(bad_t[:3]) + (" (+%d more)" % (len(bad_t) - 3) if len(bad_t) > 3 else ""),
              "%d words come back" % n)


# ------------------------------------------------------------------ C01.rt
def rule_roundtrip(ctx, prim, sec):
    """the codec executed end to end (abstract execution of the repository's own encoder, decoder, token dictionary and
    node class on constant trees): protocolTreeNodeToBytes(tree) handed to getProtocolTreeNode gives back a tree with the
    same tag, attributes, data and children in order.  The trees are chosen per branch of the format: every string form
    (primary / each page of secondary tokens, JID with token and raw parts, nibble- and hex-packed of odd and even length
    up to the 127 / 128 symbol limit, raw 8-bit with every byte value, the 255 / 256 length boundary, a leading or doubled
    '@'), data of the length classes below 1 MiB, attribute and child counts across the 8 / 16 bit list headers, nesting."""
    from ..absint import Interp, Obj, _Raise, _Return, NeedAtom, Budget, DomainGrew, C_NONE
    repo = ctx.repo
    enc, dec = repo.cls(ENC, "WriteEncoder"), repo.cls(DEC, "ReadDecoder")
    tok, ptn = repo.cls(TOK, "TokenDictionary"), repo.cls(PTN, "ProtocolTreeNode")
    w = where(ENC, "WriteEncoder.protocolTreeNodeToBytes", None)

    def raw_node(itp, c, args, kwargs, env, depth, e):
        if c is not ptn:
            return None
        ob = Obj(c)
        k, init = repo.find_method(c, "__init__")
        try:
            itp.call_function(init, k, ("obj", ob), args, kwargs, depth=depth + 1)
        except _Return:
            pass
        return ("obj", ob)
    it = Interp(repo, {}, {}, hooks={"construct": raw_node})
    it.max_steps = 10 ** 9
    try:
        td = it.construct(tok, [], {}, {"@module": tok.module, "@owner": None}, 0, None)
        e_ = it.construct(enc, [td], {}, {"@module": enc.module, "@owner": None}, 0, None)
        d_ = it.construct(dec, [td], {}, {"@module": dec.module, "@owner": None}, 0, None)
    except (_Raise, NeedAtom, Budget, DomainGrew) as x:
        ctx.undecided("C01.rt", w, "codec objects", "constructors could not be executed: %s" % (getattr(x, "text", x),))
        return

    def N(tag, attrs=None, children=None, data=None):
        return ("N", tag, attrs, children, data)

    def build(t):
        _n, tag, attrs, children, data = t
        a = ("dict", {k: ("c", v) for k, v in attrs.items()}) if attrs is not None else C_NONE
        ch = ("list", [build(c) for c in children]) if children is not None else C_NONE
        return it.construct(ptn, [("c", tag), a, ch, ("c", data) if data is not None else C_NONE], {}, {"@module": ptn.module, "@owner": None}, 0, None)

    def plain(t):
        _n, tag, attrs, children, data = t
        return (tag, dict(attrs or {}), [plain(c) for c in (children or [])], data)

    def dump(v):
        v = it.force(v)
        if v[0] == "obj" and v[1].cls is ptn:
            f = v[1].fields
            at = dump(f.get("attributes", C_NONE))
            ch = dump(f.get("children", C_NONE))
            dt = dump(f.get("data", C_NONE))
            return (dump(f.get("tag", C_NONE)), at if at is not None else {}, ch if ch is not None else [], bytes(dt) if isinstance(dt, (bytes, bytearray)) else dt)
        if v[0] == "c":
            return v[1]
        if v[0] == "dict" and not (len(v) > 2 and v[2]):
            return {k: dump(x) for k, x in v[1].items()}
        if v[0] == "list" and not (len(v) > 2 and v[2]):
            return [dump(x) for x in v[1]]
        return ("?", str(v)[:60])
    latin = "".join(chr(i) for i in range(1, 256) if chr(i) != "@")
    pages = [sec[i] for i in (0, 255, 256, 511, 512, 767, 768, len(sec) - 1) if 0 <= i < len(sec)]
    strings = ["a", "abc", "@abc", "@", "a@@b", "x" * 255, "y" * 256, "z" * 300, latin,
               "0", "12", "123", "1-2.3", "-.", "9" * 127, "9" * 128, "A", "AB", "ABC", "0F1E2D", "F" * 127, "F" * 128, "1A-", "abc-1",
               prim[3], prim[len(prim) - 1], "4915112345678@s.whatsapp.net", "4915-1500000000@g.us", "abc@%s" % pages[0] if pages else "abc@x", "%s@%s" % (prim[5], prim[6])] + pages
    trees = []
    for i, s_ in enumerate(strings):
        trees.append(("attribute value %r" % (s_ if len(s_) <= 24 else s_[:10] + "...(%d)" % len(s_)), N("iq", {"k": s_})))
    for s_ in ["abc", "@abc", "x" * 256, prim[4], pages[0] if pages else "lg", "a@b", "12345"]:
        trees.append(("tag / attribute key %r" % (s_[:16]), N(s_, {s_ + "k": "v"})))
    for n_ in (0, 1, 255, 256, 4000):
        trees.append(("data of %d bytes" % n_, N("enc", {"v": "2"}, None, bytes((7 * i + n_) % 256 for i in range(n_)))))
    trees.append(("data with every byte value", N("enc", None, None, bytes(range(256)))))
    trees.append(("data that reads like a packed / token string", N("enc", None, None, b"123456")))
    for n_ in (0, 1, 2, 127, 128) + ((126, 300) if ctx.tier == "thorough" else ()):
        trees.append(("%d attributes" % n_, N("iq", {"k%d" % i: "%d" % i for i in range(n_)}, None, b"d" if n_ in (127, 300) else None)))
    for n_ in (1, 2, 255, 256) + ((300,) if ctx.tier == "thorough" else ()):
        trees.append(("%d children" % n_, N("list", {"n": str(n_)}, [N("i") if i % 50 else N("item", {"i": str(i)}) for i in range(n_)])))
    trees.append(("nesting", N("iq", {"id": "1", "to": "a@b"}, [N("a", None, [N("b", {"x": "y"}, [N("c", None, None, b"deep")]), N("b2")]), N("d", None, None, b"")])))
    bad, und, n_ok = [], [], 0
    env_e, env_d = {"@module": enc.module, "@owner": enc}, {"@module": dec.module, "@owner": dec}
    import time as _time
    for label, t in trees:
        _t0 = _time.time()
        try:
            node = build(t)
            wire = it.force(it.method_call(e_, "protocolTreeNodeToBytes", [node], {}, env_e, 0, None))
            if wire[0] == "list" and all(x[0] == "c" and isinstance(x[1], int) for x in wire[1]):
                octets = [x[1] for x in wire[1]]
            elif wire[0] == "c" and isinstance(wire[1], (bytes, bytearray, list)):
                octets = list(wire[1])
            else:
                und.append("%s: the encoder's output is not a list of constants" % label)
                continue
            if any(not (0 <= b_ <= 255) for b_ in octets):
                bad.append("%s: the encoder emits a value outside 0..255 (%s)" % (label, [b_ for b_ in octets if not 0 <= b_ <= 255][:2]))
                continue
            back = it.method_call(d_, "getProtocolTreeNode", [("list", [("c", b_) for b_ in octets])], {}, env_d, 0, None)
        except _Raise as r:
            bad.append("%s: raises %s" % (label, r.text[:70]))
            continue
        except (NeedAtom, Budget, DomainGrew) as x:
            und.append("%s: %s" % (label, x))
            continue
        if os.environ.get("SA_DEBUG"):
            print("  %.2fs %s" % (_time.time() - _t0, label))
        got, want = dump(back), plain(t)
        if got == want:
            n_ok += 1
            continue

        def diff(a, b, path="tree"):
            if not (isinstance(a, tuple) and isinstance(b, tuple) and len(a) == 4 and len(b) == 4):
                return "%s: %r instead of %r" % (path, a, b)
            for i, nm in enumerate(("tag", "attributes", "children", "data")):
                if a[i] != b[i]:
                    if nm == "children" and isinstance(a[i], list) and len(a[i]) == len(b[i]):
                        for j, (x, y) in enumerate(zip(a[i], b[i])):
                            if x != y:
                                return diff(x, y, "%s/child %d" % (path, j))
                    if nm == "attributes" and isinstance(a[i], dict):
                        ks = [k for k in set(a[i]) | set(b[i]) if a[i].get(k) != b[i].get(k)]
                        return "%s attribute %r: %r instead of %r" % (path, ks[0], str(a[i].get(ks[0]))[:40], str(b[i].get(ks[0]))[:40])
                    return "%s %s: %s instead of %s" % (path, nm, str(a[i])[:50], str(b[i])[:50])
            return path
        bad.append("%s comes back different - %s" % (label, diff(got, want)))
    ctx.units["C01.roundtrip_trees"] = len(trees)
    if und and not bad:
        ctx.undecided("C01.rt", w, "codec round trip by execution", "%d of %d trees could not be followed: %s" % (len(und), len(trees), und[0]))
        return
    ctx.check("C01.rt", not bad, w, "encode then decode gives the same tree (%d trees across the branches of the format)" % len(trees),
              "; ".join(bad[:3]) + (" (+%d more)" % (len(bad) - 3) if len(bad) > 3 else ""), "%d trees come back equal" % n_ok)


# ------------------------------------------------------------------ C01.eq
def eq_exec(ctx):
    """ProtocolTreeNode.__eq__ executed on pairs of concrete trees built by the node class's own constructor: the answer
    must be that of the reference relation - same tag, data and attributes, the same number of children, and every child of
    either side has an equal child on the other side.  -> (problems, pairs tried) or None when it cannot be followed"""
    from ..absint import Interp, Obj, _Raise, _Return, NeedAtom, Budget, DomainGrew, C_NONE
    repo = ctx.repo
    ptn = repo.cls(PTN, "ProtocolTreeNode")

    def raw_node(itp, c, args, kwargs, env, depth, e):
        if c is not ptn:
            return None
        ob = Obj(c)
        k, init = repo.find_method(c, "__init__")
        try:
            itp.call_function(init, k, ("obj", ob), args, kwargs, depth=depth + 1)
        except _Return:
            pass
        return ("obj", ob)
    it = Interp(repo, {}, {}, hooks={"construct": raw_node})
    it.max_steps = 10 ** 7
    it.loop_unroll = 64

    def N(tag, attrs=None, children=None, data=None):
        return (tag, tuple(sorted((attrs or {}).items())), tuple(children or ()), data)

    def build(t):
        tag, attrs, children, data = t
        a = ("dict", {k: ("c", v) for k, v in attrs}) if attrs else C_NONE
        ch = ("list", [build(c) for c in children]) if children else C_NONE
        return it.construct(ptn, [("c", tag), a, ch, ("c", data) if data is not None else C_NONE], {}, {"@module": ptn.module, "@owner": None}, 0, None)

    def ref(x, y):
        if x[0] != y[0] or x[1] != y[1] or (x[3] or None) != (y[3] or None) and not (x[3] is None and y[3] is None):
            return False
        if len(x[2]) != len(y[2]):
            return False
        return all(any(ref(c, d) for d in y[2]) for c in x[2]) and all(any(ref(c, d) for d in x[2]) for c in y[2])
    A, B, X = N("a", {"k": "1"}), N("b"), N("x", None, None, b"d")
    base = N("t", {"p": "1", "q": "2"}, [A, B], None)
    pairs = [
        ("identical trees", base, base, None),
        ("another tag", base, N("u", {"p": "1", "q": "2"}, [A, B]), "tag"),
        ("another attribute value", base, N("t", {"p": "1", "q": "3"}, [A, B]), "attributes"),
        ("one attribute more", base, N("t", {"p": "1", "q": "2", "r": "3"}, [A, B]), "attributes"),
        ("another data", N("t", None, None, b"abc"), N("t", None, None, b"abd"), "data"),
        ("data against no data", N("t", None, None, b"abc"), N("t"), "data"),
        ("one child more", base, N("t", {"p": "1", "q": "2"}, [A, B, X]), "child count"),
        ("the same children in another order", base, N("t", {"p": "1", "q": "2"}, [B, A]), None),
        ("a child of the left side has no partner (first child matches, second does not)", N("t", None, [A, X]), N("t", None, [A, B]), "children, left to right"),
        ("a child of the right side has no partner", N("t", None, [A, A]), N("t", None, [A, B]), "children, right to left"),
        ("a child of the left side has no partner (other side repeats a child)", N("t", None, [A, B]), N("t", None, [A, A]), "children, left to right"),
        ("a difference two levels down", N("t", None, [N("m", None, [A])]), N("t", None, [N("m", None, [B])]), "children, recursively"),
        ("equal two levels down", N("t", None, [N("m", None, [A, X])]), N("t", None, [N("m", None, [X, A])]), None),
    ]
    problems = []
    try:
        for label, x, y, what in pairs:
            for (l, r, d) in ((x, y, ""), (y, x, " (operands swapped)")):
                want = ref(l, r)
                try:
                    got = it.force(it.method_call(build(l), "__eq__", [build(r)], {}, {"@module": ptn.module, "@owner": ptn}, 0, None))
                except _Raise as ex:
                    problems.append("%s%s: raises %s" % (label, d, (ex.text or "")[:50]))
                    continue
                if got[0] != "c" or not isinstance(got[1], bool):
                    return None
                if got[1] != want:
                    problems.append("%s%s: __eq__ answers %s%s" % (label, d, got[1], " - the %s is not compared" % what if what and got[1] else ""))
        # something that is not a node at all
        other = it.force(it.method_call(build(base), "__eq__", [("c", "t")], {}, {"@module": ptn.module, "@owner": ptn}, 0, None))
        if other != ("c", False):
            problems.append("compared with a string: answers %s" % (other[1] if other[0] == "c" else "something else"))
    except (NeedAtom, Budget, DomainGrew):
        return None
    return sorted(set(problems)), 2 * len(pairs) + 1


def rule_eq(ctx):
    ex = eq_exec(ctx)
    if ex is not None:
        # decided by execution; seven facts, each judged on the pairs that exercise it
        problems, n = ex
        fn0 = ctx.repo.method(PTN, "ProtocolTreeNode", "__eq__")
        w0 = where(PTN, "ProtocolTreeNode.__eq__", fn0.lineno)
        facts = [("compares tag", ("tag",)), ("compares data", ("data",)), ("compares attributes", ("attribute",)), ("compares child count", ("one child more",)),
                 ("children matched left to right, each child on its own", ("left side",)), ("children matched right to left", ("right side",)),
                 ("order of children irrelevant, differences found at any depth, non-nodes unequal", ("order", "levels down", "identical", "string"))]
        for label, keys in facts:
            mine = [p_ for p_ in problems if any(k_ in p_ for k_ in keys)]
            ctx.check("C01.eq", not mine, w0, label, "; ".join(mine[:2]) + " (%d pairs of trees executed)" % n, "%d pairs of trees executed" % n)
        rest = [p_ for p_ in problems if not any(k_ in p_ for _l, keys in facts for k_ in keys)]
        if rest:
            ctx.violate("C01.eq", w0, "tree equality", "; ".join(rest[:2]))
        return
    cls = ctx.repo.cls(PTN, "ProtocolTreeNode")
    fn = ctx.repo.method(PTN, "ProtocolTreeNode", "__eq__")
    w = where(PTN, "ProtocolTreeNode.__eq__", fn.lineno)
    other = params_of(fn)[0]
    comps = set()
    for n in ast.walk(fn):
        if isinstance(n, ast.Compare) and len(n.ops) == 1 and isinstance(n.ops[0], ast.Eq):
            l, r = unparse(n.left), unparse(n.comparators[0])
            for a in ("tag", "data", "attributes"):
                if {l, r} == {"self." + a, other + "." + a}:
                    comps.add(a)
            if "len(" in l and "len(" in r and (("getAllChildren" in l and "getAllChildren" in r) or ("children" in l and "children" in r)):
                comps.add("child count")
            if l.endswith(".__class__") or r.endswith(".__class__") or "isinstance" in l:
                comps.add("class")
    for a in ("tag", "data", "attributes", "child count"):
        ctx.check("C01.eq", a in comps, w, "compares " + a, "__eq__ does not compare the %s of the two nodes" % a, "%s compared" % a)
    # child matching loops in both directions with a per-child flag
    g = CFG(fn)
    loops = [n for n in g.live if n.kind == "loop"]
    outer = []
    for L in loops:
        it = unparse(L.stmt.iter)
        inner = [x for x in ast.walk(L.stmt) if isinstance(x, ast.For) and x is not L.stmt]
        if inner:
            outer.append((L, it, unparse(inner[0].iter)))
    dirs = set()
    for L, it, it2 in outer:
        a = "self" if it.startswith("self") else ("other" if it.startswith(other) else "?")
        b = "self" if it2.startswith("self") else ("other" if it2.startswith(other) else "?")
        dirs.add((a, b))
        # flag variable: the name tested by `if not <flag>: return False` in the outer loop body
        flag = None
        for s in L.stmt.body:
            if isinstance(s, ast.If) and isinstance(s.test, ast.UnaryOp) and isinstance(s.test.op, ast.Not) and isinstance(s.test.operand, ast.Name):
                flag = s.test.operand.id
                flag_if = s
        wl = where(PTN, "ProtocolTreeNode.__eq__", L.line)
        if flag is None:
            # all()/any() formulation: accept if body is a return over any(...)
            ctx.undecided("C01.eq", wl, L.stmt, "child matching loop without a recognisable found-flag")
            continue
        test_node = [n for n in g.live if n.kind == "test" and n.stmt is flag_if][0]
        resets = [n for n in g.live if n.kind == "stmt" and isinstance(n.stmt, ast.Assign)
                  and any(isinstance(t, ast.Name) and t.id == flag for t in n.stmt.targets)
                  and isinstance(n.stmt.value, ast.Constant) and not n.stmt.value.value]
        # a path from the start of an iteration to the flag test that passes no reset => the flag of a
        # previous child is still visible
        stale = g.path(L, lambda x: x is test_node, avoid=resets, edge_ok=lambda a_, b_, k, L=L: not (a_ is L and k != "true"))
        ctx.check("C01.eq", stale is None, wl, "for %s in %s: flag `%s`" % (unparse(L.stmt.target), it, flag),
                  "the found-flag `%s` is not reset at the start of each iteration: once one child matched, every later child is taken as matched (%s)" % (flag, fmt_path(stale)),
                  "flag re-initialised for every child")
    ctx.check("C01.eq", {("self", "other"), ("other", "self")} <= dirs, w, "child matching directions %s" % sorted(dirs),
              "children must be matched in both directions (self->other and other->self)", "children matched in both directions")


def run(ctx):
    ctx.rule("C01.bind", "every call inside the codec that resolves to a repo function binds", floor=60)
    ctx.rule("C01.int", "integer writers/readers are bit-exact inverses", floor=8)
    ctx.rule("C01.class", "size-class branches imply the value fits the chosen length form", floor=5)
    ctx.rule("C01.tags", "emitted control bytes are dispatched with the matching length reader", floor=12)
    ctx.rule("C01.dbl", "double-byte token arithmetic is inverse", floor=2)
    ctx.rule("C01.pack", "packing tables are inverse (every byte value, both kinds)", floor=3)
    ctx.rule("C01.unpack", "packed body: writer nibble layout / filler, reader abstractly executed per (kind, header byte)", floor=6)
    ctx.rule("C01.str", "one byte per character in both directions (latin-1)", floor=2)
    ctx.rule("C01.node", "ProtocolTreeNode keeps its constructor arguments", floor=1)
    ctx.rule("C01.layer", "the coder layer writes the encoding of the stanza it was given", floor=1)
    ctx.rule("C01.sent", "stanzas built by the library's own entities are well-formed for the codec (C09.codec adopted)", floor=40)
    ctx.rule("C01.count", "the node list header counts exactly the items written", floor=4)
    ctx.rule("C01.dict", "dictionary sizes / reserved entries; both lookups executed for every word", floor=6)
    ctx.rule("C01.rt", "encoder -> decoder executed end to end on trees chosen per branch of the format", floor=1)
    ctx.rule("C01.eq", "tree equality compares every component, children in both directions with a fresh flag", floor=7)
    ctx.assume("frame < 16 MiB (enforced by C05.guard); list size < 65536 (no larger list form in the format); strings are Latin-1")
    ctx.guarded("C01.bind", rule_bind, ctx)
    widths = ctx.guarded("C01.int", rule_int, ctx)
    ctx.guarded("C01.class", rule_class, ctx, widths)
    ctx.guarded("C01.tags", rule_tags, ctx)
    ctx.guarded("C01.dbl", rule_dbl, ctx)
    tables = ctx.guarded("C01.pack", rule_pack, ctx)
    if tables:
        ctx.guarded("C01.unpack", rule_unpack, ctx, tables)
    ctx.guarded("C01.count", rule_count, ctx)
    ctx.guarded("C01.str", rule_str, ctx)
    ctx.guarded("C01.node", rule_node, ctx)
    ctx.guarded("C01.layer", rule_layer, ctx)
    dicts = ctx.guarded("C01.dict", rule_dict, ctx)
    if dicts and dicts[0] and dicts[1]:
        ctx.guarded("C01.rt", rule_roundtrip, ctx, dicts[0], dicts[1])
    ctx.guarded("C01.eq", rule_eq, ctx)
    # the stanzas the library itself builds are well-formed for the codec (C09.codec), adopted
    from . import c09
    ctx.adopt_from("C09", [(c09.rule_codec_sent_only, (ctx.repo,))], {"C09.codec": "C01.sent", "C09.ret": "C01.sent"})
