"""C06 - exactly-once routing through the assembled stack.

C06.base   the group / dispatch semantics are interpreted from the repository's own code (not assumed)
C06.out    every concrete entity class is forwarded by exactly one layer (0 when its module is left out, never 2)
C06.in     every cell of every incoming tag reaches exactly one delivery when supported, at most one otherwise
C06.split  the two encryption layers partition incoming tags; the control layer passes everything else once
C06.eqser  the node a send handler forwards is the entity's own serialisation
C06.reply  every iq registration handles both reply kinds and each callback delivers exactly one entity
"""
import itertools
import json
import os

from ..absint import enumerate_cells, count_effects, flat_effects, show, Budget, OTHER, Interp, _Raise
from ..layers import LayerRunner, symbolic_node
from ..report import where, VERIF
from ..routing import GroupSim, concrete_entity_classes, cell_label, ups, downs, ATOM_PAYLOAD, ATOM_SKDM
from ..stackmodel import FLAGS, default_layers, flatten

INCOMING_TAGS = ("message", "receipt", "ack", "presence", "chatstate", "call", "ib", "notification", "iq", "success", "failure",
                 "stream:features", "stream:error", "unknown-tag")


OUTGOING_PLAIN_TAGS = ("receipt", "ack", "presence", "chatstate", "call", "ib", "iq")


def load_routing():
    with open(os.path.join(VERIF, "reference", "routing.json")) as fh:
        return json.load(fh)


def atom_key(a):
    if a[0] == "A":
        return "/".join(a[1] + (a[2],))
    if a[0] == "C":
        return "<" + "/".join(a[1] + (a[2],)) + ">"
    if a[0] == "E":
        return "entity." + a[1]
    return a[1]


def key_atom(k):
    """inverse of atom_key for the keys reference/routing.json uses"""
    if k.startswith("<") and k.endswith(">"):
        parts = k[1:-1].split("/")
        return ("C", tuple(parts[:-1]), parts[-1])
    parts = k.split("/")
    return ("A", tuple(parts[:-1]), parts[-1])


def pattern_cells(tag, routing):
    """base cells fixed by the supported-kind patterns of `tag`: the obligation 'delivered exactly once' is stated per
    pattern, so its atoms are fixed up front - a handler that stops testing one of them is still judged on that kind"""
    import itertools
    out = []
    for p in routing.get("incoming", []):
        if p["tag"] != tag or not p.get("when"):
            continue
        keys = sorted(p["when"])
        vals = [p["when"][k] if isinstance(p["when"][k], list) else [p["when"][k]] for k in keys]
        for combo in itertools.product(*vals):
            out.append({key_atom(k): v for k, v in zip(keys, combo)})
    return out


def cell_view(cell):
    return {atom_key(a): v for a, v in cell.items()}


def matches(view, when):
    for k, want in when.items():
        if k not in view:
            return False
        v = view[k]
        if isinstance(want, list):
            if v not in want:
                return False
        elif v != want:
            return False
    return True


def excluded(tag, view, routing):
    for c in routing.get("incoming_constraints", []):
        if c["tag"] != tag:
            continue
        if "exclude_when" in c and matches(view, c["exclude_when"]):
            return c["why"]
        if "exclude_when_not" in c:
            k = c["and_present"]
            if k in view and view[k] is not None and not matches(view, c["exclude_when_not"]):
                return c["why"]
    return None


def documented_raise(tag, view, routing):
    for c in routing.get("documented_raises", []):
        if c["tag"] != tag:
            continue
        if "when" in c and matches(view, c["when"]):
            return c["why"]
        if "when_not" in c:
            k = list(c["when_not"])[0]
            if k in view and view[k] not in c["when_not"][k]:
                return c["why"]
    return None


def expected_up(tag, view, routing, flags):
    for p in routing["incoming"]:
        if p["tag"] == tag and matches(view, p["when"]):
            if p.get("module") and not flags.get(p["module"], True):
                return 0, p
            return p["up"], p
    return 0, None


def configs(tier):
    full = dict.fromkeys(FLAGS, True)
    out = [full]
    if tier == "thorough":
        for vec in itertools.product([False, True], repeat=len(FLAGS)):
            f = dict(zip(FLAGS, vec))
            if f != full:
                out.append(f)
    else:
        out.append(dict.fromkeys(FLAGS, False))
    return out


def flag_label(f):
    return "".join("1" if f[k] else "0" for k in FLAGS)


def rule_base(ctx, sim):
    it = sim.new_interp({}, {})
    g = sim.make_group(it)
    subs = g[1].fields.get("sublayers")
    w = where("yowsup/layers/__init__.py", "YowParallelLayer.__init__", None)
    ok = subs is not None and subs[0] == "list" and len(subs[1]) == len(sim.layer_classes) and all(s[0] == "obj" for s in subs[1])
    ctx.check("C06.base", ok, w, "group of %d layers built by interpreting YowParallelLayer(...)" % len(sim.layer_classes),
              "the parallel group could not be constructed from the repository's own constructor", "sublayers instantiated in order")
    if not ok:
        return False
    for s in subs[1]:
        hm = s[1].fields.get("handleMap")
        okh = hm is not None and hm[0] == "dict" and len(hm[1]) >= 1 and not (len(hm) > 2 and hm[2])
        ctx.check("C06.base", okh, where(s[1].cls.relpath, s[1].cls.name + ".__init__", None), "handleMap of " + s[1].cls.name,
                  "handler table is not a literal dict (built dynamically): routing cannot be decided", "handler table: %s" % (sorted(hm[1]) if okh else "?"))
        for m in ("toLower", "toUpper", "emitEvent", "broadcastEvent"):
            v = s[1].fields.get(m)
            okm = v is not None and v[0] == "bound" and v[1][0] == "obj" and v[1][1] is g[1]
            if not okm:
                ctx.violate("C06.base", w, "%s.%s substituted" % (s[1].cls.name, m), "sublayer's %s is not replaced by the group's: its output bypasses the group's neighbour" % m)
    ctx.hold("C06.base", w, "routing methods of every sublayer are the group's", "toLower/toUpper/emitEvent/broadcastEvent substituted on %d sublayers" % len(subs[1]))
    return True


def zero_reason(c, routing):
    z = routing["outgoing_zero"]
    if c.name in z["classes"]:
        return z["classes"][c.name]
    for pat, why in z["patterns"]:
        if pat in c.name:
            return why
    return None


def module_of(c, routing):
    for pkg, flag in routing["outgoing_module"].items():
        if pkg.startswith("_"):
            continue
        if ("." + pkg + ".") in c.module.name + ".":
            return flag
    return None


def rule_out(ctx, repo, routing, tier):
    classes = concrete_entity_classes(repo)
    ctx.units["C06.entity_classes"] = len(classes)
    regs_seen = {}
    for flags in configs(tier):
        sim = GroupSim(repo, flags)
        fl = flag_label(flags)
        for c in classes:
            w = where(c.relpath, c.name, None)
            doms = {}
            try:
                res = enumerate_cells(lambda cell, d: sim.send(c, cell, d), doms, max_cells=2000)
            except Budget:
                ctx.undecided("C06.out", w, "send %s [modules %s]" % (c.name, fl), "cell enumeration exceeded its budget")
                continue
            zr = zero_reason(c, routing)
            mod = module_of(c, routing)
            want = None if zr else (0 if (mod and not flags[mod]) else 1)
            bad = []
            ctor_err = None
            for cell, rs in res:
                if rs.get("ctor_raised"):
                    ctor_err = rs["ctor_raised"]
                    continue
                lo, hi = downs(rs["effects"])
                lab = cell_label(cell)
                if hi > 1:
                    bad.append("forwarded %s times%s" % (hi, " when " + lab if lab else ""))
                elif want is not None and (lo, hi) != (want, want):
                    if want == 1:
                        bad.append("forwarded by no layer%s (the entity is silently dropped)" % (" when " + lab if lab else ""))
                    else:
                        bad.append("forwarded although module %s is left out%s" % (mod, " when " + lab if lab else ""))
                if rs["raised"] and want == 0:
                    bad.append("raises %s although its module is left out" % rs["raised"][:60])
                # C06.eqser
                if flags == configs("quick")[0]:
                    for e in flat_effects(rs["effects"]):
                        if e[0] == "DOWN":
                            v = e[1]
                            ent = rs.get("entity")
                            okser = v[0] == "node" and getattr(v[1], "made_by", (None, None))[0] is (ent[1] if ent else None) and v[1].made_by[1] == "toProtocolTreeNode"
                            ctx.check("C06.eqser", okser, w, "stanza sent for " + c.name,
                                      "the stanza going down is not the entity's own toProtocolTreeNode() result (%s)" % show(v), "entity.toProtocolTreeNode() goes down unchanged")
                    for (lc, ent, okcb, errcb) in rs.get("registrations", []):
                        regs_seen[(lc.qname, c.qname)] = (lc, c, okcb, errcb)
            if ctor_err and all(rs.get("ctor_raised") for _, rs in res):
                if flags == configs("quick")[0]:
                    ctx.note("%s cannot be constructed directly (%s): not analysed for C06.out" % (c.name, ctor_err[:70]))
                continue
            label = "send %s [modules %s]" % (c.name, fl)
            if bad:
                ctx.violate("C06.out", w, label, "; ".join(sorted(set(bad))[:3]))
            else:
                ctx.hold("C06.out", w, label, ("at most once (%s)" % zr) if zr else "forwarded exactly %d time(s) in %d cell(s)" % (want, len(res)))
    return regs_seen


def rule_reply(ctx, repo, regs_seen):
    sim = GroupSim(repo)
    for (lq, cq), (lc, c, okcb, errcb) in sorted(regs_seen.items()):
        w = where(lc.relpath, lc.name, None)
        for kind, cb in (("result", okcb), ("error", errcb)):
            label = "%s reply to %s" % (kind, c.name)
            if cb[0] == "c" and cb[1] is None:
                ctx.violate("C06.reply", w, label, "%s registers no %s callback for %s: the %s reply produces no entity at the top (the application is never told)" % (
                    lc.name, "error" if kind == "error" else "success", c.name, kind))
                continue
            doms = {}
            try:
                res = enumerate_cells(lambda cell, d: sim.run_callback(lc, cb, kind, cell, d), doms, max_cells=500)
            except Budget:
                ctx.undecided("C06.reply", w, label, "budget exceeded")
                continue
            bad = []
            for cell, rs in res:
                lo, hi = ups(rs["effects"])
                if (lo, hi) != (1, 1) and not rs["raised"]:
                    bad.append("%s entities delivered%s" % ((lo, hi), " when " + cell_label(cell) if cell else ""))
                if rs["raised"] and "not callable" in rs["raised"]:
                    bad.append(rs["raised"])
            ctx.check("C06.reply", not bad, w, label, "; ".join(bad[:2]), "callback delivers exactly one entity")


def rule_in(ctx, repo, routing, tier):
    total = 0
    for flags in configs(tier):
        sim = GroupSim(repo, flags)
        fl = flag_label(flags)
        for tag in INCOMING_TAGS:
            doms = {}
            w = where("yowsup/layers/__init__.py", "YowParallelLayer.receive", None)
            try:
                res = enumerate_cells(lambda cell, d: sim.receive(tag, cell, d), doms, max_cells=6000)
            except Budget:
                ctx.undecided("C06.in", w, "receive <%s> [modules %s]" % (tag, fl), "cell enumeration exceeded its budget")
                continue
            try:
                for base in pattern_cells(tag, routing):
                    for c2, r2 in enumerate_cells(lambda cell, d, base=base: sim.receive(tag, {**base, **cell}, d), doms, max_cells=6000):
                        res.append(({**base, **c2}, r2))
            except Budget:
                ctx.undecided("C06.in", w, "receive <%s> [modules %s] (pattern cells)" % (tag, fl), "cell enumeration exceeded its budget")
                continue
            total += len(res)
            bad = {}
            nsup = 0
            for cell, rs in res:
                view = cell_view(cell)
                if excluded(tag, view, routing):
                    continue
                want, pat = expected_up(tag, view, routing, flags)
                lo, hi = ups(rs["effects"])
                lab = cell_label(cell)
                if rs["raised"]:
                    if documented_raise(tag, view, routing):
                        continue
                    if want:
                        bad.setdefault("handling raises %s" % rs["raised"][:70], []).append(lab)
                    continue
                nones = [e for e in flat_effects(rs["effects"]) if e[0] == "UP" and e[1] == ("c", None)]
                if nones:
                    bad.setdefault("None is delivered instead of an entity", []).append(lab)
                    continue
                if hi > 1:
                    bad.setdefault("delivered %s times" % hi, []).append(lab)
                elif want == 1 and (lo, hi) != (1, 1):
                    bad.setdefault("supported stanza produces no entity", []).append(lab)
                elif want == 0 and pat is not None and (lo, hi) != (0, 0):
                    bad.setdefault("delivered although module %s is left out" % pat.get("module"), []).append(lab)
                if want == 1:
                    nsup += 1
            label = "receive <%s> [modules %s]" % (tag, fl)
            if bad:
                for what, labs in sorted(bad.items()):
                    ctx.violate("C06.in", w, label + ": " + what, "%s in %d cell(s), e.g. %s" % (what, len(labs), labs[0][:160]))
            else:
                ctx.hold("C06.in", w, label, "%d cell(s), %d supported, each delivered exactly once; none twice" % (len(res), nsup))
    ctx.units["C06.incoming_cells"] = total


def rule_split(ctx, repo):
    v, se = default_layers(repo, dict.fromkeys(FLAGS, True))
    layers = flatten(v)
    if layers is None:
        ctx.undecided("C06.split", where("yowsup/stacks/yowstack.py", "YowStackBuilder.getDefaultLayers", None), "default layers", "not evaluated")
        return
    control = layers[5]
    pair = layers[6]
    runner = LayerRunner(repo)
    for tag in INCOMING_TAGS:
        # control layer
        doms = {}
        try:
            res = enumerate_cells(lambda cell, d: runner.run(control, "receive", lambda it: [symbolic_node(tag)], cell, d), doms, max_cells=500)
        except Budget:
            ctx.undecided("C06.split", where(control.relpath, control.name + ".receive", None), "<%s>" % tag, "budget")
            continue
        bad = []
        for cell, rs in res:
            view = cell_view(cell)
            lo, hi = ups(rs["effects"])
            consumed = tag == "notification" and view.get("type") == "encrypt" and (view.get("<count>") or view.get("<identity>"))
            if rs["raised"]:
                continue
            if consumed:
                if hi != 0:
                    bad.append("consumed encrypt notification is also forwarded (%s)" % cell_label(cell))
            elif (lo, hi) != (1, 1):
                bad.append("forwarded %s times when %s" % ((lo, hi), cell_label(cell) or "always"))
            else:
                same = [e for e in flat_effects(rs["effects"]) if e[0] == "UP"][0][1]
                if not (same[0] == "node" and same[1].symbolic and same[1].path == ()):
                    bad.append("forwards something other than the incoming stanza")
        ctx.check("C06.split", not bad, where(control.relpath, control.name + ".receive", None), "control layer, <%s>" % tag, "; ".join(bad[:2]), "passed up exactly once (encrypt notifications consumed)")
        # send || receive pair, plaintext stanza (no enc child)
        tot = {}
        for L in pair:
            doms = {}
            try:
                res = enumerate_cells(lambda cell, d: runner.run(L, "receive", lambda it: [symbolic_node(tag)], cell, d), doms, max_cells=500)
            except Budget:
                ctx.undecided("C06.split", where(L.relpath, L.name + ".receive", None), "<%s>" % tag, "budget")
                res = []
            for cell, rs in res:
                view = cell_view(cell)
                if view.get("<enc>"):
                    continue       # encrypted envelopes are C03's
                key = tuple(sorted((k, str(v)) for k, v in view.items() if k in ("type", "<enc>")))
                lo, hi = ups(rs["effects"])
                tot.setdefault(L.name, []).append((key, lo, hi, cell_label(cell)))
        if tag == "receipt":
            # the same with history: a stanza was sent encrypted earlier (it sits in the sender half's queue of sent
            # stanzas) and its receipt arrives - a retry receipt is consumed (answered and re-sent), every other receipt
            # still reaches the application exactly once
            for L in pair:
                if repo.find_method(L, "enqueueSent")[1] is None:
                    continue

                def with_history(cell, d, L=L):
                    it = Interp(repo, cell, d, hooks=runner.hooks())
                    it.layer_base = runner.base
                    layer = runner.make_layer(it, L)
                    it.method_call(layer, "enqueueSent", [symbolic_node("message")], {}, {"@module": L.module, "@owner": L}, 0, None)
                    it.effects[:] = []
                    k_, m_ = repo.find_method(L, "receive")
                    rs = {"raised": None}
                    try:
                        it.call_function(m_, k_, layer, [symbolic_node(tag)], {}, depth=0)
                    except _Raise as r:
                        rs["raised"] = r.text
                    rs["effects"] = it.effects
                    return rs, it
                try:
                    res = enumerate_cells(with_history, {}, max_cells=500)
                except Budget:
                    ctx.undecided("C06.split", where(L.relpath, L.name + ".receive", None), "<receipt> for a queued stanza", "budget")
                    continue
                bad = []
                for cell, rs in res:
                    view = cell_view(cell)
                    if rs["raised"]:
                        continue
                    lo, hi = ups(rs["effects"])
                    if view.get("type") == "retry":
                        if hi != 0:
                            bad.append("a retry receipt for a queued stanza is also passed up")
                    elif (lo, hi) != (1, 1):
                        bad.append("a receipt for a stanza sent encrypted earlier is passed up %s times when %s" % ((lo, hi), cell_label(cell) or "always"))
                ctx.check("C06.split", not bad, where(L.relpath, L.name + ".receive", None), "<receipt> for a stanza sent encrypted earlier",
                          "; ".join(sorted(set(bad))[:2]) + " - the receipt reaches nobody (the receiving half ignores receipts)", "retry receipts consumed, every other receipt passed up once (%d cell(s))" % len(res))
        sums = [sum(min(x[1] for x in v) for v in tot.values()), sum(max(x[2] for x in v) for v in tot.values())] if tot else [0, 0]
        by = {name: (min(x[1] for x in v), max(x[2] for x in v)) for name, v in tot.items()}
        ok = sums == [1, 1]
        ctx.check("C06.split", ok, where(pair[0].relpath, "%s || %s" % (pair[0].name, pair[1].name), None), "encryption pair, <%s>" % tag,
                  "the two encryption layers together forward the stanza %s times: %s" % (sums, by), "forwarded by exactly one of the two: %s" % by)
    # the outgoing direction: whatever is not a message to be encrypted passes the control layer once and leaves the
    # send || receive pair once - the very stanza that came in (both halves see every outgoing stanza)
    for tag in OUTGOING_PLAIN_TAGS:
        per = {}
        for L in [control] + list(pair):
            try:
                res = enumerate_cells(lambda cell, d, L=L: runner.run(L, "send", lambda it: [symbolic_node(tag)], cell, d), {}, max_cells=500)
            except Budget:
                ctx.undecided("C06.split", where(L.relpath, L.name + ".send", None), "outgoing <%s>" % tag, "budget")
                per = None
                break
            lo = hi = None
            other = []
            for cell, rs in res:
                if rs["raised"]:
                    other.append("raises %s" % rs["raised"][:50])
                    continue
                l_, h_ = downs(rs["effects"])
                lo, hi = (l_ if lo is None else min(lo, l_)), (h_ if hi is None else max(hi, h_))
                for e in flat_effects(rs["effects"]):
                    if e[0] == "DOWN" and not (e[1][0] == "node" and e[1][1].symbolic and e[1][1].path == ()):
                        other.append("sends something other than the outgoing stanza")
            per[L.name] = (lo or 0, hi or 0, other)
        if per is None:
            continue
        c_lo, c_hi, c_other = per[control.name]
        ctx.check("C06.split", (c_lo, c_hi) == (1, 1) and not c_other, where(control.relpath, control.name + ".send", None), "control layer, outgoing <%s>" % tag,
                  "an outgoing <%s> passes the control layer %s times%s" % (tag, (c_lo, c_hi), "; " + c_other[0] if c_other else ""), "passed down exactly once, unchanged")
        tot_lo = sum(per[L.name][0] for L in pair)
        tot_hi = sum(per[L.name][1] for L in pair)
        oth = [x for L in pair for x in per[L.name][2]]
        ctx.check("C06.split", (tot_lo, tot_hi) == (1, 1) and not oth, where(pair[0].relpath, "%s || %s" % (pair[0].name, pair[1].name), None), "encryption pair, outgoing <%s>" % tag,
                  "the two encryption layers together send an outgoing <%s> %s times (%s): every such stanza reaches the server that often%s" % (
                      tag, (tot_lo, tot_hi), {L.name: per[L.name][:2] for L in pair}, "; " + oth[0] if oth else ""),
                  "sent by exactly one of the two: %s" % {L.name: per[L.name][:2] for L in pair})


def run(ctx):
    ctx.rule("C06.base", "group and dispatch semantics interpreted from the repo's code", floor=16)
    ctx.rule("C06.out", "every concrete entity class forwarded exactly once / never twice, per module selection", floor=200)
    ctx.rule("C06.in", "every incoming cell delivered exactly once when supported, never twice", floor=28)
    ctx.rule("C06.split", "encryption layers partition the incoming tags; outgoing plain stanzas leave them once", floor=38)
    ctx.rule("C06.eqser", "forwarded stanza is the entity's own serialisation", floor=50)
    ctx.rule("C06.reply", "both reply kinds handled by every registration", floor=30)
    ctx.assume("reference/routing.json lists the supported kinds (reviewed table)")
    ctx.assume("a parsed payload carries one payload kind (or none / an unmodelled one) plus optionally a sender-key distribution")
    ctx.assume("inside entity / attribute code, attributes never compared with a constant are taken as present (documented stanza shape); undecidable tests there take a fixed default - they cannot emit routing effects")
    repo = ctx.repo
    routing = load_routing()
    from .c18 import rule_composition
    if not rule_composition(ctx, "C06.base"):
        return
    sim = GroupSim(repo)
    for c in sim.layer_classes:
        repo.consulted.add(c.relpath)
    if not rule_base(ctx, sim):
        return
    regs = ctx.guarded("C06.out", rule_out, ctx, repo, routing, ctx.tier)
    ctx.guarded("C06.reply", rule_reply, ctx, repo, regs)
    # a reply can only reach its callback if the request was registered before it went down (C08.reg) and the entry is
    # consumed exactly once (C08.pop): adopted, so that a registry change is reported against routing as well
    from . import c08
    from ..report import Ctx
    scratch = Ctx(ctx.repo, "C08", ctx.tier)
    for r in ("C08.reg", "C08.pop", "C08.id"):
        scratch.rule(r, "", 0)
    c08.rule_reg(scratch)
    c08.rule_pop(scratch)
    ctx.guarded("C06.reply", c08.rule_id, scratch)
    ctx.adopt(scratch, {"C08.reg": "C06.reply", "C08.pop": "C06.reply", "C08.id": "C06.reply"})
    ctx.guarded("C06.in", rule_in, ctx, repo, routing, ctx.tier)
    ctx.guarded("C06.split", rule_split, ctx, repo)
