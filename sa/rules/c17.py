"""C17 - identity pinning.

C17.trust    isTrustedIdentity: True for unknown recipients, otherwise equality of the stored key of that
             recipient with the presented key (same serialisation as saveIdentity stores)
C17.guard    every overwrite of a pin (trust_identity / saveIdentity call) is control-dependent on the
             auto-trust switch, whose default is off at every read
C17.refuse   without auto-trust: create_session re-raises, the key-fetch callback files the jid under errors,
             send callbacks do not send when errors are present, the receive handler neither delivers nor stores
C17.persist  the pin is a committed row read back by the same key
C17.auto     with auto-trust the presented key (from the exception) is what gets stored
"""
import ast

from ..cfg import CFG, edge_region, calls_in, fmt_path, walk_no_nested
from ..consts import Evaluator, alts
from ..deps import node_exprs
from ..report import where
from ..repo import unparse, is_self_attr, params_of
from ..terms import PathEval, all_path_results, show
from . import c13

IKS = "yowsup/axolotl/store/sqlite/liteidentitykeystore.py"
MGR = "yowsup/axolotl/manager.py"
BASE = "yowsup/layers/axolotl/layer_base.py"
SEND = "yowsup/layers/axolotl/layer_send.py"
RECV = "yowsup/layers/axolotl/layer_receive.py"
PROPS = "yowsup/layers/axolotl/props.py"

OVERWRITERS = ("trust_identity", "saveIdentity")


def show_v(v):
    from ..absint import show as _s
    return _s(v)[:40]


def rule_trust(ctx):
    """the history below is played twice: on the identity key store itself and through the store facade the library is
    handed (LiteAxolotlStore, built by its own constructor) - a cache or filter in front of the table is part of the answer"""
    _trust_history(ctx, facade=False)
    _trust_history(ctx, facade=True)


def _trust_history(ctx, facade):
    """trust-on-first-use, by abstract execution of the identity store on an opaque database connection.  A history
    is played on one store object: saveIdentity(R1, K1) - the INSERT's bound values are captured - then
    isTrustedIdentity is asked with the database answering from that row:
      (R1, K1) -> True      the pinned key is recognised (stored and compared in the same serialisation)
      (R1, K2) -> False     a different key for a pinned recipient is refused
      (R2, K1) with no row -> True     first contact
    and every lookup is a SELECT on the pin table keyed by the recipient that was asked about.  Serialisations are
    opaque but distinguishable: serialize() of the public key of K is SER(PUB(K)), of K itself SER(K)."""
    from ..absint import Interp, _Raise, NeedAtom, Budget, DomainGrew, C_NONE, enumerate_cells
    from .. import sql
    repo = ctx.repo
    cls = repo.cls(IKS, "LiteIdentityKeyStore")
    fn = repo.method(IKS, "LiteIdentityKeyStore", "isTrustedIdentity")
    sv = repo.method(IKS, "LiteIdentityKeyStore", "saveIdentity")
    w = where(IKS, "LiteIdentityKeyStore.isTrustedIdentity", getattr(fn, "lineno", None))
    ws = where(IKS, "LiteIdentityKeyStore.saveIdentity", getattr(sv, "lineno", None))
    if fn is None or sv is None:
        ctx.undecided("C17.trust", w, "identity store", "isTrustedIdentity / saveIdentity vanished")
        return
    fac = repo.cls(c13.FACADE[0], c13.FACADE[1])
    if facade:
        if repo.find_method(fac, "isTrustedIdentity")[1] is None or repo.find_method(fac, "saveIdentity")[1] is None:
            ctx.undecided("C17.trust", where(c13.FACADE[0], c13.FACADE[1], None), "store facade", "isTrustedIdentity / saveIdentity vanished from the facade")
            return
        w = where(c13.FACADE[0], c13.FACADE[1] + ".isTrustedIdentity", getattr(repo.find_method(fac, "isTrustedIdentity")[1], "lineno", None))
        ws = where(c13.FACADE[0], c13.FACADE[1] + ".saveIdentity", getattr(repo.find_method(fac, "saveIdentity")[1], "lineno", None))

    def label(v):
        return v[1] if isinstance(v, tuple) and v[0] == "ext" else None

    def run(cell, domains):
        script = {"row": None}

        def wrap(kind):
            def h(itp, recv, a, k, env, d, e):
                r = itp.force(recv) if hasattr(itp, "force") else recv
                inner = label(r)
                if inner is None and isinstance(r, tuple) and r[0] == "fn":
                    inner = None
                if inner is None:
                    return None
                return ("ext", "%s(%s)" % (kind, inner), [])
            return h

        def fetchone(itp, recv, a, k, env, d, e):
            return script["row"] if script["row"] is not None else C_NONE

        def fetchall(itp, recv, a, k, env, d, e):
            return ("list", [script["row"]]) if script["row"] is not None else ("list", [])
        hooks = {"ext:*.getPublicKey": wrap("PUB"), "ext:*.serialize": wrap("SER"), "anymethod:getPublicKey": wrap("PUB"), "anymethod:serialize": wrap("SER"),
                 "ext:*.fetchone": fetchone, "anymethod:fetchone": fetchone, "ext:*.fetchall": fetchall, "anymethod:fetchall": fetchall}
        it = Interp(repo, cell, domains, hooks=hooks)
        db = ("ext", "db", [])
        if facade:
            store = it.construct(fac, [("c", "/store/axolotl.db")], {}, {"@module": fac.module, "@owner": None}, 0, None)
        else:
            store = it.construct(cls, [db], {}, {"@module": cls.module, "@owner": None}, 0, None)
        R1, R2, K1, K2 = ("ext", "R1", []), ("ext", "R2", []), ("ext", "K1", []), ("ext", "K2", [])
        out = {"insert": None, "asks": []}

        def executes(n0):
            ex = []
            for e in it.effects[n0:]:
                if e[0] == "CALL" and e[1].split(".")[-1] in ("execute", "executemany") and e[2] and e[2][0][0] == "c" and isinstance(e[2][0][1], str):
                    ps_ = it.iterate(e[2][1]) if len(e[2]) > 1 else []
                    ex.append((sql.parse(e[2][0][1]), ps_))
            return ex
        n0 = len(it.effects)
        try:
            it.method_call(store, "saveIdentity", [R1, K1], {}, {"@module": cls.module, "@owner": None}, 0, None)
        except _Raise as r:
            out["insert"] = ("raise", r.text)
            return out, it
        ins = [(st, ps_) for st, ps_ in executes(n0) if st.verb == "INSERT"]
        if len(ins) != 1 or ins[0][1] is None or len(ins[0][0].columns) != len(ins[0][1]):
            out["insert"] = ("shape", [st.text for st, _p in executes(n0)])
            return out, it
        row = dict(zip(ins[0][0].columns, ins[0][1]))
        out["insert"] = ("ok", ins[0][0].table, row)
        for (who, key, has_row, want) in ((R1, K1, True, True), (R1, K2, True, False), (R2, K1, False, True)):
            n0 = len(it.effects)
            res = {"who": label(who), "key": label(key), "row": has_row, "want": want, "ret": None, "raised": None, "select": None}
            # the database answers the SELECT that is about to be issued: column order as asked for
            state = {"st": None}

            def answer():
                sel = [x for x in executes(n0) if x[0].verb == "SELECT"]
                if not sel:
                    return None
                st_, ps_ = sel[-1]
                res["select"] = (st_.table, list(st_.columns), [c_ for (c_, o_, v_) in st_.where], [label(p_) for p_ in (ps_ or [])])
                if not has_row:
                    return None
                cols = st_.columns if st_.columns != ["*"] else ["_id"] + list(row)
                return ("list", [row.get(c_.strip(), ("ext", "col:" + c_.strip(), [])) for c_ in cols])

            def fo(itp, recv, a, k, env, d, e):
                r_ = answer()
                return r_ if r_ is not None else C_NONE

            def fa(itp, recv, a, k, env, d, e):
                r_ = answer()
                return ("list", [r_]) if r_ is not None else ("list", [])
            def rows_of(itp, v):
                # iterating the cursor (what execute() returned, or the cursor it was called on) gives the rows
                if (label(v) and label(v).split(".")[-1] in ("execute()", "cursor()")) or (v[0] == "fn" and v[1] in ("execute", "cursor")):
                    r_ = answer()
                    return [r_] if r_ is not None else []
                return None
            it.hooks.update({"ext:*.fetchone": fo, "anymethod:fetchone": fo, "ext:*.fetchall": fa, "anymethod:fetchall": fa, "iterate": rows_of})
            try:
                res["ret"] = it.method_call(store, "isTrustedIdentity", [who, key], {}, {"@module": cls.module, "@owner": None}, 0, None)
            except _Raise as r:
                res["raised"] = r.text
            if res["select"] is None:
                answer()
            out["asks"].append(res)
        return out, it
    try:
        cells = enumerate_cells(run, {}, max_cells=64)
    except (Budget, NeedAtom, DomainGrew) as x:
        ctx.undecided("C17.trust", w, "identity store history", "could not be executed: %s" % (x,))
        return
    bad_store, bad = [], {}
    n = 0
    for cell, out in cells:
        ins = out["insert"]
        if ins is None or ins[0] != "ok":
            bad_store.append("saveIdentity does not issue one INSERT with bound values (%s)" % (ins,))
            continue
        _ok, table, row = ins
        vals = {c_: label(v_) for c_, v_ in row.items()}
        if "R1" not in vals.values() or not any(v_ and "K1" in v_ for v_ in vals.values()):
            bad_store.append("the INSERT binds %s: the pin must carry the recipient and a serialisation of the key" % vals)
        for a in out["asks"]:
            n += 1
            case = "(%s, %s)%s" % (a["who"], a["key"], "" if a["row"] else " unknown recipient")
            sel = a["select"]
            if sel is None or sel[0] != table or sel[3] != [a["who"]] or len(sel[2]) != 1 or vals.get(sel[2][0]) != "R1":
                bad.setdefault(case, []).append("the lookup is not a SELECT on %s keyed by the recipient asked about (%s)" % (table, sel) if sel is not None else
                                                "answers %s without asking the pin table about this recipient (an earlier answer is remembered: a changed key of a contact seen before is accepted)" % (show_v(a["ret"]) if a["ret"] is not None else "nothing"))
                continue
            if a["raised"]:
                bad.setdefault(case, []).append("raises %s" % a["raised"][:50])
                continue
            r = a["ret"]
            got = r[1] if isinstance(r, tuple) and r[0] == "c" else None
            if not isinstance(got, bool) or got != a["want"]:
                why = {(True, True): "the pinned key is not recognised (stored as %s, compared in another form)" % sorted(v_ for v_ in vals.values() if v_ and "K1" in v_),
                       (True, False): "a DIFFERENT key is accepted for a recipient whose key is pinned",
                       (False, True): "a recipient without a pin is not trusted on first contact"}[(a["row"], a["want"])]
                bad.setdefault(case, []).append("%s: returns %s" % (why, show_v(r) if r is not None else None))
    ctx.check("C17.trust", not bad_store, ws, "saveIdentity pins (recipient, serialised key)", "; ".join(sorted(set(bad_store))[:2]), "one INSERT binding the recipient and a serialisation of the key")
    for case in ("(R1, K1)", "(R1, K2)", "(R2, K1) unknown recipient"):
        what = {"(R1, K1)": "the pinned key is trusted", "(R1, K2)": "another key for a pinned recipient is refused", "(R2, K1) unknown recipient": "an unknown recipient is trusted (first use)"}[case] + (" (asked through the store facade)" if facade else "")
        if bad_store:
            continue
        ctx.check("C17.trust", case not in bad, w, what, "; ".join(sorted(set(bad.get(case, [])))[:2]), "decided by the stored key of that recipient (%d path class(es))" % len(cells))


def autotrust_test(ctx, m, cls, fn, test_expr, autotrust_params):
    """Is this test the auto-trust switch?  -> True / False"""
    t = test_expr
    if isinstance(t, ast.Name) and t.id in autotrust_params:
        return True
    if isinstance(t, ast.Call) and isinstance(t.func, ast.Attribute) and t.func.attr == "getProp" and t.args:
        ev = Evaluator(ctx.repo, m, cls)
        a = alts(ev.ev(t.args[0]))
        want = alts(Evaluator(ctx.repo, ctx.repo.module(PROPS), None).ev(ast.Name(id="PROP_IDENTITY_AUTOTRUST", ctx=ast.Load())))
        dflt = alts(ev.ev(t.args[1])) if len(t.args) > 1 else [None]
        return bool(a and want and a == want and dflt is not None and not dflt[0])
    if isinstance(t, ast.Call) and is_self_attr(t.func) and not t.args and not t.keywords and cls is not None:
        # a wrapper of the switch: a method of the class that does nothing but return the switch
        k, h = ctx.repo.find_method(cls, t.func.attr)
        if h is not None:
            body = [st for st in h.body if not (isinstance(st, ast.Expr) and isinstance(st.value, ast.Constant))]
            if len(body) == 1 and isinstance(body[0], ast.Return) and body[0].value is not None:
                return autotrust_test(ctx, k.module, k, h, body[0].value, ())
    return False



LIBEXC = ("ext", "UntrustedIdentityException", [])


def _presented(v, which):
    """is v the name / key carried by the library exception LIBEXC (accessor call or attribute)"""
    names = {"name": ("getName", ".name", ".getName"), "key": ("getIdentityKey", ".identityKey", ".getIdentityKey")}[which]
    return isinstance(v, tuple) and v[0] == "fn" and v[1] in names and any(x[:2] == LIBEXC[:2] for x in v[2] if isinstance(x, tuple))


def run_create_session(repo, autotrust, raises, pass_flag=True):
    """abstract execution of AxolotlManager.create_session with the session builder opaque; -> (outcome, trusted calls)"""
    from ..absint import Interp, Obj, _Raise, C_NONE
    cls = repo.cls(MGR, "AxolotlManager")
    trusted = []

    def process(itp, recv, a, k, env, d, e):
        trusted_before = len(trusted)
        attempts.append(trusted_before)
        # the library refuses the bundle as long as the presented identity is not the pinned one (once it has been
        # trusted, the same bundle is accepted)
        if raises and not trusted_before:
            raise _Raise(LIBEXC, "library raises UntrustedIdentityException")
        return C_NONE

    def trust(itp, fn, owner, self_val, a, k):
        trusted.append(list(a))
        return C_NONE
    attempts = []
    run_create_session.attempts = attempts
    it = Interp(repo, {}, {}, hooks={"ext:*.processPreKeyBundle": process, "fn:trust_identity": trust})
    it.loop_unroll = 6            # a retry loop around the library call is followed round by round (its state is concrete)
    o = Obj(cls)
    o.fields["_store"] = ("ext", "store", [])
    args = [("c", "peer"), ("ext", "bundle", [])] + ([("c", autotrust)] if pass_flag else [])
    try:
        it.method_call(("obj", o), "create_session", args, {}, {"@module": cls.module, "@owner": cls}, 0, None)
    except _Raise as r:
        return ("raise", r.exc), trusted
    return ("ret", None), trusted


def run_receive_untrusted(repo, autotrust):
    """abstract execution of AxolotlReceivelayer.handleEncMessage when decryption raises the library's untrusted-identity
    error once (a second attempt succeeds); autotrust: True / False / None (property never set).
    -> (deliveries, trust calls, decrypt attempts, raised)"""
    from ..absint import Interp, Obj, Node, _Raise, C_NONE, flat_effects
    from ..layers import LayerRunner, symbolic_node
    from ..consts import Evaluator as _E, alts as _a
    cls = repo.cls(RECV, "AxolotlReceivelayer")
    runner = LayerRunner(repo, {})
    hooks = runner.hooks()
    attempts, trusted = [], []

    def decrypt(itp, recv, a, k, env, d, e):
        attempts.append(1)
        if len(attempts) == 1:
            raise _Raise(LIBEXC, "library raises UntrustedIdentityException")
        return ("ext", "plaintext", [])
    for h in ("decrypt_pkmsg", "decrypt_msg", "group_decrypt"):
        hooks["ext:manager." + h] = decrypt
    hooks["method:parseAndHandleMessageProto"] = lambda itp, recv, a, k, env, d, e: C_NONE
    gp0 = hooks["method:getProp"]
    pm = repo.module(PROPS)
    PROP = None
    for st in pm.tree.body:
        if isinstance(st, ast.Assign) and isinstance(st.targets[0], ast.Name) and st.targets[0].id == "PROP_IDENTITY_AUTOTRUST" and isinstance(st.value, ast.Constant):
            PROP = st.value.value

    def getprop(itp, recv, a, k, env, d, e):
        if a and a[0] == ("c", PROP):
            if autotrust is None:
                return a[1] if len(a) > 1 else C_NONE
            return ("c", autotrust)
        return gp0(itp, recv, a, k, env, d, e)
    hooks["method:getProp"] = getprop

    def trust(itp, recv, a, k, env, d, e):
        trusted.append(list(a))
        return C_NONE
    hooks["method:trust_identity"] = trust
    cell = {("A", (), "participant"): None, ("A", (), "from"): "<other>", ("A", (), "id"): "<other>"}
    it = Interp(repo, cell, {}, hooks=hooks)
    it.layer_base = runner.base
    it.pure_depth = 0
    layer = runner.make_layer(it, cls)
    layer[1].fields["_manager"] = ("ext", "manager", [])
    hooks_trust = trust
    it.hooks["ext:manager.trust_identity"] = trust
    node = symbolic_node("message")
    encn = Node(("c", "enc"), None)
    encn.attrs.update({"type": ("c", "pkmsg"), "v": ("c", "2")})
    encn.data = ("ext", "ciphertext", [])
    node[1].children.append(("one", encn))
    node[1].path = None
    node[1].attrs.update({"id": ("c", "MID"), "from": ("c", "peer@s.whatsapp.net"), "type": ("c", "text"), "t": ("c", "1")})
    it.effects[:] = []
    raised = None
    try:
        it.method_call(layer, "handleEncMessage", [node], {}, {"@module": cls.module, "@owner": cls}, 0, None)
    except _Raise as r:
        raised = r.text
    ups = [e for e in flat_effects(it.effects) if e[0] == "UP"]
    return ups, trusted, len(attempts), raised, PROP


def run_key_fetch(repo):
    """getKeysFor([good, bad], cb), then its success continuation with a reply carrying bundles for both; the manager's
    create_session refuses `bad` with the layer's UntrustedIdentityException.  -> {success, errors, autotrust_args}"""
    from ..absint import Interp, Obj, _Raise, C_NONE, show
    from ..layers import LayerRunner
    from ..repo import ClassInfo
    cls = repo.cls(BASE, "AxolotlBaseLayer")
    runner = LayerRunner(repo, {})
    hooks = runner.hooks()
    sent, got, asked = [], [], []
    exc_cls = [c for c in repo.by_simple.get("UntrustedIdentityException", []) if c.relpath.startswith("yowsup/axolotl/")]
    if not exc_cls:
        return {"problem": "the layer's UntrustedIdentityException class was not found"}

    def sendiq(itp, recv, a, k, env, d, e):
        sent.append((list(a), dict(k)))
        return C_NONE
    hooks["method:_sendIq"] = sendiq

    def create(itp, recv, a, k, env, d, e):
        asked.append(k.get("autotrust", a[2] if len(a) > 2 else ("c", False)))
        if a and a[0] == ("c", "bad"):
            raise _Raise(("obj", Obj(exc_cls[0])), "UntrustedIdentityException")
        return C_NONE
    hooks["method:create_session"] = create
    gp0 = hooks["method:getProp"]

    def getprop(itp, recv, a, k, env, d, e):
        if len(a) > 1:
            return a[1]                 # nothing is configured: every option reads as its default
        return gp0(itp, recv, a, k, env, d, e)
    hooks["method:getProp"] = getprop
    stub = ast.parse("class R:\n    def getJids(self):\n        return ['good@s.whatsapp.net', 'bad@s.whatsapp.net']\n    def getErrors(self):\n        return {}\n    def getPreKeyBundleFor(self, jid):\n        return __bundle__(jid)\n").body[0]
    stubcls = ClassInfo(cls.module, stub)
    stubcls.bases = []
    stubcls._mro = [stubcls]
    hooks["builtin:__bundle__"] = lambda itp, e, a, k, env, d: ("ext", "bundle", list(a))
    hooks["classmethod:fromProtocolTreeNode"] = lambda itp, c, a, k, env, d, e: ("obj", Obj(stubcls))
    hooks["builtin:__result__"] = lambda itp, e, a, k, env, d: (got.append(list(a)), C_NONE)[1]
    it = Interp(repo, {}, {}, hooks=hooks)
    it.layer_base = runner.base
    it.pure_depth = 0
    layer = runner.make_layer(it, cls)
    layer[1].fields["_manager"] = ("obj", Obj(None))
    lam = ast.parse("lambda ok, err: __result__(ok, err)", mode="eval").body
    cb = ("closure", lam, {"@module": cls.module, "@owner": None}, None, None)
    jids = ("list", [("c", "good@s.whatsapp.net"), ("c", "bad@s.whatsapp.net")])
    try:
        it.method_call(layer, "getKeysFor", [jids, cb], {}, {"@module": cls.module, "@owner": cls}, 0, None)
        if len(sent) != 1 or len(sent[0][0]) < 2:
            return {"problem": "getKeysFor registered %d request(s)" % len(sent)}
        ent, on_success = sent[0][0][0], sent[0][0][1]
        if ent[0] != "obj" or "jids" not in ent[1].fields:
            req = Obj(None)
            req.fields["jids"] = jids
            ent = ("obj", req)
        it.apply(on_success, [("ext", "resultNode", []), ent], {}, {}, 0, None)
    except _Raise as r:
        return {"problem": "raises %s" % r.text[:60]}
    if len(got) != 1 or len(got[0]) != 2:
        return {"problem": "the result callback was called %d time(s)" % len(got)}
    ok, err = got[0]
    succ = [x[1] for x in ok[1]] if ok[0] == "list" and all(x[0] == "c" for x in ok[1]) else None
    errs = None
    if err[0] == "dict":
        errs = set()
        for k_, v_ in err[1].items():
            if isinstance(k_, tuple) and k_ and k_[0] == "dyn":
                kk = v_[1][0]
                errs.add(kk[1] if kk[0] == "c" else show(kk))
            else:
                errs.add(k_)
    if succ is None or errs is None:
        return {"problem": "callback arguments are not a list and a dict: %s / %s" % (show(ok)[:30], show(err)[:30])}
    return {"success": succ, "errors": errs, "autotrust_args": asked}


def rule_guard(ctx):
    repo = ctx.repo
    sites = 0
    # parameters named as switches: functions with a parameter whose every call site passes the switch
    switch_params = {}   # (relpath, cls, fn name) -> param
    mgr = repo.cls(MGR, "AxolotlManager")
    cs = repo.method(MGR, "AxolotlManager", "create_session")
    ps = [a.arg for a in cs.args.args]
    if "autotrust" in ps:
        d = cs.args.defaults[ps.index("autotrust") - (len(ps) - len(cs.args.defaults))] if ps.index("autotrust") >= len(ps) - len(cs.args.defaults) else None
        ok = d is not None and isinstance(d, ast.Constant) and d.value is False
        ctx.check("C17.guard", ok, where(MGR, "AxolotlManager.create_session", cs.lineno), "default of autotrust", "auto-trust must default to off", "autotrust defaults to False")
        # all call sites of create_session pass the property (default False) or nothing
        for m in repo.modules.values():
            for c in list(m.classes.values()):
                for fname, fn in c.methods.items():
                    for call in ast.walk(fn):
                        if isinstance(call, ast.Call) and isinstance(call.func, ast.Attribute) and call.func.attr == "create_session":
                            kw = {k.arg: k.value for k in call.keywords}
                            v = kw.get("autotrust") or (call.args[2] if len(call.args) > 2 else None)
                            seen_ = 0
                            while isinstance(v, ast.Name) and seen_ < 4:
                                # a local bound exactly once in the function stands for what it was bound to
                                defs_ = [a_.value for a_ in ast.walk(fn) if isinstance(a_, ast.Assign) and len(a_.targets) == 1 and isinstance(a_.targets[0], ast.Name) and a_.targets[0].id == v.id]
                                stores_ = [x_ for x_ in ast.walk(fn) if isinstance(x_, ast.Name) and x_.id == v.id and isinstance(x_.ctx, ast.Store)]
                                if len(defs_) != 1 or len(stores_) != 1 or v.id in [a_.arg for a_ in fn.args.args]:
                                    break
                                v = defs_[0]
                                seen_ += 1
                            ok = v is None or (isinstance(v, ast.Constant) and v.value is False) or autotrust_test(ctx, m, c, fn, v, ())
                            repo.consulted.add(m.relpath)
                            ctx.check("C17.guard", ok, where(m.relpath, c.name + "." + fname, call.lineno), call,
                                      "create_session is called with autotrust=%s, which is not the auto-trust property (default off)" % (unparse(v) if v is not None else None), "autotrust comes from the property (default off)")
        switch_params[("AxolotlManager", "create_session")] = "autotrust"
    for m in repo.modules.values():
        if m.relpath.startswith("yowsup/demos/"):
            continue
        for c in m.classes.values():
            for fname, fn in c.methods.items():
                if fname in OVERWRITERS:
                    continue       # the delegation chain itself
                calls = [x for x in ast.walk(fn) if isinstance(x, ast.Call) and isinstance(x.func, ast.Attribute) and x.func.attr in OVERWRITERS]
                if not calls:
                    continue
                repo.consulted.add(m.relpath)
                g = CFG(fn)
                sp = switch_params.get((c.name, fname))
                for call in calls:
                    sites += 1
                    node = [n for n in g.live if any(x is call for e_ in node_exprs(n) for x in walk_no_nested(e_))]
                    w = where(m.relpath, c.name + "." + fname, call.lineno)
                    if not node:
                        ctx.undecided("C17.guard", w, call, "call not found in the CFG (nested function?)")
                        continue
                    node = node[0]
                    # the call must be unreachable once the "switch on" edge of every auto-trust test is removed: whatever
                    # the shape (if / else, `if not switch: raise`, a local holding the switch)
                    locals_ = {}
                    for a_ in ast.walk(fn):
                        if isinstance(a_, ast.Assign) and len(a_.targets) == 1 and isinstance(a_.targets[0], ast.Name):
                            locals_.setdefault(a_.targets[0].id, []).append(a_.value)
                    on_edges = {}
                    for t in g.live:
                        if t.kind != "test" or not isinstance(t.stmt, (ast.If, ast.While)):
                            continue
                        te, neg = t.stmt.test, False
                        while isinstance(te, ast.UnaryOp) and isinstance(te.op, ast.Not):
                            te, neg = te.operand, not neg
                        if isinstance(te, ast.Name) and te.id not in ((sp,) if sp else ()) and len(locals_.get(te.id, [])) == 1:
                            te = locals_[te.id][0]
                        if autotrust_test(ctx, m, c, fn, te, (sp,) if sp else ()):
                            on_edges[t.id] = "false" if neg else "true"
                    byp = g.path(g.entry, lambda x: x is node, edge_ok=lambda a, b, k: not (a.id in on_edges and k == on_edges[a.id])) if on_edges else True
                    guarded = byp is None
                    ctx.check("C17.guard", guarded, w, call, "a pinned identity is overwritten without testing the auto-trust switch: a changed key is accepted silently", "dominated by the auto-trust test")
    ctx.units["C17.overwrite_sites"] = sites


def refused_send_scenarios(repo):
    """three send-side histories on AxolotlSendLayer, abstractly executed; in each the key fetch (getKeysFor) reports an
    untrusted identity for one jid.  -> {scenario: (ok, text, key fetch reached?)} or None when the execution cannot be followed"""
    from ..absint import Obj, _Raise, C_NONE, NeedAtom, Budget, DomainGrew, enumerate_cells, flat_effects, Node
    from ..repo import ClassInfo
    from .c03 import mk_layer
    exc_cls = [c for c in repo.by_simple.get("UntrustedIdentityException", []) if c.relpath.startswith("yowsup/axolotl/")]
    if not exc_cls:
        return None
    GOOD, BAD, OWN, GROUP = "111@s.whatsapp.net", "666@s.whatsapp.net", "999@s.whatsapp.net", "123-456@g.us"
    gstub = ast.parse("class G:\n    def getParticipants(self):\n        return {%r: None, %r: None, %r: None}\n" % (GOOD, BAD, OWN)).body[0]

    def message(to):
        n = Node(("c", "message"), None)
        n.attrs.update({"id": ("c", "MSG-1"), "to": ("c", to), "type": ("c", "text")})
        p = Node(("c", "proto"), None)
        p.attrs.update({"mediatype": C_NONE})
        p.data = ("c", b"\x0a\x02hi")
        n.children.append(("one", p))
        return n

    def run(cell, domains, scenario):
        fetches = []

        def keys_hook(itp, recv, args, kwargs, env, depth, e):
            cb = args[1] if len(args) > 1 else kwargs.get("resultClbk")
            jl = itp.iterate(itp.force(args[0])) or []
            asked = [x[1] for x in jl if x[0] == "c"]
            fetches.append(asked)
            okj = [j for j in asked if j != BAD]
            errs = {j: ("obj", Obj(exc_cls[0])) for j in asked if j == BAD}
            itp.apply(cb, [("list", [("c", j) for j in okj]), ("dict", errs)], {}, env, depth, e)
            return C_NONE

        def sendiq(itp, recv, a, k, env, d, e):
            # the group-info request is answered at once
            if len(a) > 1 and a[1] != C_NONE:
                itp.apply(a[1], [("ext", "groupInfoResult", []), a[0]], {}, env, d, e)
            return C_NONE
        stubcls = ClassInfo(repo.cls(SEND, "AxolotlSendLayer").module, gstub)
        stubcls.bases = []
        stubcls._mro = [stubcls]

        def from_node(itp, c, a, k, env, d, e):
            if c.name == "InfoGroupsResultIqProtocolEntity":
                return ("obj", Obj(stubcls))
            return None
        hooks = {"method:getKeysFor": keys_hook, "method:_sendIq": sendiq, "classmethod:fromProtocolTreeNode": from_node,
                 "ext:manager.session_exists": lambda *a: ("c", False), "ext:*.isEmpty": lambda *a: ("c", True), "anymethod:isEmpty": lambda *a: ("c", True),
                 "ext:*.getUsername": lambda *a: ("c", OWN)}
        it, layer, cls = mk_layer(repo, SEND, "AxolotlSendLayer", cell, domains, hooks)
        it.pure_depth = 0
        env = {"@module": cls.module, "@owner": cls}
        raised = None
        try:
            if scenario == "contact":
                it.method_call(layer, "send", [("node", message(BAD))], {}, env, 0, None)
            elif scenario == "group":
                it.method_call(layer, "send", [("node", message(GROUP))], {}, env, 0, None)
            else:
                layer[1].fields["sentQueue"] = ("list", [("node", message(BAD))])
                r = Node(("c", "receipt"), None)
                r.attrs.update({"id": ("c", "MSG-1"), "from": ("c", BAD), "participant": C_NONE, "type": ("c", "retry"), "t": ("c", "1")})
                rn = Node(("c", "retry"), None)
                rn.attrs.update({"count": ("c", "1"), "id": ("c", "MSG-1"), "t": ("c", "1"), "v": ("c", "1")})
                r.children.append(("one", rn))
                reg = Node(("c", "registration"), None)
                reg.data = ("c", b"\x00\x00\x00\x01")
                r.children.append(("one", reg))
                it.method_call(layer, "receive", [("node", r)], {}, env, 0, None)
        except _Raise as x:
            raised = x.text
        enc_for = []
        for e in flat_effects(it.effects):
            if e[0] == "CALL" and e[1] == "manager.encrypt" and e[2]:
                enc_for.append(e[2][0][1] if e[2][0][0] == "c" else "?")
        return {"fetches": fetches, "enc_for": enc_for, "raised": raised}, it
    out = {}
    names = {"contact": "a message to a contact whose identity is refused", "retry": "a retry receipt of a contact whose identity is refused", "group": "a group message, one member's identity refused"}
    for scenario in ("contact", "retry", "group"):
        try:
            cells = enumerate_cells(lambda c, d, sc_=scenario: run(c, d, sc_), {}, max_cells=64)
        except (NeedAtom, Budget, DomainGrew):
            return None
        bad, fetched = [], True
        for cell, r in cells:
            if not r["fetches"]:
                fetched = False
                bad.append("no key fetch%s" % (" (raises %s)" % r["raised"][:50] if r["raised"] else ""))
                continue
            refused = [x for x in r["enc_for"] if x in (BAD.split("@")[0], BAD, "?")]
            if refused:
                bad.append("after the key fetch reported the identity of %s as untrusted, the session cipher is still asked to encrypt for %s" % (BAD, sorted(set(refused))))
            if scenario == "group" and GOOD.split("@")[0] not in r["enc_for"] and not r["raised"]:
                pass        # whether the trusted member gets the key is C03's business
        out[names[scenario]] = (not bad, "; ".join(sorted(set(bad))[:2]), fetched)
    return out


def rule_refuse(ctx):
    repo = ctx.repo
    # (a) create_session, abstractly executed with the library refusing the bundle: without auto-trust (flag False, or not
    # passed at all) the layer's own untrusted-identity error is raised and nothing is stored
    cs = repo.method(MGR, "AxolotlManager", "create_session")
    w = where(MGR, "AxolotlManager.create_session", cs.lineno)
    oks = []
    for pass_flag in (True, False):
        (out, exc), trusted = run_create_session(repo, False, True, pass_flag=pass_flag)
        mine = out == "raise" and ((exc[0] == "obj" and exc[1].cls is not None and exc[1].cls.name == "UntrustedIdentityException" and exc[1].cls.module.name.startswith("yowsup"))
                                   or (exc[0] == "fn" and exc[1] == "UntrustedIdentityException" and any(isinstance(x, tuple) and x[:1] == ("ext",) and "yowsup.axolotl.exceptions" in x[1] for x in exc[2])))
        oks.append(mine and not trusted)
    (out_ok, _x), t_ok = run_create_session(repo, False, False)
    ctx.check("C17.refuse", all(oks) and out_ok == "ret" and not t_ok, w, "except UntrustedIdentityException", "without auto-trust create_session must re-raise the untrusted-identity error (flag False: %s, flag omitted: %s)" % tuple(oks), "re-raised when auto-trust is off")
    # (b) the key-fetch callback, abstractly executed for a reply with keys for two jids of which the second presents an
    # identity the store refuses: the result callback gets the first jid as success and the second filed under the
    # errors; create_session is asked with the auto-trust property (default off)
    gk = repo.method(BASE, "AxolotlBaseLayer", "getKeysFor")
    wb = where(BASE, "AxolotlBaseLayer.getKeysFor.onSuccess", gk.lineno)
    res = run_key_fetch(repo)
    if res.get("problem"):
        ctx.undecided("C17.refuse", wb, gk, "key-fetch callback could not be followed: %s" % res["problem"])
    else:
        succ, errs = res["success"], res["errors"]
        ctx.check("C17.refuse", succ == ["good@s.whatsapp.net"], wb, "untrusted jid never reaches the success list",
                  "after the untrusted-identity error the jid is still added to the success list (or a good one is missing): success list %s" % succ, "untrusted jid never reaches the success list")
        ctx.check("C17.refuse", "bad@s.whatsapp.net" in errs and "good@s.whatsapp.net" not in errs, wb, "errorJids[jid] = e", "the untrusted jid must be filed under the errors (errors: %s)" % sorted(errs), "filed under errors")
        ctx.check("C17.refuse", res["autotrust_args"] == [("c", False), ("c", False)], wb, "create_session asked with the auto-trust property, default off",
                  "a jid must count as success only after create_session returned, and create_session must be given the auto-trust property (default off); it was given %s" % [show_v(x) for x in res["autotrust_args"]], "success recorded after the session was built")
    # (c) send-side callbacks: with errors present nothing is sent to a single recipient
    sc = refused_send_scenarios(repo)
    if sc is not None:
        # decided by executing the send layer: a message to a contact, a retry receipt for a queued message and a message
        # to a group whose sender key is new, each with the key fetch answering "identity refused" for one jid - what
        # matters is for whom the session cipher is asked to encrypt afterwards
        for name, (ok, why, fetched) in sorted(sc.items()):
            wsc = where(SEND, "AxolotlSendLayer", None)
            if not fetched:
                ctx.undecided("C17.refuse", wsc, name, "the scenario did not reach a key fetch: %s" % why)
            else:
                ctx.check("C17.refuse", ok, wsc, name, why, "nothing is encrypted for a jid whose identity was refused")
    else:
        _refuse_callbacks_structural(ctx, repo)
    # (d) receive handler, abstractly executed with decryption refused once: auto-trust off (or never configured) ->
    # nothing is delivered, nothing stored, no second attempt
    he = repo.method(RECV, "AxolotlReceivelayer", "handleEncMessage")
    wr = where(RECV, "AxolotlReceivelayer.handleEncMessage", he.lineno)
    oks = []
    for flag in (False, None):
        ups, trusted, attempts, raised, PROP = run_receive_untrusted(repo, flag)
        oks.append(not ups and not trusted and attempts == 1 and raised is None)
    ctx.check("C17.refuse", all(oks), wr, "except UntrustedIdentityException (auto-trust off)", "with auto-trust off the message must neither be delivered nor the key stored (option off: %s, option never set: %s)" % tuple(oks), "ignored: no delivery, no store")


def _refuse_callbacks_structural(ctx, repo):
    """fallback reading of the send-side key-fetch callbacks (used when the scenarios cannot be executed)"""
    snd = repo.cls(SEND, "AxolotlSendLayer")
    n_cb = 0
    for fname, fn in snd.methods.items():
        for inner in ast.walk(fn):
            if isinstance(inner, ast.FunctionDef) and inner.name == "on_get_keys_success":
                n_cb += 1
                ps = [a.arg for a in inner.args.args]
                errp = ps[-1]
                succp = ps[-2]
                g = CFG(inner)
                wcb = where(SEND, "AxolotlSendLayer.%s.on_get_keys_success" % fname, inner.lineno)
                tests = [t for t in g.live if t.kind == "test" and isinstance(t.stmt, ast.If) and unparse(t.stmt.test).replace(" ", "") in ("len(%s)" % errp, errp)]
                if not tests:
                    ctx.violate("C17.refuse", wcb, inner, "the callback does not test whether errors were reported before sending")
                    continue
                t = tests[0]
                sends = []
                for n in g.live:
                    for c in calls_in(n, None, selfonly=True):
                        if c.func.attr in ("sendToContact", "processPlaintextNodeAndSend"):
                            sends.append((n, c, "single"))
                        elif c.func.attr == "sendToGroupWithSessions":
                            sends.append((n, c, "group"))
                bad = []
                for (n, c, kind) in sends:
                    reach = g.path(t, lambda x, n=n: x is n, edge_ok=lambda a, b, k: not (a is t and k != "true"))
                    if reach is None:
                        continue
                    if kind == "single":
                        bad.append("%s is reached although errors were reported" % c.func.attr)
                    else:
                        arg = c.args[1] if len(c.args) > 1 else None
                        if not (isinstance(arg, ast.Name) and arg.id == succp):
                            bad.append("group send encrypts key distributions for %s instead of the successful jids only" % (unparse(arg) if arg is not None else "all"))
                ctx.check("C17.refuse", not bad, wcb, t.stmt, "; ".join(bad), "nothing is encrypted for a jid whose identity was refused")
    if n_cb < 3:
        ctx.undecided("C17.refuse", where(SEND, "AxolotlSendLayer", None), "on_get_keys_success closures", "expected 3 key-fetch success callbacks in the send layer, found %d" % n_cb)


def rule_auto(ctx):
    repo = ctx.repo
    # with auto-trust on, what gets stored is the identity the library's exception presents - both where the switch is
    # honoured: the receive handler and create_session (abstract execution, see run_receive_untrusted / run_create_session)
    he = repo.method(RECV, "AxolotlReceivelayer", "handleEncMessage")
    w = where(RECV, "AxolotlReceivelayer.handleEncMessage", he.lineno)
    ups, trusted, attempts, raised, PROP = run_receive_untrusted(repo, True)
    ok = len(trusted) == 1 and len(trusted[0]) == 2 and _presented(trusted[0][0], "name") and _presented(trusted[0][1], "key") and raised is None
    ctx.check("C17.auto", ok, w, "auto-trust stores the presented identity", "auto-trust must store the name and key carried by the exception (the presented identity); stored %s" % [[show_v(x) for x in t] for t in trusted], "stores the presented name and key")
    cs = repo.method(MGR, "AxolotlManager", "create_session")
    wc = where(MGR, "AxolotlManager.create_session", cs.lineno)
    (out, exc), trusted2 = run_create_session(repo, True, True)
    ok2 = out == "ret" and len(trusted2) == 1 and len(trusted2[0]) == 2 and _presented(trusted2[0][0], "name") and _presented(trusted2[0][1], "key")
    ctx.check("C17.auto", ok2, wc, "auto-trust stores the presented identity", "auto-trust must store the name and key carried by the exception (the presented identity); create_session %s and stored %s" % (out, [[show_v(x) for x in t] for t in trusted2]), "stores the presented name and key")
    # ... and builds the session: the library refused the bundle before it built anything, so a pin without a session (a
    # prekey message that was trusted but could not be decrypted leaves exactly that) would otherwise stay without one -
    # the first send after the contact's reinstall then encrypts on an empty session record and dies
    att = list(run_create_session.attempts)
    ctx.check("C17.auto", att == [0, 1], wc, "the session is built once the new identity is trusted",
              "with auto-trust on, create_session stores the new identity but never processes the bundle again (%d attempt(s), %s of them after trusting): no session exists for the contact, `messaging resumes` only after an exception out of the first send and a lost message" % (len(att), sum(1 for x in att if x)),
              "the bundle is processed again after the identity was trusted")
    # after auto-trusting, the receive path retries the message
    ctx.check("C17.auto", attempts == 2 and len(ups) == 1, w, "retry after auto-trust", "after auto-trusting the message must be processed again so that messaging resumes (%d decrypt attempt(s), %d delivery)" % (attempts, len(ups)), "message re-processed")
    # trust_identity delegates to the store with the same arguments, in order
    ti = repo.method(MGR, "AxolotlManager", "trust_identity")
    calls = [c for c in ast.walk(ti) if isinstance(c, ast.Call) and isinstance(c.func, ast.Attribute) and c.func.attr == "saveIdentity"]
    ok = len(calls) == 1 and [unparse(a) for a in calls[0].args] == params_of(ti)
    ctx.check("C17.auto", ok, where(MGR, "AxolotlManager.trust_identity", ti.lineno), calls[0] if calls else ti, "trust_identity must hand (recipient, key) to the store unchanged", "delegates (recipient, key) in order")


def rule_persist(ctx):
    model = c13.StoreModel(ctx)
    iks = ctx.repo.cls(IKS, "LiteIdentityKeyStore")
    seqs = model.sequences(iks, "saveIdentity")
    w = where(IKS, "LiteIdentityKeyStore.saveIdentity", None)
    ok = bool(seqs) and all(any(e[0] == "SQL" and e[1].verb == "INSERT" and e[1].table == "identities" and {"recipient_id", "public_key"} <= set(e[1].columns) for e in s)
                            and s and s[-1][0] == "COMMIT" for s in seqs)
    ctx.check("C17.persist", ok, w, "saveIdentity effects: " + "; ".join(sorted(c13.fmt_seq(s) for s in seqs)),
              "the pin must be inserted as (recipient_id, public_key) and committed on every path", "pin inserted and committed")
    # nothing but the pin operations themselves removes or rewrites a pin: every other DELETE / UPDATE of the pin table
    # (the constructor's housekeeping, the local identity's own row) has a WHERE clause that is false for a pin row - a
    # row as saveIdentity writes it: the recipient and the key set, every other column NULL - decided in SQL's
    # three-valued logic.  A statement keyed by the recipient it was called for is a pin operation.
    from .. import sql as _sql
    pin_cols = None
    for (c, name, n, st, params) in model.stmts:
        if c is iks and name == "saveIdentity" and st.verb == "INSERT":
            pin_cols = list(st.columns)
            pin_table = st.table
    if pin_cols is None or pin_table not in model.tables:
        ctx.undecided("C17.persist", w, "pin row shape", "saveIdentity's INSERT / the table definition was not found")
    else:
        allcols = [x.split()[0] for x in model.tables[pin_table].columns] if model.tables[pin_table].columns else []
        row = {col: None for col in allcols}
        for col in pin_cols:
            row[col] = ("sym", col)
        n_other = 0
        # rows the store writes with a literal key (the local identity's own row, recipient_id -1) are not pins: a pin's
        # key differs from those literals
        distinct = {}
        for (c, name, n, st, params) in model.stmts:
            if st.table == pin_table and st.verb == "INSERT" and name != "saveIdentity":
                for col, v in zip(st.columns, st.values):
                    try:
                        distinct.setdefault(col, set()).add(int(v))
                    except (TypeError, ValueError):
                        pass
        for (c, name, n, st, params) in model.stmts:
            if st.table != pin_table or st.verb not in ("DELETE", "UPDATE"):
                continue
            fn_ = model.fns.get((c.qname, name), c.methods.get(name))
            ps_ = params_of(fn_) if fn_ is not None else []
            elts = list(params.elts) if isinstance(params, (ast.Tuple, ast.List)) else []
            nset = len([v for v in st.set_values if v == "?"]) if st.verb == "UPDATE" else 0
            welts = elts[nset:]
            bound = []
            keyed = False
            k_ = 0
            for (col, op, rhs) in st.where:
                if rhs.strip() != "?":
                    continue
                e_ = welts[k_] if k_ < len(welts) else None
                k_ += 1
                if isinstance(e_, ast.Constant):
                    bound.append(e_.value)
                elif isinstance(e_, ast.Name) and e_.id in ps_:
                    bound.append(("sym", col) if col in pin_cols else ("unk",))     # the caller's value: may equal the pin's
                    keyed = keyed or (col in pin_cols and op.strip() == "=")
                else:
                    bound.append(("unk",))
            if keyed:
                continue        # removes / rewrites the pin of the recipient the caller names: a pin operation (C17.guard decides who may call it)
            n_other += 1
            verdict = _sql.eval_where(st, row, bound, distinct)
            ww = where(c.relpath, c.name + "." + name, n.line)
            ctx.check("C17.persist", (verdict is False) if verdict is not None else None, ww, st.text,
                      "this statement %s every remembered contact key: its WHERE clause is true for a row as saveIdentity writes it (%s set, every other column NULL)%s" % (
                          "deletes" if st.verb == "DELETE" else "rewrites", ", ".join(pin_cols), " - and it runs whenever the store is constructed, i.e. at every start of the process" if name == "__init__" else ""),
                      "does not match a pin row")
        ctx.units["C17.other_pin_table_writes"] = n_other
    # facade delegates both operations to the identity store
    fac = ctx.repo.cls(c13.FACADE[0], c13.FACADE[1])
    for name in ("saveIdentity", "isTrustedIdentity"):
        fn = fac.methods.get(name)
        ok = fn is not None and any(isinstance(c, ast.Call) and unparse(c.func) == "self.identityKeyStore." + name and [unparse(a) for a in c.args] == params_of(fn) for c in ast.walk(fn))
        ctx.check("C17.persist", ok, where(c13.FACADE[0], c13.FACADE[1] + "." + name, getattr(fn, "lineno", None)), "store." + name, "the store facade must delegate %s to the identity key store with the same arguments" % name, "delegated unchanged")


def run(ctx):
    ctx.rule("C17.trust", "trusted iff unknown or equal to the stored key of that recipient", floor=4)
    ctx.rule("C17.guard", "pin overwrites are control-dependent on the auto-trust switch (default off)", floor=4)
    ctx.rule("C17.refuse", "refuse paths without auto-trust", floor=8)
    ctx.rule("C17.author", "decryption (and with it the identity check) uses the author's session: participant when present (C03.once adopted)", floor=4)
    ctx.rule("C17.persist", "pin committed and read back by the same key", floor=3)
    ctx.rule("C17.auto", "auto-trust stores the presented key and resumes", floor=4)
    ctx.assume("python-axolotl raises UntrustedIdentityException from its own call of isTrustedIdentity and stores first-seen identities itself")
    ctx.guarded("C17.trust", rule_trust, ctx)
    ctx.guarded("C17.guard", rule_guard, ctx)
    ctx.guarded("C17.refuse", rule_refuse, ctx)
    ctx.guarded("C17.persist", rule_persist, ctx)
    ctx.guarded("C17.auto", rule_auto, ctx)
    # 'the remembered key stays in place / survives restarts' needs the store's transactions (C13.commit / replace / blob), adopted
    # the identity that is checked is the author's: the decrypt handlers pass the participant whenever the stanza has one (C03.once), adopted
    from . import c03
    ctx.adopt_from("C03", [(c03.rule_once, ())], {"C03.once": "C17.author"})
    from . import c13

    def store_rules(scratch):
        model = c13.StoreModel(scratch)
        c13.rule_commit_replace(scratch, model)
        c13.rule_blob(scratch, model)
    ctx.adopt_from("C13", [(store_rules, ())], {"C13.commit": "C17.persist", "C13.replace": "C17.persist", "C13.blob": "C17.persist"})
