"""C17 - identity pinning.

C17.trust    isTrustedIdentity: True for unknown recipients, otherwise equality of the stored key of that
             recipient with the presented key (same serialisation as saveIdentity stores)
C17.guard    every overwrite of a pin (trust_identity / saveIdentity call) is control-dependent on the
             auto-trust switch, whose default is off at every read
C17.refuse   without auto-trust: create_session re-raises, the key-fetch callback files the jid under errors,
             send callbacks do not send when errors are present, the receive handler neither delivers nor stores
C17.persist  the pin is a committed row read back by the same key
C17.auto     with auto-trust the presented key (from the exception) is what gets stored
"""
import ast

from ..cfg import CFG, edge_region, calls_in, fmt_path, walk_no_nested
from ..consts import Evaluator, alts
from ..deps import node_exprs
from ..report import where
from ..repo import unparse, is_self_attr, params_of
from ..terms import PathEval, all_path_results, show
from . import c13

IKS = "yowsup/axolotl/store/sqlite/liteidentitykeystore.py"
MGR = "yowsup/axolotl/manager.py"
BASE = "yowsup/layers/axolotl/layer_base.py"
SEND = "yowsup/layers/axolotl/layer_send.py"
RECV = "yowsup/layers/axolotl/layer_receive.py"
PROPS = "yowsup/layers/axolotl/props.py"

OVERWRITERS = ("trust_identity", "saveIdentity")


def rule_trust(ctx):
    repo = ctx.repo
    cls = repo.cls(IKS, "LiteIdentityKeyStore")
    fn = repo.method(IKS, "LiteIdentityKeyStore", "isTrustedIdentity")
    w = where(IKS, "LiteIdentityKeyStore.isTrustedIdentity", fn.lineno)
    ps = params_of(fn)
    g = CFG(fn)
    pe = PathEval(fn, Evaluator(repo, cls.module, cls))
    res = [r for r in all_path_results(g, pe) if r["terminal"] == "exit"]
    seen_true = seen_cmp = False
    for r in res:
        ret = r["ret"]
        # the query
        ex = [e for e in r["events"] if e["func"] == "execute"]
        okq = False
        if len(ex) == 1 and len(ex[0]["args"]) == 2 and ex[0]["args"][0][0] == "const":
            from .. import sql
            st = sql.parse(ex[0]["args"][0][1])
            bound = ex[0]["args"][1]
            okq = st.verb == "SELECT" and st.table == "identities" and st.columns == ["public_key"] and [c for (c, o, v) in st.where] == ["recipient_id"] \
                and bound == ("tuple", ("param", ps[0]))
        if not okq:
            ctx.violate("C17.trust", w, fn, "the stored key must be selected as public_key of the row whose recipient_id is the recipient parameter")
            return
        fetch = [e for e in r["events"] if e["func"] == "fetchone"]
        if ret == ("const", True):
            seen_true = True
            # reached only when no row exists
            conds = [(t, k) for (n, t, k) in r["conds"]]
            ok = any(t[0] == "un" and t[1] == "Not" and fetch and t[2] == fetch[0]["result"] and k == "true" for (t, k) in conds)
            ctx.check("C17.trust", ok, w, "return True", "True must be returned only when no row exists for the recipient", "True only for an unknown recipient")
        elif isinstance(ret, tuple) and ret[0] == "cmp" and ret[1] == "Eq":
            seen_cmp = True
            a, b = ret[2], ret[3]
            stored = ("sub", fetch[0]["result"], ("const", 0)) if fetch else None
            presented = None
            for x, y in ((a, b), (b, a)):
                if x == stored:
                    presented = y
            okp = presented is not None and presented[0] == "call" and presented[1] == "serialize" and presented[2][0] == "call" and presented[2][1] == "getPublicKey" \
                and presented[2][2] == ("param", ps[1])
            ctx.check("C17.trust", okp, w, "return " + show(ret), "the result must compare the stored public_key of this recipient with the serialised key that was presented; found %s" % show(ret), "stored key == presented key")
        else:
            ctx.violate("C17.trust", w, "return " + show(ret), "isTrustedIdentity returns something other than `no row` or the key comparison: a changed key could be accepted")
    ctx.check("C17.trust", seen_true and seen_cmp, w, "both outcomes present", "expected an unknown-recipient path and a comparison path", "unknown -> True, known -> comparison")
    # saveIdentity stores the same serialisation it later compares against
    sv = repo.method(IKS, "LiteIdentityKeyStore", "saveIdentity")
    sps = params_of(sv)
    ser = [unparse(n.value) for n in ast.walk(sv) if isinstance(n, ast.Assign) and isinstance(n.value, ast.Call) and "serialize" in unparse(n.value)]
    ser2 = [unparse(n.value) for n in ast.walk(fn) if isinstance(n, ast.Assign) and isinstance(n.value, ast.Call) and "serialize" in unparse(n.value)]
    norm = lambda s, p: s.replace(p, "K")
    ctx.check("C17.trust", len(ser) == 1 and len(ser2) == 1 and norm(ser[0], sps[1]) == norm(ser2[0], ps[1]), where(IKS, "LiteIdentityKeyStore.saveIdentity", sv.lineno),
              "stored form %s / compared form %s" % (ser, ser2), "the key is stored in one serialisation and compared in another", "same serialisation stored and compared")


def autotrust_test(ctx, m, cls, fn, test_expr, autotrust_params):
    """Is this test the auto-trust switch?  -> True / False"""
    t = test_expr
    if isinstance(t, ast.Name) and t.id in autotrust_params:
        return True
    if isinstance(t, ast.Call) and isinstance(t.func, ast.Attribute) and t.func.attr == "getProp" and t.args:
        ev = Evaluator(ctx.repo, m, cls)
        a = alts(ev.ev(t.args[0]))
        want = alts(Evaluator(ctx.repo, ctx.repo.module(PROPS), None).ev(ast.Name(id="PROP_IDENTITY_AUTOTRUST", ctx=ast.Load())))
        dflt = alts(ev.ev(t.args[1])) if len(t.args) > 1 else [None]
        return bool(a and want and a == want and dflt is not None and not dflt[0])
    return False


def rule_guard(ctx):
    repo = ctx.repo
    sites = 0
    # parameters named as switches: functions with a parameter whose every call site passes the switch
    switch_params = {}   # (relpath, cls, fn name) -> param
    mgr = repo.cls(MGR, "AxolotlManager")
    cs = repo.method(MGR, "AxolotlManager", "create_session")
    ps = [a.arg for a in cs.args.args]
    if "autotrust" in ps:
        d = cs.args.defaults[ps.index("autotrust") - (len(ps) - len(cs.args.defaults))] if ps.index("autotrust") >= len(ps) - len(cs.args.defaults) else None
        ok = d is not None and isinstance(d, ast.Constant) and d.value is False
        ctx.check("C17.guard", ok, where(MGR, "AxolotlManager.create_session", cs.lineno), "default of autotrust", "auto-trust must default to off", "autotrust defaults to False")
        # all call sites of create_session pass the property (default False) or nothing
        for m in repo.modules.values():
            for c in list(m.classes.values()):
                for fname, fn in c.methods.items():
                    for call in ast.walk(fn):
                        if isinstance(call, ast.Call) and isinstance(call.func, ast.Attribute) and call.func.attr == "create_session":
                            kw = {k.arg: k.value for k in call.keywords}
                            v = kw.get("autotrust") or (call.args[2] if len(call.args) > 2 else None)
                            ok = v is None or (isinstance(v, ast.Constant) and v.value is False) or autotrust_test(ctx, m, c, fn, v, ())
                            repo.consulted.add(m.relpath)
                            ctx.check("C17.guard", ok, where(m.relpath, c.name + "." + fname, call.lineno), call,
                                      "create_session is called with autotrust=%s, which is not the auto-trust property (default off)" % (unparse(v) if v is not None else None), "autotrust comes from the property (default off)")
        switch_params[("AxolotlManager", "create_session")] = "autotrust"
    for m in repo.modules.values():
        if m.relpath.startswith("yowsup/demos/"):
            continue
        for c in m.classes.values():
            for fname, fn in c.methods.items():
                if fname in OVERWRITERS:
                    continue       # the delegation chain itself
                calls = [x for x in ast.walk(fn) if isinstance(x, ast.Call) and isinstance(x.func, ast.Attribute) and x.func.attr in OVERWRITERS]
                if not calls:
                    continue
                repo.consulted.add(m.relpath)
                g = CFG(fn)
                sp = switch_params.get((c.name, fname))
                for call in calls:
                    sites += 1
                    node = [n for n in g.live if any(x is call for e_ in node_exprs(n) for x in walk_no_nested(e_))]
                    w = where(m.relpath, c.name + "." + fname, call.lineno)
                    if not node:
                        ctx.undecided("C17.guard", w, call, "call not found in the CFG (nested function?)")
                        continue
                    node = node[0]
                    guarded = False
                    for t in g.live:
                        if t.kind == "test" and isinstance(t.stmt, ast.If) and autotrust_test(ctx, m, c, fn, t.stmt.test, (sp,) if sp else ()):
                            reg = {x.id for x in edge_region(g, t, "true")}
                            if node.id in reg:
                                guarded = True
                    ctx.check("C17.guard", guarded, w, call, "a pinned identity is overwritten without testing the auto-trust switch: a changed key is accepted silently", "dominated by the auto-trust test")
    ctx.units["C17.overwrite_sites"] = sites


def rule_refuse(ctx):
    repo = ctx.repo
    # (a) create_session: handler's non-autotrust branch raises the yowsup exception with the same name/key
    cs = repo.method(MGR, "AxolotlManager", "create_session")
    w = where(MGR, "AxolotlManager.create_session", cs.lineno)
    h = [x for x in ast.walk(cs) if isinstance(x, ast.ExceptHandler) and x.type is not None and "UntrustedIdentityException" in unparse(x.type)]
    ok = False
    if len(h) == 1:
        ifs = [s for s in h[0].body if isinstance(s, ast.If)]
        if len(ifs) == 1:
            other = ifs[0].orelse
            ok = any(isinstance(s, ast.Raise) and s.exc is not None and "UntrustedIdentityException" in unparse(s.exc) for s in other)
    ctx.check("C17.refuse", ok, w, "except UntrustedIdentityException", "without auto-trust create_session must re-raise the untrusted-identity error", "re-raised when auto-trust is off")
    # (b) getKeysFor.onSuccess: untrusted jid goes to errors, not to successes
    gk = repo.method(BASE, "AxolotlBaseLayer", "getKeysFor")
    onS = [n for n in ast.walk(gk) if isinstance(n, ast.FunctionDef) and n.name == "onSuccess"]
    wb = where(BASE, "AxolotlBaseLayer.getKeysFor.onSuccess", gk.lineno)
    if len(onS) != 1:
        ctx.undecided("C17.refuse", wb, gk, "onSuccess closure not found")
    else:
        g = CFG(onS[0])
        hn = [n for n in g.live if n.kind == "handler" and n.stmt.type is not None and "UntrustedIdentityException" in unparse(n.stmt.type)]
        succ_appends = [n for n in g.live if n.kind == "stmt" and any(isinstance(c, ast.Call) and isinstance(c.func, ast.Attribute) and c.func.attr == "append"
                        and "success" in unparse(c.func.value).lower() for c in walk_no_nested(n.stmt))]
        loops = [n for n in g.live if n.kind == "loop"]
        if len(hn) != 1 or not succ_appends or not loops:
            ctx.violate("C17.refuse", wb, onS[0], "the key-fetch callback must catch the untrusted-identity error per jid and keep that jid out of the success list")
        else:
            # from the handler, the success append of the *same iteration* is unreachable (only via the loop head)
            p = g.path(hn[0], lambda x: x in succ_appends, avoid=loops)
            ctx.check("C17.refuse", p is None, wb, hn[0].stmt, "after the untrusted-identity error the jid is still added to the success list: " + fmt_path(p), "untrusted jid never reaches the success list")
            stores = [n for n in g.reachable_from(hn[0], avoid=loops) if n.kind == "stmt" and isinstance(n.stmt, ast.Assign)
                      and any(isinstance(t, ast.Subscript) and "error" in unparse(t.value).lower() for t in n.stmt.targets)]
            ctx.check("C17.refuse", bool(stores), wb, "errorJids[jid] = e", "the untrusted jid must be filed under the errors", "filed under errors")
            # the success append lies after create_session in the try body (an exception skips it)
            tries = [n for n in ast.walk(onS[0]) if isinstance(n, ast.Try)]
            okorder = False
            for t in tries:
                idx_c = [i for i, s in enumerate(t.body) if any(isinstance(c, ast.Call) and isinstance(c.func, ast.Attribute) and c.func.attr == "create_session" for c in ast.walk(s))]
                idx_a = [i for i, s in enumerate(t.body) if any(isinstance(c, ast.Call) and isinstance(c.func, ast.Attribute) and c.func.attr == "append" and "success" in unparse(c.func.value).lower() for c in ast.walk(s))]
                if idx_c and idx_a and idx_c[0] < idx_a[0]:
                    okorder = True
            ctx.check("C17.refuse", okorder, wb, "successJids.append after create_session", "a jid must count as success only after create_session returned", "success recorded after the session was built")
    # (c) send-side callbacks: with errors present nothing is sent to a single recipient
    snd = repo.cls(SEND, "AxolotlSendLayer")
    n_cb = 0
    for fname, fn in snd.methods.items():
        for inner in ast.walk(fn):
            if isinstance(inner, ast.FunctionDef) and inner.name == "on_get_keys_success":
                n_cb += 1
                ps = [a.arg for a in inner.args.args]
                errp = ps[-1]
                succp = ps[-2]
                g = CFG(inner)
                wcb = where(SEND, "AxolotlSendLayer.%s.on_get_keys_success" % fname, inner.lineno)
                tests = [t for t in g.live if t.kind == "test" and isinstance(t.stmt, ast.If) and unparse(t.stmt.test).replace(" ", "") in ("len(%s)" % errp, errp)]
                if not tests:
                    ctx.violate("C17.refuse", wcb, inner, "the callback does not test whether errors were reported before sending")
                    continue
                t = tests[0]
                sends = []
                for n in g.live:
                    for c in calls_in(n, None, selfonly=True):
                        if c.func.attr in ("sendToContact", "processPlaintextNodeAndSend"):
                            sends.append((n, c, "single"))
                        elif c.func.attr == "sendToGroupWithSessions":
                            sends.append((n, c, "group"))
                bad = []
                for (n, c, kind) in sends:
                    reach = g.path(t, lambda x, n=n: x is n, edge_ok=lambda a, b, k: not (a is t and k != "true"))
                    if reach is None:
                        continue
                    if kind == "single":
                        bad.append("%s is reached although errors were reported" % c.func.attr)
                    else:
                        arg = c.args[1] if len(c.args) > 1 else None
                        if not (isinstance(arg, ast.Name) and arg.id == succp):
                            bad.append("group send encrypts key distributions for %s instead of the successful jids only" % (unparse(arg) if arg is not None else "all"))
                ctx.check("C17.refuse", not bad, wcb, t.stmt, "; ".join(bad), "nothing is encrypted for a jid whose identity was refused")
    if n_cb < 3:
        ctx.undecided("C17.refuse", where(SEND, "AxolotlSendLayer", None), "on_get_keys_success closures", "expected 3 key-fetch success callbacks in the send layer, found %d" % n_cb)
    # (d) receive handler: else-branch neither delivers nor stores
    he = repo.method(RECV, "AxolotlReceivelayer", "handleEncMessage")
    wr = where(RECV, "AxolotlReceivelayer.handleEncMessage", he.lineno)
    h = [x for x in ast.walk(he) if isinstance(x, ast.ExceptHandler) and x.type is not None and "UntrustedIdentityException" in unparse(x.type)]
    if len(h) != 1:
        ctx.violate("C17.refuse", wr, he, "the receive handler must catch the untrusted-identity error")
        return
    ifs = [s for s in h[0].body if isinstance(s, ast.If)]
    okr = False
    if len(ifs) == 1 and len(h[0].body) == 1:
        names = {c.func.attr for s in ifs[0].orelse for c in ast.walk(s) if isinstance(c, ast.Call) and isinstance(c.func, ast.Attribute)}
        okr = not (names & {"toUpper", "trust_identity", "saveIdentity", "handleEncMessage", "toLower"})
    ctx.check("C17.refuse", okr, wr, "except UntrustedIdentityException (auto-trust off)", "with auto-trust off the message must neither be delivered nor the key stored", "ignored: no delivery, no store")


def rule_auto(ctx):
    repo = ctx.repo
    for rel, cn, fn_name in ((RECV, "AxolotlReceivelayer", "handleEncMessage"), (MGR, "AxolotlManager", "create_session")):
        fn = repo.method(rel, cn, fn_name)
        w = where(rel, cn + "." + fn_name, fn.lineno)
        h = [x for x in ast.walk(fn) if isinstance(x, ast.ExceptHandler) and x.type is not None and "UntrustedIdentityException" in unparse(x.type) and x.name]
        if len(h) != 1:
            ctx.undecided("C17.auto", w, fn, "named untrusted-identity handler not found")
            continue
        e = h[0].name
        calls = [c for c in ast.walk(h[0]) if isinstance(c, ast.Call) and isinstance(c.func, ast.Attribute) and c.func.attr == "trust_identity"]
        ok = len(calls) == 1 and [unparse(a) for a in calls[0].args] == ["%s.getName()" % e, "%s.getIdentityKey()" % e]
        ctx.check("C17.auto", ok, w, calls[0] if calls else h[0], "auto-trust must store the name and key carried by the exception (the presented identity)", "stores the presented name and key")
    # after auto-trusting, the receive path retries the message
    fn = repo.method(RECV, "AxolotlReceivelayer", "handleEncMessage")
    h = [x for x in ast.walk(fn) if isinstance(x, ast.ExceptHandler) and x.type is not None and "UntrustedIdentityException" in unparse(x.type)][0]
    ifs = [s for s in h.body if isinstance(s, ast.If)]
    ok = bool(ifs) and any(isinstance(c, ast.Call) and is_self_attr(c.func, "handleEncMessage") for s in ifs[0].body for c in ast.walk(s))
    ctx.check("C17.auto", ok, where(RECV, "AxolotlReceivelayer.handleEncMessage", fn.lineno), "retry after auto-trust", "after auto-trusting the message must be processed again so that messaging resumes", "message re-processed")
    # trust_identity delegates to the store with the same arguments, in order
    ti = repo.method(MGR, "AxolotlManager", "trust_identity")
    calls = [c for c in ast.walk(ti) if isinstance(c, ast.Call) and isinstance(c.func, ast.Attribute) and c.func.attr == "saveIdentity"]
    ok = len(calls) == 1 and [unparse(a) for a in calls[0].args] == params_of(ti)
    ctx.check("C17.auto", ok, where(MGR, "AxolotlManager.trust_identity", ti.lineno), calls[0] if calls else ti, "trust_identity must hand (recipient, key) to the store unchanged", "delegates (recipient, key) in order")


def rule_persist(ctx):
    model = c13.StoreModel(ctx)
    iks = ctx.repo.cls(IKS, "LiteIdentityKeyStore")
    seqs = model.sequences(iks, "saveIdentity")
    w = where(IKS, "LiteIdentityKeyStore.saveIdentity", None)
    ok = bool(seqs) and all(any(e[0] == "SQL" and e[1].verb == "INSERT" and e[1].table == "identities" and {"recipient_id", "public_key"} <= set(e[1].columns) for e in s)
                            and s and s[-1][0] == "COMMIT" for s in seqs)
    ctx.check("C17.persist", ok, w, "saveIdentity effects: " + "; ".join(sorted(c13.fmt_seq(s) for s in seqs)),
              "the pin must be inserted as (recipient_id, public_key) and committed on every path", "pin inserted and committed")
    # facade delegates both operations to the identity store
    fac = ctx.repo.cls(c13.FACADE[0], c13.FACADE[1])
    for name in ("saveIdentity", "isTrustedIdentity"):
        fn = fac.methods.get(name)
        ok = fn is not None and any(isinstance(c, ast.Call) and unparse(c.func) == "self.identityKeyStore." + name and [unparse(a) for a in c.args] == params_of(fn) for c in ast.walk(fn))
        ctx.check("C17.persist", ok, where(c13.FACADE[0], c13.FACADE[1] + "." + name, getattr(fn, "lineno", None)), "store." + name, "the store facade must delegate %s to the identity key store with the same arguments" % name, "delegated unchanged")


def run(ctx):
    ctx.rule("C17.trust", "trusted iff unknown or equal to the stored key of that recipient", floor=4)
    ctx.rule("C17.guard", "pin overwrites are control-dependent on the auto-trust switch (default off)", floor=4)
    ctx.rule("C17.refuse", "refuse paths without auto-trust", floor=8)
    ctx.rule("C17.author", "decryption (and with it the identity check) uses the author's session: participant when present (C03.once adopted)", floor=4)
    ctx.rule("C17.persist", "pin committed and read back by the same key", floor=3)
    ctx.rule("C17.auto", "auto-trust stores the presented key and resumes", floor=4)
    ctx.assume("python-axolotl raises UntrustedIdentityException from its own call of isTrustedIdentity and stores first-seen identities itself")
    ctx.guarded("C17.trust", rule_trust, ctx)
    ctx.guarded("C17.guard", rule_guard, ctx)
    ctx.guarded("C17.refuse", rule_refuse, ctx)
    ctx.guarded("C17.persist", rule_persist, ctx)
    ctx.guarded("C17.auto", rule_auto, ctx)
    # 'the remembered key stays in place / survives restarts' needs the store's transactions (C13.commit / replace / blob), adopted
    # the identity that is checked is the author's: the decrypt handlers pass the participant whenever the stanza has one (C03.once), adopted
    from . import c03
    ctx.adopt_from("C03", [(c03.rule_once, ())], {"C03.once": "C17.author"})
    from . import c13

    def store_rules(scratch):
        model = c13.StoreModel(scratch)
        c13.rule_commit_replace(scratch, model)
        c13.rule_blob(scratch, model)
    ctx.adopt_from("C13", [(store_rules, ())], {"C13.commit": "C17.persist", "C13.replace": "C17.persist", "C13.blob": "C17.persist"})
