"""C09 - protocol entities and stanzas convert into each other without loss (field provenance).

For every entity class that layer code builds from an incoming stanza the analysis evaluates the property's own
observation point, `Entity.fromProtocolTreeNode(N).toProtocolTreeNode()`, on a symbolic stanza N (abstract
interpreter, one run per cell of the input space induced by the parser's own tests) and checks

C09.ret    both converters return a value on every path (an entity / a node, never None)
C09.same   every attribute / data the serialiser writes from input is fed by the same (path, key) of the input
C09.kept   every (path, key) the parser stores in the entity is written back at the same place
C09.api    every method invoked on a ProtocolTreeNode exists
C09.payload the <proto> payload of message entities goes through C10's converter: C10.bij / C10.has / C10.top adopted
C09.fresh  a container a converter loop fills and hands to the per-element object is allocated inside the loop
C09.wire   C01's codec round-trip rules adopted (a stanza survives the codec unchanged)
C09.codec  attribute values that are definitely not strings (int / None) and data that is definitely str are flagged
"""
import ast

from ..absint import (Interp, Node, Obj, NeedAtom, Budget, DomainGrew, _Raise, enumerate_cells, deps_of, show, flat_effects, OTHER, C_NONE)
from ..report import where
from ..repo import unparse

LAYER_DIR = "yowsup/layers/"

# (class name, reason): reviewed exceptions to C09.kept / C09.same, one line each
EXCEPTIONS = {
    ("RetryIncomingReceiptProtocolEntity", "same", (("retry",), "id")): "retry/id repeats the receipt id by protocol: the class writes it from the receipt id without reading it",
    ("RetryOutgoingReceiptProtocolEntity", "same", (("retry",), "id")): "same as the incoming retry receipt",
}


def receive_side_classes(repo):
    """entity classes on which layer code calls fromProtocolTreeNode (found from the ASTs of the layer modules)"""
    base = repo.cls("yowsup/structs/protocolentity.py", "ProtocolEntity")
    found = {}
    for m in repo.modules.values():
        if not m.relpath.startswith(LAYER_DIR) or "/protocolentities/" in m.relpath or "/demos/" in m.relpath:
            continue
        for n in ast.walk(m.tree):
            if isinstance(n, ast.Call) and isinstance(n.func, ast.Attribute) and n.func.attr == "fromProtocolTreeNode":
                c = repo.resolve_expr_class(m, n.func.value)
                if c is not None and base in repo.mro(c):
                    found.setdefault(c.qname, (c, m.relpath))
    return [v for k, v in sorted(found.items())]


def root_tag(repo, cls):
    """constant tag the class's constructor chain gives ProtocolEntity.__init__ (for the symbolic stanza)"""
    it = Interp(repo, {}, {})
    try:
        k, init = repo.find_method(cls, "__init__")
        o = Obj(cls)
        ps = [a.arg for a in init.args.args][1:]
        nd = len(init.args.defaults)
        req = ps[: len(ps) - nd] if nd else ps
        it.pure_depth = 1   # defaults for undecidable tests in the constructor
        it.call_function(init, k, ("obj", o), [("fn", "arg", []) for _ in req], {}, depth=0)
        t = o.fields.get("tag")
        if t and t[0] == "c":
            return t[1]
    except Exception:
        pass
    return None


def walk_out(node, path=()):
    """yield (path, Node) for the serialised tree; repeated children get a '*' path element"""
    yield path, node
    for kind, c in node.children:
        if isinstance(c, Node):
            t = c.tag[1] if c.tag is not None and c.tag[0] == "c" and isinstance(c.tag[1], str) else "?"
            elem = t if kind == "one" else t + "*"
            for x in walk_out(c, path + (elem,)):
                yield x


def norm_path(p):
    """input-side paths use 'tag*' for getAllChildren(tag) and '**' for getAllChildren(); compare modulo the star"""
    return tuple(x.rstrip("*") or "*" for x in p)


def same_place(inp, outp):
    """does input path `inp` denote the place `outp` of the serialised tree ('*' = any child tag)"""
    a, b = norm_path(inp), norm_path(outp)
    return len(a) == len(b) and all(x == y or x == "*" or y == "?" for x, y in zip(a, b))


def atoms_of(v):
    return {d for d in deps_of(v) if isinstance(d, tuple) and d and d[0] == "A"}


def converter_hooks():
    def opaque_conv(name):
        def h(it, recv, args, kwargs, env, depth, e):
            # the protobuf <-> attribute conversion is C10's; here it is an opaque function of its arguments
            if recv[0] == "obj" and recv[1].cls is not None and recv[1].cls.name == "AttributesConverter":
                return ("ext", "converter." + name, list(args))
        return h
    return {"method:" + n: opaque_conv(n) for n in ("proto_to_message", "protobytes_to_message", "message_to_protobytes", "message_to_proto")}


def analyse_class(ctx, repo, cls, tag):
    """-> dict of findings for one class"""
    out = {"cells": 0, "ret": [], "same": {}, "kept_missing": {}, "written": set(), "api": [], "codec": {}, "unfed": {}, "raised": [], "stored": set(), "by_key": {}, "unfed_cells": {}, "ok_cells": 0}

    def opaque_conv(name):
        def h(it, recv, args, kwargs, env, depth, e):
            # the protobuf <-> attribute conversion is C10's; here it is an opaque function of its arguments
            if recv[0] == "obj" and recv[1].cls is not None and recv[1].cls.name == "AttributesConverter":
                return ("ext", "converter." + name, list(args))
        return h
    hooks = {"method:" + n: opaque_conv(n) for n in ("proto_to_message", "protobytes_to_message", "message_to_protobytes", "message_to_proto")}

    def run(cell, domains, absent=False):
        it = Interp(repo, cell, domains, hooks=hooks)
        it.pure_depth = 1          # entity code only: undecidable tests take their default, value-only attributes are not split
        it.value_only_default = "absent" if absent else "present"
        it.honest_numeric = not absent      # ... except the truth of a number parsed from the stanza: "0" is explored
        n = Node(("c", tag) if tag else ("atom", ("A", (), "#tag")), ())
        cell.setdefault(("A", (), "to"), None)      # incoming stanzas carry `from`, never `to` (the iq constructor asserts it)
        res = {"entity": None, "node": None, "raised": None, "it": it}
        try:
            kk, m = repo.find_method(cls, "fromProtocolTreeNode")
            ent = it.apply(("clsmethod", cls, "fromProtocolTreeNode"), [("node", n)], {}, {"@module": cls.module}, 0, None)
            res["entity"] = ent
            if ent[0] == "obj":
                res["stored"] = set()
                for f, v in ent[1].fields.items():
                    res["stored"] |= atoms_of(v)
                    if v[0] == "obj":
                        for f2, v2 in v[1].fields.items():
                            res["stored"] |= atoms_of(v2)
                res["stored"] = {a for a in res["stored"] if not (a in cell and cell[a] is None)}
                nd = it.method_call(ent, "toProtocolTreeNode", [], {}, {"@module": cls.module}, 0, None)
                res["node"] = nd
        except _Raise as r:
            res["raised"] = r.text or show(r.exc)
        return res, it
    doms = {}
    cells = enumerate_cells(run, doms, max_cells=1500)
    doms2 = {}
    cells2 = enumerate_cells(lambda c, d: run(c, d, True), doms2, max_cells=1500)
    out["cells"] = len(cells) + len(cells2)
    out["cells_present"] = len(cells)
    cells = [(c, r, False) for c, r in cells] + [(c, r, True) for c, r in cells2]
    for cell, rs, absent_pass in cells:
        it = rs["it"]
        for (e, text) in it.api_misuse:
            out["api"].append((getattr(e, "lineno", None), text))
        if rs["raised"]:
            if not absent_pass:
                out["raised"].append((rs["raised"], cell))
            continue
        ent, nd = rs["entity"], rs["node"]
        if ent is None or ent[0] != "obj":
            out["ret"].append(("fromProtocolTreeNode returns %s instead of an entity" % show(ent), cell))
            continue
        if nd is None or nd[0] != "node":
            out["ret"].append(("toProtocolTreeNode returns %s instead of a node" % show(nd), cell))
            continue
        written_own = set()
        if not absent_pass:
            out["ok_cells"] += 1
        for path, n in walk_out(nd[1]):
            if n.tag is not None and n.tag[0] in ("dict", "list") or (n.tag is not None and n.tag[0] == "c" and not isinstance(n.tag[1], (str, type(None)))):
                out["same"].setdefault((norm_path(path), "#tag"), ["a %s passed as the node's tag" % (n.tag[0] if n.tag[0] != "c" else type(n.tag[1]).__name__)])
            items = list(n.attrs.items()) + [("#data", n.data)] if n.data != C_NONE else list(n.attrs.items())
            for key, v in items:
                own_candidates = {("A", p, key) for p in []}
                ats = atoms_of(v)
                key_id = (norm_path(path), key)
                out["by_key"].setdefault(key_id, set()).add(show(v)[:60] if not ats else "<input>")
                if any(d[0] == "unset" for d in deps_of(v)) and not ats and not absent_pass:
                    out["unfed_cells"].setdefault(key_id, []).append(show(v))
                # codec types
                if key != "#data" and v[0] == "c" and not isinstance(v[1], (str, type(None))) :
                    out["codec"].setdefault(key_id, "attribute value is the %s %r" % (type(v[1]).__name__, v[1]))
                if key != "#data" and v[0] == "fn" and v[1] in ("int", "len", "float"):
                    out["codec"].setdefault(key_id, "attribute value is %s(...), not a string" % v[1])
                if key == "#data" and v[0] == "c" and isinstance(v[1], str):
                    out["codec"].setdefault(key_id, "node data is the str %r, not bytes" % v[1])
                if not ats:
                    continue
                own = [a for a in ats if same_place(a[1], path) and a[2] == key]
                if own:
                    for a in own:
                        written_own.add((norm_path(a[1]), a[2]))
                else:
                    out["same"].setdefault(key_id, sorted("%s[%s]" % ("/".join(a[1]) or "stanza", a[2]) for a in ats))
        out["written"] |= written_own
        # a number that is zero in this cell is present all the same: its attribute must be written in this very cell
        for zk, zv in it.zero_tests.items():
            if cell.get(("F", zk)) is True:
                for a in atoms_of(zv):
                    if cell.get(a, 1) is None or a[2] == "#tag":
                        continue
                    if (norm_path(a[1]), a[2]) not in written_own and a in rs.get("stored", ()):
                        out.setdefault("zero_lost", {})[(norm_path(a[1]), a[2])] = show(zv)[:60]
        for a in rs.get("stored", ()):
            if a[2] == "#tag":
                continue
            out["stored"].add((norm_path(a[1]), a[2]))
    for k, vs in out["unfed_cells"].items():
        if len(vs) >= out["ok_cells"] > 0:
            out["unfed"][k] = vs[0]
    return out


MUTATORS = {"append", "extend", "update", "add", "insert", "setdefault"}


def rule_fresh(ctx):
    """per-element containers: inside a converter, a container that a loop body fills and hands to the object it builds
    for this element must be allocated inside that loop body - otherwise every element's object shares one container
    and sees the other elements' entries (fields altered for every element but the first)."""
    repo = ctx.repo
    n = 0
    for m in sorted(repo.modules.values(), key=lambda m: m.relpath):
        if "/protocolentities/" not in m.relpath or "/test_" in m.relpath.rsplit("/", 1)[-1] or m.relpath.rsplit("/", 1)[-1].startswith("test_"):
            continue
        for cls_node in [c for c in ast.walk(m.tree) if isinstance(c, ast.ClassDef)]:
            for fn in [f for f in cls_node.body if isinstance(f, ast.FunctionDef)]:
                for L in [x for x in ast.walk(fn) if isinstance(x, ast.For)]:
                    body_nodes = [x for st in L.body for x in ast.walk(st)]
                    mutated = set()
                    for x in body_nodes:
                        if isinstance(x, (ast.Assign, ast.AugAssign)):
                            for t in (x.targets if isinstance(x, ast.Assign) else [x.target]):
                                if isinstance(t, ast.Subscript) and isinstance(t.value, ast.Name):
                                    mutated.add(t.value.id)
                        if isinstance(x, ast.Call) and isinstance(x.func, ast.Attribute) and x.func.attr in MUTATORS and isinstance(x.func.value, ast.Name):
                            mutated.add(x.func.value.id)
                    escaping = {}
                    for x in body_nodes:
                        if isinstance(x, ast.Call):
                            recv = x.func.value.id if isinstance(x.func, ast.Attribute) and isinstance(x.func.value, ast.Name) else None
                            for a in list(x.args) + [k.value for k in x.keywords]:
                                for y in ast.walk(a):
                                    if isinstance(y, ast.Name) and y.id in mutated and y.id != recv:
                                        escaping.setdefault(y.id, x)
                    for name, call in sorted(escaping.items()):
                        inside = [x for x in body_nodes if isinstance(x, ast.Assign) and any(isinstance(t, ast.Name) and t.id == name for t in x.targets)]
                        inside += [x for x in body_nodes if isinstance(x, (ast.For, ast.comprehension)) and isinstance(x.target, ast.Name) and x.target.id == name]
                        repo.consulted.add(m.relpath)
                        n += 1
                        ctx.check("C09.fresh", bool(inside), where(m.relpath, "%s.%s" % (cls_node.name, fn.name), L.lineno),
                                  "for %s in %s: container `%s` handed to %s" % (unparse(L.target), unparse(L.iter), name, unparse(call.func)),
                                  "`%s` is filled inside this loop and handed to the object built for each element, but it is bound once outside the loop: "
                                  "all elements share it and each sees the entries of the elements before it" % name,
                                  "`%s` is bound afresh in every iteration" % name)
    ctx.units["C09.per_element_containers"] = n


def rule_payload(ctx):
    """message entities keep their content in a <proto> payload that is parsed into attribute objects and serialised
    again through the hand-written converter: 're-serialising reproduces the stanza' needs that converter to be a
    bijection - C10.bij / C10.has / C10.top adopted."""
    from . import c10
    from ..report import Ctx
    scratch = Ctx(ctx.repo, "C10", ctx.tier)
    for r in ("C10.bij", "C10.desc", "C10.has", "C10.top", "C10.acc"):
        scratch.rule(r, "", 0)
    c10.rule_converter(scratch)
    ctx.adopt(scratch, {"C10.bij": "C09.payload", "C10.has": "C09.payload", "C10.top": "C09.payload"})


def rule_state(ctx):
    """the stanza tree itself: attributes / children containers of a node are per node (a shared empty dict collects the
    attributes of every node that was created without any)"""
    from ..state import per_instance_state, shared_defaults
    n = per_instance_state(ctx, "C09.state", ctx.repo.cls("yowsup/structs/protocoltreenode.py", "ProtocolTreeNode"))
    ctx.units["C09.state_attrs"] = n
    # ... and every converter of an entity: a mutable parameter default that a conversion fills is shared by all stanzas
    shared_defaults(ctx, "C09.state", ["yowsup/structs/", "yowsup/layers/", "yowsup/common/"])


def definitely_str(e):
    return (isinstance(e, ast.Constant) and isinstance(e.value, str)) or isinstance(e, ast.JoinedStr) or \
        (isinstance(e, ast.BinOp) and isinstance(e.op, ast.Mod) and definitely_str(e.left)) or \
        (isinstance(e, ast.BinOp) and isinstance(e.op, ast.Add) and (definitely_str(e.left) or definitely_str(e.right))) or \
        (isinstance(e, ast.Call) and isinstance(e.func, ast.Name) and e.func.id in ("str", "repr")) or \
        (isinstance(e, ast.Call) and isinstance(e.func, ast.Attribute) and e.func.attr in ("join", "format"))


def definitely_int(e):
    return (isinstance(e, ast.Constant) and isinstance(e.value, int) and not isinstance(e.value, bool)) or \
        (isinstance(e, ast.Call) and isinstance(e.func, ast.Name) and e.func.id in ("len", "int")) or \
        (isinstance(e, ast.BinOp) and isinstance(e.op, (ast.Sub, ast.Mult, ast.FloorDiv)) and definitely_int(e.left) and definitely_int(e.right))


def rule_str(ctx, rule="C09.api"):
    """handlers format stanzas into log / error texts (`"%s" % node`) before they answer: the tree's and the base
    entity's __str__ must not raise.  Decided for the one shape that raises for certain: arithmetic between a formatted
    string and a number (`"..%s" % n - k` parses as `("..%s" % n) - k`)."""
    repo = ctx.repo
    n = 0
    for rel, cn in (("yowsup/structs/protocoltreenode.py", "ProtocolTreeNode"), ("yowsup/structs/protocolentity.py", "ProtocolEntity")):
        cls = repo.cls(rel, cn)
        for name, fn in sorted(cls.methods.items()):
            if name not in ("__str__", "__repr__", "toString", "getData", "getAttributeValue") and not name.startswith("__str"):
                continue
            n += 1
            bad = None
            local_ints = {t.id for st in ast.walk(fn) if isinstance(st, ast.Assign) and definitely_int(st.value) for t in st.targets if isinstance(t, ast.Name)}
            for b in ast.walk(fn):
                if isinstance(b, ast.BinOp) and isinstance(b.op, (ast.Sub, ast.Div, ast.FloorDiv)) and (definitely_str(b.left) or definitely_str(b.right)):
                    bad = b
                if isinstance(b, ast.BinOp) and isinstance(b.op, ast.Add) and ((definitely_str(b.left) and (definitely_int(b.right) or (isinstance(b.right, ast.Name) and b.right.id in local_ints))) or
                                                                                 (definitely_str(b.right) and (definitely_int(b.left) or (isinstance(b.left, ast.Name) and b.left.id in local_ints)))):
                    bad = b
            ctx.check(rule, bad is None, where(rel, "%s.%s" % (cn, name), fn.lineno), "%s.%s cannot raise a TypeError of its own" % (cn, name),
                      "`%s` applies arithmetic to a formatted string: it raises TypeError whenever it is reached, and handlers that put the stanza into a log or error text (unknown notification types, unsupported stanzas) die before they answer" % (unparse(bad)[:70] if bad is not None else ""),
                      "no arithmetic on strings")
    return n


def rule_wire(ctx):
    """'survives the codec unchanged': given well-typed tags / attributes / data (C09.codec), a stanza survives iff the
    codec is a round trip - that is C01's rule set, adopted here so that a codec change is reported against C09 too."""
    from . import c01
    from ..report import Ctx
    scratch = Ctx(ctx.repo, "C01", ctx.tier)
    for r in ("C01.tags", "C01.int", "C01.class", "C01.pack", "C01.dbl", "C01.unpack", "C01.count", "C01.dict", "C01.str", "C01.node", "C01.layer"):
        scratch.rule(r, "", 0)
    widths = c01.rule_int(scratch)
    c01.rule_class(scratch, widths)
    c01.rule_tags(scratch)
    c01.rule_dbl(scratch)
    tables = c01.rule_pack(scratch)
    if tables:
        c01.rule_unpack(scratch, tables)
    c01.rule_count(scratch)
    c01.rule_dict(scratch)
    for fn_ in (c01.rule_str, c01.rule_node, c01.rule_layer):
        ctx.guarded("C09.wire", fn_, scratch)
    ctx.adopt(scratch, {r: "C09.wire" for r in ("C01.tags", "C01.int", "C01.class", "C01.pack", "C01.dbl", "C01.unpack", "C01.count", "C01.dict", "C01.str", "C01.node", "C01.layer")})


def rule_classes(ctx, only=None):
    """per receive-side entity class: ret / api / same / kept (only: predicate on the class to restrict the set)"""
    repo = ctx.repo
    classes = [(c, u) for c, u in receive_side_classes(repo) if only is None or only(c)]
    ctx.units["C09.receive_side_classes"] = len(classes)
    not_analysed = []
    for cls, used_in in classes:
        repo.consulted.add(cls.relpath)
        w = where(cls.relpath, cls.name, None)
        tag = root_tag(repo, cls)
        try:
            r = ctx.guarded("C09.class", analyse_class, ctx, repo, cls, tag)
        except Budget:
            not_analysed.append(cls.name)
            ctx.note("%s: cell enumeration exceeded its budget (not analysed)" % cls.name)
            continue
        except NeedAtom as e:
            not_analysed.append(cls.name)
            ctx.note("%s: not analysed (%s)" % (cls.name, e))
            continue
        label = "%s (%d cell(s))" % (cls.name, r["cells"])
        # C09.ret
        if r["ret"]:
            ctx.violate("C09.ret", w, label, "%s%s" % (r["ret"][0][0], " (the layer in %s hands the result on)" % used_in))
        elif r["raised"] and len(r["raised"]) == r["cells_present"]:
            ctx.violate("C09.ret", w, label, "stanza -> entity -> stanza raises on every path: %s" % r["raised"][0][0][:120])
        else:
            ctx.hold("C09.ret", w, label, "entity and node returned on all non-raising paths")
        # C09.api
        if r["api"]:
            ctx.violate("C09.api", w, label, "; ".join(sorted({t for _, t in r["api"]})))
        else:
            ctx.hold("C09.api", w, label, "node API calls exist")
        # C09.same
        same = {k: v for k, v in r["same"].items() if (cls.name, "same", k) not in EXCEPTIONS}
        if same:
            k = sorted(same)[0]
            ctx.violate("C09.same", w, label, "%s of <%s> is written from %s: the value ends up under a different key/place than it was read from" % (
                k[1], "/".join(k[0]) or "stanza", ", ".join(same[k])) + ("" if len(same) == 1 else " (+%d more)" % (len(same) - 1)))
        else:
            ctx.hold("C09.same", w, label, "%d written (path, key) fed by their own input" % len(r["written"]))
        # C09.kept
        missing = sorted(r["stored"] - r["written"])
        missing = [m for m in missing if not (m in r["by_key"] and len(r["by_key"][m]) >= 2 and "<input>" not in r["by_key"][m])]
        unfed = r["unfed"]
        probs = []
        if missing:
            probs.append("parsed but never written back: " + ", ".join("%s[%s]" % ("/".join(p) or "stanza", k) for p, k in missing[:4]))
        if unfed:
            probs.append("written from a field the parser never sets: " + ", ".join("%s[%s]" % ("/".join(p) or "stanza", k) for p, k in sorted(unfed)[:4]))
        zl = r.get("zero_lost") or {}
        if zl:
            probs.append("dropped when its number is zero (the serialiser tests the converted value for truth: \"0\" is present, 0 is falsy): " + ", ".join("%s[%s]" % ("/".join(p) or "stanza", k) for p, k in sorted(zl)[:4]))
        if probs:
            ctx.violate("C09.kept", w, label, "; ".join(probs))
        else:
            ctx.hold("C09.kept", w, label, "%d stored (path, key) all written back" % len(r["stored"]))
        if r["codec"]:
            k = sorted(r["codec"])[0]
            ctx.note("%s (receive-side only): %s[%s] %s - compared by value on re-serialisation, never sent" % (cls.name, "/".join(k[0]) or "stanza", k[1], r["codec"][k]))
    ctx.units["C09.not_analysed"] = not_analysed


def rule_helper(ctx):
    """the helper every serialiser builds its node with (ProtocolEntity._createProtocolTreeNode), executed on concrete
    attribute dictionaries: every attribute whose value is a string - the empty string and "0" included - arrives in the
    node with that value, under the entity's tag; children and data are handed on"""
    repo = ctx.repo
    base = repo.cls("yowsup/structs/protocolentity.py", "ProtocolEntity")
    k, fn = repo.find_method(base, "_createProtocolTreeNode")
    w = where(base.relpath, "ProtocolEntity._createProtocolTreeNode", getattr(fn, "lineno", None))
    if fn is None:
        ctx.undecided("C09.kept", w, "node construction helper", "ProtocolEntity._createProtocolTreeNode not found")
        return
    from ..absint import Obj
    given = {"text": "hello", "empty": "", "zero": "0", "id": "ID-1"}
    bad = []
    try:
        it = Interp(repo, {}, {})
        o = Obj(base)
        o.fields["tag"] = ("c", "probe")
        child = Node(("c", "child"), None)
        for args in ([("dict", {k_: ("c", v_) for k_, v_ in given.items()}), C_NONE, C_NONE],
                     [("dict", {k_: ("c", v_) for k_, v_ in given.items()}), ("list", [("node", child)]), ("c", b"")],
                     [("dict", {k_: ("c", v_) for k_, v_ in given.items()}), C_NONE, ("c", b"DATA")]):
            r = it.force(it.method_call(("obj", o), "_createProtocolTreeNode", list(args), {}, {"@module": base.module, "@owner": base}, 0, None))
            if r[0] != "node":
                bad.append("returns %s, not a node" % show(r)[:40])
                continue
            n = r[1]
            if n.tag != ("c", "probe"):
                bad.append("the node's tag is %s, not the entity's" % show(n.tag)[:30])
            for k_, v_ in given.items():
                got = n.attrs.get(k_)
                if got != ("c", v_):
                    bad.append("attribute %s=%r arrives as %s" % (k_, v_, "nothing (left out)" if got is None else show(got)[:30]))
            if args[1] != C_NONE and not any(isinstance(c_, Node) and c_ is child for _k, c_ in n.children):
                bad.append("the children handed in do not arrive in the node")
            if args[2] != C_NONE and args[2][1] and n.data != args[2]:
                bad.append("the data handed in does not arrive in the node (%s)" % show(n.data)[:30])
    except (_Raise, NeedAtom, Budget, DomainGrew) as x:
        ctx.undecided("C09.kept", w, "node construction helper", "could not be executed: %s" % (getattr(x, "text", None) or x,))
        return
    ctx.check("C09.kept", not bad, w, "every attribute handed to the helper arrives in the node ('' and '0' included)",
              "; ".join(sorted(set(bad))[:3]) + " - every entity serialised through the helper loses that field", "attributes, children and data handed on unchanged")


def run(ctx):
    ctx.rule("C09.wire", "the codec the stanzas pass through is a round trip (C01.int/class/tags/dbl/pack/unpack adopted)", floor=40)
    ctx.rule("C09.payload", "the payload converter message entities are parsed and re-serialised through is a bijection (C10.bij/has/top adopted)", floor=100)
    ctx.rule("C09.state", "a node's attribute / child containers are fresh per node; no shared default objects in structs", floor=2)
    ctx.rule("C09.fresh", "containers filled per element inside converter loops are allocated per element", floor=3)
    ctx.rule("C09.ret", "converters return an entity / a node on every path", floor=40)
    ctx.rule("C09.same", "written values are fed by the same (path, key) of the input", floor=40)
    ctx.rule("C09.kept", "stored (path, key) are written back", floor=40)
    ctx.rule("C09.api", "ProtocolTreeNode methods exist", floor=40)
    ctx.rule("C09.codec", "definite non-string attribute values / str data in entities the stack sends", floor=40)
    ctx.assume("numeric normalisation and boolean flags are provenance-preserving conversions; value-level equality is not decided")
    ctx.guarded("C09.classes", rule_classes, ctx)
    ctx.guarded("C09.kept", rule_helper, ctx)
    repo = ctx.repo
    ctx.guarded("C09.codec_sent", rule_codec_sent, ctx, repo)


def tagtext(nn):
    return nn.tag[1] if nn.tag is not None and nn.tag[0] == "c" else "?"


def rule_codec_sent_only(ctx, repo):
    return rule_codec_sent(ctx, repo, only=True)


def rule_codec_sent(ctx, repo, only=False):
    """entities the stack forwards downward: their serialisation must be acceptable to the binary codec"""
    from ..routing import concrete_entity_classes
    from .c06 import load_routing, zero_reason
    routing = load_routing()
    n = 0
    for cls in concrete_entity_classes(repo):
        if zero_reason(cls, routing):
            continue
        repo.consulted.add(cls.relpath)
        w = where(cls.relpath, cls.name, None)
        def run1(cell, domains):
            it = Interp(repo, cell, domains, hooks=converter_hooks())
            it.pure_depth = 1
            k, init = repo.find_method(cls, "__init__")
            ps = [a.arg for a in init.args.args][1:] if init is not None else []
            req = ps       # optional parameters too: the fields they feed are serialised when set
            stage = "constructor"
            try:
                ent = it.construct(cls, [("atom", ("E", p)) for p in req], {}, {"@module": cls.module, "@owner": None}, 0, None)
                stage = "serialiser"
                node = it.method_call(ent, "toProtocolTreeNode", [], {}, {"@module": cls.module}, 0, None)
            except _Raise as r:
                return {"raised": r.text or "", "node": None, "it": it, "stage": stage}, it
            return {"raised": None, "node": node, "it": it}, it
        try:
            cells = enumerate_cells(run1, {}, max_cells=300)
        except (Budget, NeedAtom) as e:
            ctx.note("%s: not analysed for C09.codec (%s)" % (cls.name, type(e).__name__))
            continue
        good = [rs for c_, rs in cells if rs["node"] is not None]
        if not good and all(rs.get("stage") == "serialiser" for c_, rs in cells) and len({(rs["raised"] or "")[:40] for c_, rs in cells}) == 1:
            # the entity can be built from any arguments, and its serialiser raises the same error for all of them: the
            # kind can never be put on the wire
            n += 1
            ctx.violate("C09.codec", w, "%s.toProtocolTreeNode" % cls.name, "the serialiser of this sendable entity raises for every input (%s): no stanza is ever produced for it" % (cells[0][1]["raised"] or "")[:80])
            continue
        if not good:
            ctx.note("%s: serialisation of a default-constructed entity raises (%s): not analysed for C09.codec" % (cls.name, (cells[0][1]["raised"] or "")[:60]))
            continue
        n += 1
        label = "%s.toProtocolTreeNode()" % cls.name
        probs = []
        bad_ret = None
        BYTES_FNS = ("b64encode", "urlsafe_b64encode", "standard_b64encode", "hexlify", "digest", "encode")
        for rs in good:                      # every cell of the constructor's arguments, not only the default one
            node, it = rs["node"], rs["it"]
            if node[0] != "node":
                bad_ret = node
                break
            for path, nn in walk_out(node[1]):
                for key, v in nn.attrs.items():
                    if v[0] == "c" and not isinstance(v[1], (str, type(None))):
                        probs.append("%s[%s] is the %s %r" % ("/".join(path) or cls.name, key, type(v[1]).__name__, v[1]))
                    elif v[0] == "fn" and v[1] in ("int", "len", "float"):
                        probs.append("%s[%s] is %s(...), not a string" % ("/".join(path) or cls.name, key, v[1]))
                    elif v[0] == "fn" and v[1] in BYTES_FNS:
                        probs.append("%s[%s] is the bytes result of %s(...): the encoder writes it, the decoder hands back a str, and the stanza no longer equals what was sent" % ("/".join(path) or cls.name, key, v[1]))
                d = nn.data
                if d[0] == "c" and isinstance(d[1], str):
                    probs.append("data of <%s> is the str %r, not bytes" % ("/".join(path) or cls.name, d[1]))
                kids = [c for kk, c in nn.children if isinstance(c, Node)]
                if kids and not (d[0] == "c" and d[1] is None) and d != C_NONE:
                    probs.append("<%s> carries both content and %d child node(s): the format has room for one of them - the frame announces an even item count the decoder reads as attributes only" % ("/".join(path) or tagtext(nn), len(kids)))
                if nn.tag is not None and (nn.tag[0] in ("dict", "list") or (nn.tag[0] == "c" and not isinstance(nn.tag[1], (str, type(None))))):
                    probs.append("a %s is used as node tag" % nn.tag[0])
            if it.api_misuse:
                probs += sorted({t for _, t in it.api_misuse})
        if bad_ret is not None:
            ctx.violate("C09.ret", w, label, "an entity the stack sends serialises to %s instead of a node" % show(bad_ret))
            continue
        probs = sorted(set(probs))
        ctx.check("C09.codec", not probs, w, label, "; ".join(probs[:3]) + " (the encoder needs strings for tags/attributes and bytes for data)", "no definitely mistyped tag, attribute value or data (%d cell(s))" % len(good))
    ctx.units["C09.sent_classes_analysed"] = n
    if only:
        return
    ctx.guarded("C09.wire", rule_wire, ctx)
    ctx.guarded("C09.fresh", rule_fresh, ctx)
    ctx.guarded("C09.payload", rule_payload, ctx)
    ctx.guarded("C09.state", rule_state, ctx)
    ctx.guarded("C09.api", rule_str, ctx)
