"""C18 - stack assembly and event propagation.

C18.bind    every call among the stack/builder helpers binds
C18.flags   the 16 flag vectors evaluate to core + control + encryption group + exactly the selected modules
C18.wire    _construct wires upper/lower in order; tuples become groups; non-layers rejected
C18.mirror  emit/broadcast siblings are mirror images modulo upper<->lower
C18.stop    continuation guarded by the negated onEvent result; detached events deferred once; loop drains
C18.state   the event-callback table of a layer is a fresh per-instance object (not taken from class-level state)
C18.par     the parallel group substitutes the four routing methods and finds interfaces by class
"""
import ast
import copy
import itertools

from .. import linear
from ..calls import Resolver, bind_problems
from ..consts import Evaluator
from ..report import where
from ..repo import unparse, is_self_attr, params_of
from ..stackmodel import StackEval, default_layers, flatten, show, FLAGS, YS, LAYERS
from .c01 import rule_bind as _bind_generic


def rule_bind(ctx):
    res = Resolver(ctx.repo)
    for rel in (YS, LAYERS):
        m = ctx.repo.module(rel)
        for c in m.classes.values():
            if c.name.endswith("Test"):
                continue
            for fname, fn in c.methods.items():
                for call in ast.walk(fn):
                    if not isinstance(call, ast.Call):
                        continue
                    for (k, callee, implicit) in res.resolve_call(m, c, fn, call):
                        probs = bind_problems(callee, call, implicit)
                        w = where(rel, c.name + "." + fname, call.lineno)
                        ctx.check("C18.bind", not probs, w, call,
                                  "call does not bind to %s%s: %s (raises TypeError for every invocation)" % ((k.name + "." if k else ""), callee.name, "; ".join(probs)),
                                  "binds to %s%s" % ((k.name + "." if k else ""), callee.name))


def rule_flags(ctx):
    repo = ctx.repo
    core_want = ["YowNetworkLayer", "YowNoiseSegmentsLayer", "YowNoiseLayer", "YowCoderLayer", "YowLoggerLayer"]
    results = {}
    w = where(YS, "YowStackBuilder.getDefaultLayers", None)
    for vec in itertools.product([False, True], repeat=len(FLAGS)):
        flags = dict(zip(FLAGS, vec))
        v, se = default_layers(repo, flags)
        layers = flatten(v)
        label = "getDefaultLayers(%s)" % ", ".join("%s=%s" % kv for kv in flags.items())
        if layers is None:
            if se.errors:
                ctx.violate("C18.flags", w, label, "helper call fails: " + se.errors[0][1])
            else:
                ctx.undecided("C18.flags", w, label, "could not evaluate to a tuple of layer classes: " + show(v))
            continue
        results[vec] = layers
    if not results:
        return
    full = results.get((True,) * len(FLAGS))
    none = results.get((False,) * len(FLAGS))
    # shape: 5 core classes, control, par(send, receive), par(protocol...)
    for vec, layers in sorted(results.items()):
        label = "flags " + "".join("1" if x else "0" for x in vec)
        names = [x.name if not isinstance(x, list) else [y.name for y in x] for x in layers]
        ok = len(layers) == 8 and names[:5] == core_want and names[5] == "AxolotlControlLayer" \
            and names[6] == ["AxolotlSendLayer", "AxolotlReceivelayer"] and isinstance(names[7], list)
        ctx.check("C18.flags", ok, w, label, "default layers are %s; expected %s + control + (send, receive) + protocol group" % (names[:7], core_want), "core + control + encryption group + protocol group")
    if none is None or full is None or not isinstance(none[-1], list):
        return
    basic = [c.qname for c in none[-1]]
    per_flag = {}
    for i, f in enumerate(FLAGS):
        on = tuple(j == i for j in range(len(FLAGS)))
        r = results.get(on)
        if r is None or not isinstance(r[-1], list):
            continue
        extra = [c for c in r[-1] if c.qname not in basic]
        per_flag[f] = extra
        ok = len(extra) == 1 and ("protocol_" + f) in extra[0].module.name and [c.qname for c in r[-1] if c.qname in basic] == basic
        ctx.check("C18.flags", ok, w, "flag %s adds %s" % (f, [c.name for c in extra]),
                  "flag `%s` must add exactly the layer of module protocol_%s to the basic set; it adds %s" % (f, f, [c.module.name for c in extra]), "adds exactly protocol_%s" % f)
    # every vector = basic + union of its flags' modules, nothing twice
    for vec, layers in sorted(results.items()):
        if not isinstance(layers[-1], list):
            continue
        want = set(basic)
        for f, on in zip(FLAGS, vec):
            if on:
                want |= {c.qname for c in per_flag.get(f, [])}
        got = [c.qname for c in layers[-1]]
        label = "protocol group for flags " + "".join("1" if x else "0" for x in vec)
        ctx.check("C18.flags", set(got) == want and len(got) == len(set(got)), w, label,
                  "protocol group is %s" % sorted(set(got) ^ want), "exactly the selected modules (%d layers)" % len(got))
    distinct = [tuple(c.qname for c in v) for v in per_flag.values()]
    ctx.check("C18.flags", len(set(distinct)) == len(distinct) == len(FLAGS), w, "flags guard distinct modules",
              "two flags select the same module or a flag selects none: %s" % {f: [c.name for c in v] for f, v in per_flag.items()}, "four distinct modules")
    # same-named parameters are passed to same-named parameters
    b = repo.cls(YS, "YowStackBuilder")
    for fname in ("getDefaultLayers", "getDefaultStack"):
        fn = b.methods.get(fname)
        if fn is None:
            continue
        ps = set(params_of(fn, drop_self=False))
        for call in ast.walk(fn):
            if isinstance(call, ast.Call):
                for k in call.keywords:
                    if k.arg in FLAGS and isinstance(k.value, ast.Name) and k.value.id in ps:
                        ctx.check("C18.flags", k.arg == k.value.id, where(YS, "YowStackBuilder." + fname, call.lineno), "%s=%s" % (k.arg, k.value.id),
                                  "flag `%s` is passed as `%s`" % (k.value.id, k.arg), "same-named")
    # getDefaultStack for the 32 combinations (axolotl x 16)
    gds = b.methods.get("getDefaultStack")
    if gds is not None:
        se = StackEval(repo)
        okc = 0
        fails = []
        wrong = []
        for ax in (False, True):
            for vec in itertools.product([False, True], repeat=len(FLAGS)):
                given = {k: ("const", v) for k, v in zip(FLAGS, vec)}
                given["axolotl"] = ("const", ax)
                given["layer"] = ("const", None)
                se.errors = []
                v = se.run(b, gds, None, {}, given=given)
                label = "axolotl=%s flags=%s" % (ax, "".join("1" if x else "0" for x in vec))
                if se.errors or v is None or v[0] == "err":
                    fails.append((label, se.errors[0][1] if se.errors else show(v)))
                elif v[0] == "inst" and v[1].name == "YowStack":
                    okc += 1
                    got = flatten(v[3][0]) if len(v) > 3 and v[3] else None
                    want = results.get(vec)
                    if got is None or want is None:
                        ctx.undecided("C18.flags", where(YS, "YowStackBuilder.getDefaultStack", gds.lineno), "getDefaultStack(%s)" % label, "layer tuple handed to YowStack not resolved")
                    else:
                        def names(ls):
                            return [x.name if not isinstance(x, list) else sorted(y.name for y in x) for x in ls]
                        if names(got) != names(want):
                            gp, wp = set(names(got)[-1]) if isinstance(names(got)[-1], list) else set(), set(names(want)[-1]) if isinstance(names(want)[-1], list) else set()
                            wrong.append((label, sorted(gp - wp), sorted(wp - gp)))
                else:
                    ctx.undecided("C18.flags", where(YS, "YowStackBuilder.getDefaultStack", gds.lineno), "getDefaultStack(%s)" % label, "does not evaluate to YowStack(...): " + show(v))
        wg = where(YS, "YowStackBuilder.getDefaultStack", gds.lineno)
        if fails:
            ctx.violate("C18.flags", wg, "getDefaultStack over 32 combinations",
                        "%d of 32 argument combinations raise, e.g. %s: %s" % (len(fails), fails[0][0], fails[0][1]))
        elif okc:
            ctx.hold("C18.flags", wg, "getDefaultStack over 32 combinations", "%d of 32 argument combinations construct a YowStack" % okc)
        ctx.check("C18.flags", not wrong, wg, "getDefaultStack builds the layers its flags select",
                  "%d of 32 combinations build a stack with other modules than the flags select, e.g. %s: has %s, lacks %s" % ((len(wrong),) + (wrong[0] if wrong else ("", "", ""))),
                  "the stack of every combination holds exactly the layers getDefaultLayers selects for the same flags")
    ctx.units["C18.default_full"] = [x.name if not isinstance(x, list) else [y.name for y in x] for x in (full or [])]


def rule_composition(ctx, rule):
    """shared with C06 / C07: the compositions the library publishes and builds are free of duplicated layers and of
    helpers that corrupt their own constants"""
    from ..stackmodel import composition_problems
    probs, n = composition_problems(ctx.repo)
    ctx.units[rule + "_compositions"] = n
    for rel, fn, line, construct, msg in probs:
        ctx.violate(rule, where(rel, fn, line), construct, msg)
    if not probs:
        ctx.hold(rule, where(YS, "YowStackBuilder", None), "published and built compositions", "%d compositions: no layer class twice, helpers leave their constants alone" % n)
    return not probs


def rule_prim(ctx, rule, which=("prop", "detached")):
    """semantics of the framework primitives that every other analysis (and every layer) assumes, by abstract execution:
    prop   YowStack.getProp returns the stored value whenever the key is present - also when that value is falsy
           (False, 0, '') - and the default only when it is absent; YowLayer.getProp/setProp delegate to the stack
    detached   YowStack.execDetached never runs the callback on the caller's thread: it only queues it for loop()"""
    from ..absint import Interp, Obj, _Raise, C_NONE, flat_effects
    repo = ctx.repo
    st = repo.cls(YS, "YowStack")
    if "prop" in which:
        gp = st.methods.get("getProp")
        w = where(YS, "YowStack.getProp", getattr(gp, "lineno", None))
        bad = []
        n = 0
        for stored in (("c", False), ("c", 0), ("c", ""), ("c", None), ("c", "x"), None):
            it = Interp(repo, {}, {}, hooks={})
            o = Obj(st)
            o.fields["_props"] = ("dict", {} if stored is None else {"k": stored})
            try:
                r = it.call_function(gp, st, ("obj", o), [("c", "k"), ("c", "DEFAULT")], {}, depth=0)
            except Exception as e:
                bad.append("not evaluated (%s)" % type(e).__name__)
                continue
            n += 1
            want = ("c", "DEFAULT") if stored is None else stored
            if r != want:
                bad.append("with %s stored it returns %r" % ("nothing" if stored is None else repr(stored[1]), r[1] if r[0] == "c" else r[0]))
        ctx.check(rule, not bad and n == 6, w, "getProp(key, default) over stored values False / 0 / '' / None / 'x' / absent",
                  "; ".join(bad[:3]) + ": a property explicitly set to a falsy value (reconnect off, ping interval 0, segmentation off) is ignored and the caller's default used instead",
                  "stored value whenever the key is present, default only when absent")
        lay = repo.cls(LAYERS, "YowLayer")
        for name, nargs in (("getProp", 2), ("setProp", 2)):
            fn = lay.methods.get(name)
            ok = fn is not None and any(isinstance(c, ast.Call) and isinstance(c.func, ast.Attribute) and c.func.attr == name and "getStack" in unparse(c.func.value) and len(c.args) == nargs
                                        and [unparse(a) for a in c.args] == params_of(fn) for c in ast.walk(fn))
            ctx.check(rule, ok, where(LAYERS, "YowLayer." + name, getattr(fn, "lineno", None)), "YowLayer.%s delegates to the stack" % name,
                      "the layer's %s must hand both arguments to its stack's %s" % (name, name), "delegates with both arguments")
    if "detached" in which:
        ed = st.methods.get("execDetached")
        w = where(YS, "YowStack.execDetached", getattr(ed, "lineno", None))
        from ..absint import enumerate_cells, Budget
        fn_ast = ast.parse("def cb():\n    marker.ran()").body[0]

        def run(cell, domains):
            it = Interp(repo, cell, domains, hooks={})
            o = Obj(st)
            k_, init = repo.find_method(st, "__init__")
            # fields the constructor sets to constants are taken from it (a flag such as `_looping = False`)
            if init is not None:
                for n_ in ast.walk(init):
                    if isinstance(n_, ast.Assign) and len(n_.targets) == 1 and is_self_attr(n_.targets[0]) and isinstance(n_.value, ast.Constant):
                        o.fields[n_.targets[0].attr] = ("c", n_.value.value)
            res = {"raised": None}
            try:
                it.call_function(ed, st, ("obj", o), [("closure", fn_ast, {"marker": ("ext", "marker", [])}, None, None)], {}, depth=0)
            except _Raise as r_:
                res["raised"] = r_.text
            res["effects"] = list(flat_effects(it.effects))
            return res, it
        try:
            cells = enumerate_cells(run, {}, max_cells=50)
        except Budget:
            cells = None
        if cells is None:
            ctx.undecided(rule, w, "execDetached(fn) only queues fn", "not evaluated")
        else:
            bad = []
            for cell, r in cells:
                ran = [e for e in r["effects"] if e[0] == "CALL" and e[1] == "marker.ran"]
                puts = [e for e in r["effects"] if e[0] == "CALL" and e[1].endswith(".put")]
                if r["raised"]:
                    bad.append("raises %s" % r["raised"][:50])
                elif ran:
                    bad.append("runs the callback itself%s" % (" when " + ", ".join("%s=%s" % (k[1] if k[0] == "F" else k, v) for k, v in cell.items()) if cell else ""))
                elif len(puts) != 1:
                    bad.append("does not queue the callback")
            ctx.check(rule, not bad, w, "execDetached(fn) only queues fn",
                      "execDetached %s: a detached event raised from inside a send is handled on the sending thread, under the locks it holds" % "; ".join(sorted(set(bad))[:2]),
                      "queued for loop(), never run by the caller (%d cell(s))" % len(cells))


# event callbacks that consume their event by design (reviewed, one line each)
CONSUMING_CALLBACKS = {
    ("YowNetworkLayer", "onConnectLayerEvent"): "the network layer is the bottom of the stack: the broadcast connect request ends there",
    ("YowNetworkLayer", "onDisconnectLayerEvent"): "the broadcast disconnect request ends at the network layer",
}


def rule_callbacks(ctx, rule):
    """an @EventCallback that returns a truthy value stops the event for every layer beyond it (emitEvent /
    broadcastEvent / the group's onEvent continue only on a false answer): state events (connected, disconnected,
    authed, ...) must reach all layers, so no callback outside the reviewed table returns a value"""
    repo = ctx.repo
    n = 0
    for m in sorted(repo.modules.values(), key=lambda m: m.relpath):
        if "/demos/" in m.relpath or not m.relpath.startswith("yowsup/layers/"):
            continue
        for c in m.classes.values():
            for name, f in sorted(c.methods.items()):
                if not any(isinstance(d, ast.Call) and unparse(d.func).split(".")[-1] == "EventCallback" for d in f.decorator_list):
                    continue
                n += 1
                w = where(m.relpath, "%s.%s" % (c.name, name), f.lineno)
                rets = [r for r in ast.walk(f) if isinstance(r, ast.Return) and r.value is not None and not (isinstance(r.value, ast.Constant) and r.value.value in (None, False))]
                # returns inside nested functions do not count
                nested = {id(r) for g in ast.walk(f) if isinstance(g, (ast.FunctionDef, ast.Lambda)) and g is not f for r in ast.walk(g)}
                rets = [r for r in rets if id(r) not in nested]
                if (c.name, name) in CONSUMING_CALLBACKS:
                    ctx.hold(rule, w, "event callback %s.%s" % (c.name, name), "consumes its event by design: " + CONSUMING_CALLBACKS[(c.name, name)])
                    continue
                ctx.check(rule, not rets, w, "event callback %s.%s" % (c.name, name),
                          "returns %s: the event stops here - the layers beyond (the interface layer and the application above it, the keep-alive, the encryption layers) never learn of it" % (unparse(rets[0].value) if rets else ""),
                          "returns nothing: the event travels on")
    ctx.units[rule + "_callbacks"] = n


def rule_state(ctx):
    """event callback tables, locks and neighbour links are per layer instance"""
    from ..state import per_instance_state
    n = 0
    from ..state import shared_defaults
    for rel, cn in ((LAYERS, "YowLayer"), (LAYERS, "YowParallelLayer"), ("yowsup/layers/interface/interface.py", "YowInterfaceLayer"), (YS, "YowStack"), (YS, "YowStackBuilder")):
        n += per_instance_state(ctx, "C18.state", ctx.repo.cls(rel, cn))
    ctx.units["C18.state_attrs"] = n
    ctx.units["C18.defaults_examined"] = shared_defaults(ctx, "C18.state", ["yowsup/stacks/", "yowsup/layers/__init__.py", "yowsup/layers/interface/"])


def rule_wire(ctx):
    repo = ctx.repo
    st = repo.cls(YS, "YowStack")
    fn = repo.method(YS, "YowStack", "_construct")
    w = where(YS, "YowStack._construct", fn.lineno)
    sl = repo.method(LAYERS, "YowLayer", "setLayers")
    ps = params_of(sl)
    # setLayers(upper, lower) stores them in order
    assigns = {unparse(n.targets[0]): unparse(n.value) for n in ast.walk(sl) if isinstance(n, ast.Assign)}
    ctx.check("C18.wire", len(ps) == 2 and assigns.get("self.__upper") == ps[0] and assigns.get("self.__lower") == ps[1],
              where(LAYERS, "YowLayer.setLayers", sl.lineno), "setLayers(%s)" % ", ".join(ps), "setLayers must store (upper, lower) in that order: %s" % assigns, "stores upper, lower")
    ev = Evaluator(repo, st.module, st)
    # wiring loop
    loop = None
    for n in ast.walk(fn):
        if isinstance(n, ast.For) and any(isinstance(c, ast.Call) and isinstance(c.func, ast.Attribute) and c.func.attr == "setLayers" for c in ast.walk(n)):
            loop = n
    if loop is None:
        ctx.undecided("C18.wire", w, fn, "wiring loop (for ... setLayers) not found")
        return
    i = loop.target.id if isinstance(loop.target, ast.Name) else None
    defs = {}
    call = None
    for s in loop.body:
        if isinstance(s, ast.Assign) and isinstance(s.targets[0], ast.Name):
            defs[s.targets[0].id] = s.value
        for c in ast.walk(s):
            if isinstance(c, ast.Call) and isinstance(c.func, ast.Attribute) and c.func.attr == "setLayers":
                call = c

    def neighbour(e):
        """-> (offset, guard ok) for `inst[i+k] if guard else None`"""
        if isinstance(e, ast.Name) and e.id in defs:
            e = defs[e.id]
        if isinstance(e, ast.IfExp) and isinstance(e.orelse, ast.Constant) and e.orelse.value is None and isinstance(e.body, ast.Subscript):
            idx = linear.lin(e.body.slice, ev)
            if idx is None or idx.get(i) != 1:
                return None
            off = idx.get(1, 0)
            cn = linear.cmp_normal(e.test, ev)
            guard = False
            if cn is not None:
                l, op = cn
                lens = [k for k in l if isinstance(k, str) and k.startswith("len(")]
                if off > 0 and lens:
                    # len - i - off > 0  <=>  i + off < len
                    guard = (op == ">" and l.get(lens[0]) == 1 and l.get(i) == -1 and l.get(1, 0) == -off) or \
                            (op == ">=" and l.get(lens[0]) == 1 and l.get(i) == -1 and l.get(1, 0) == -off - 1)
                elif off < 0:
                    # i + off >= 0
                    guard = (op == ">" and l.get(i) == 1 and l.get(1, 0) == off + 1 and len(l) <= 2) or \
                            (op == ">=" and l.get(i) == 1 and l.get(1, 0) == off and len(l) <= 2)
            return off, guard
        return None
    if call is None or len(call.args) != 2:
        ctx.undecided("C18.wire", w, loop, "setLayers(upper, lower) call not found in the wiring loop")
        return
    up, lo = neighbour(call.args[0]), neighbour(call.args[1])
    recv = linear.lin(call.func.value.slice, ev) if isinstance(call.func.value, ast.Subscript) else None
    ctx.check("C18.wire", up == (1, True) and lo == (-1, True) and recv is not None and recv.get(i) == 1 and recv.get(1, 0) == 0,
              where(YS, "YowStack._construct", call.lineno), call,
              "layer i must get instance i+1 as upper (None at the top) and i-1 as lower (None at the bottom); found upper=%s lower=%s" % (up, lo), "upper = i+1, lower = i-1, bounds guarded")
    # instantiation loop: tuples -> YowParallelLayer, non-layers rejected, order preserved (append)
    src = unparse(fn)
    tup = any(isinstance(n, ast.If) and "tuple" in unparse(n.test) and any(isinstance(c, ast.Call) and unparse(c.func) == "YowParallelLayer" for s in n.body for c in ast.walk(s)) for n in ast.walk(fn))
    ctx.check("C18.wire", tup, w, "tuple -> YowParallelLayer", "a tuple of layers must become a parallel group", "tuples become parallel groups")
    raises = [n for n in ast.walk(fn) if isinstance(n, ast.Raise)]
    ctx.check("C18.wire", len(raises) >= 1 and "issubclass" in src, w, "non-layers rejected", "objects that are not YowLayer subclasses/instances must be rejected", "non-layers raise ValueError")
    appends = [n for n in ast.walk(fn) if isinstance(n, ast.Call) and isinstance(n.func, ast.Attribute) and n.func.attr in ("append", "insert")]
    ctx.check("C18.wire", len(appends) == 1 and appends[0].func.attr == "append", w, "instances appended in stack order", "instances must be appended in iteration order", "append in order")
    # reversed handling in __init__
    init = repo.method(YS, "YowStack", "__init__")
    okrev = False
    for n in ast.walk(init):
        if isinstance(n, ast.IfExp) and isinstance(n.test, ast.Name) and n.test.id == "reversed":
            okrev = unparse(n.body).endswith("[::-1]") and isinstance(n.orelse, ast.Name)
    ctx.check("C18.wire", okrev, where(YS, "YowStack.__init__", init.lineno), "order convention (reversed)", "`reversed=True` must reverse the given sequence and False keep it", "reversed -> [::-1]")
    # stack entry points
    for name, idx in (("send", -1), ("receive", 0)):
        m = repo.method(YS, "YowStack", name)
        ok = False
        for n in ast.walk(m):
            if isinstance(n, ast.Call) and isinstance(n.func, ast.Attribute) and n.func.attr == name and isinstance(n.func.value, ast.Subscript):
                a = linear.lin(n.func.value.slice, ev)
                ok = a is not None and linear.const_of(a) == idx
        ctx.check("C18.wire", ok, where(YS, "YowStack." + name, m.lineno), "YowStack.%s enters at instance %d" % (name, idx), "stack.%s must enter at the %s layer" % (name, "top" if idx == -1 else "bottom"), "enters at index %d" % idx)
    # builder push/pop/build
    b = repo.cls(YS, "YowStackBuilder")
    push, pop, build = b.methods.get("push"), b.methods.get("pop"), b.methods.get("build")
    if push and pop and build:
        okp = any(isinstance(n, ast.AugAssign) and isinstance(n.op, ast.Add) and isinstance(n.value, ast.Tuple) for n in ast.walk(push))
        okq = any(isinstance(n, ast.Assign) and isinstance(n.value, ast.Subscript) and unparse(n.value.slice) == ":-1" for n in ast.walk(pop))
        okb = any(isinstance(n, ast.Call) and unparse(n.func) == "YowStack" and any(k.arg == "reversed" and unparse(k.value) == "False" for k in n.keywords) for n in ast.walk(build))
        ctx.check("C18.wire", okp and okq and okb, where(YS, "YowStackBuilder", None), "builder push/pop/build", "push must append one layer, pop remove the last, build keep the order (reversed=False)", "push appends, pop drops last, build keeps order")


class _Renamer(ast.NodeTransformer):
    def __init__(self, mapping, attr_mapping):
        self.m = mapping
        self.am = attr_mapping
        self.locals = {}

    def visit_Name(self, n):
        if n.id in self.m:
            n.id = self.m[n.id]
        return n

    def visit_arg(self, n):
        return n

    def visit_Attribute(self, n):
        self.generic_visit(n)
        if n.attr in self.am:
            n.attr = self.am[n.attr]
        return n

    def visit_Constant(self, n):
        if isinstance(n.value, int) and not isinstance(n.value, bool) and n.value in self.m:
            return ast.copy_location(ast.Constant(value=self.m[n.value]), n)
        return n

    def visit_UnaryOp(self, n):
        # fold -<int> into a constant; -1 <-> 0 index mirror
        if isinstance(n.op, ast.USub) and isinstance(n.operand, ast.Constant) and isinstance(n.operand.value, int):
            v = -n.operand.value
            return ast.copy_location(ast.Constant(value=self.m.get(v, v)), n)
        self.generic_visit(n)
        return n


def alpha(fn):
    """rename parameters and locals canonically (order of first occurrence)"""
    fn = copy.deepcopy(fn)
    names = {}
    for a in fn.args.args:
        names.setdefault(a.arg, "p%d" % len(names))
    for n in ast.walk(fn):
        if isinstance(n, ast.Name) and isinstance(n.ctx, ast.Store):
            names.setdefault(n.id, "p%d" % len(names))
    for a in fn.args.args:
        a.arg = names[a.arg]
    for n in ast.walk(fn):
        if isinstance(n, ast.Name) and n.id in names:
            n.id = names[n.id]
    fn.name = "f"
    fn.decorator_list = []
    body = [s for s in fn.body if not (isinstance(s, ast.Expr) and isinstance(s.value, ast.Constant))]
    fn.body = body
    return fn


def mirror_equal(a, b, attr_map, const_map=None):
    a2 = alpha(a)
    _Renamer(const_map or {}, attr_map).visit(a2)
    b2 = alpha(b)
    # normalise constants -1 (UnaryOp) in b too
    _Renamer({}, {}).visit(b2)
    return ast.dump(a2, include_attributes=False) == ast.dump(b2, include_attributes=False), unparse(a2), unparse(b2)


def rule_mirror(ctx):
    repo = ctx.repo
    pairs = [
        (LAYERS, "YowLayer", "emitEvent", "broadcastEvent", {"_YowLayer__upper": "_YowLayer__lower", "__upper": "__lower", "emitEvent": "broadcastEvent"}, None),
        (LAYERS, "YowParallelLayer", "receive", "send", {"receive": "send"}, None),
        (LAYERS, "YowParallelLayer", "subEmitEvent", "subBroadcastEvent", {"emitEvent": "broadcastEvent"}, None),
        (YS, "YowStack", "emitEvent", "broadcastEvent", {"emitEvent": "broadcastEvent"}, {0: -1}),
    ]
    for rel, cn, a, b, amap, cmap in pairs:
        fa, fb = repo.method(rel, cn, a), repo.method(rel, cn, b)
        ok, ta, tb = mirror_equal(fa, fb, amap, cmap)
        ctx.check("C18.mirror", ok, where(rel, "%s.%s" % (cn, b), fb.lineno), "%s.%s ~ %s" % (cn, a, b),
                  "%s is not the mirror image of %s (upper<->lower): mirrored %s reads `%s` but %s reads `%s`" % (b, a, a, " ".join(ta.split())[:200], b, " ".join(tb.split())[:200]),
                  "mirror images modulo upper<->lower")


def rule_stop(ctx):
    repo = ctx.repo
    for name, nb in (("emitEvent", "__upper"), ("broadcastEvent", "__lower")):
        fn = repo.method(LAYERS, "YowLayer", name)
        w = where(LAYERS, "YowLayer." + name, fn.lineno)
        top = [s for s in fn.body if isinstance(s, ast.If)]
        if len(top) != 1:
            ctx.undecided("C18.stop", w, fn, "expected a single guarding if")
            continue
        t = top[0].test
        ok = isinstance(t, ast.BoolOp) and isinstance(t.op, ast.And) and len(t.values) == 2 and unparse(t.values[0]).endswith(nb) \
            and isinstance(t.values[1], ast.UnaryOp) and isinstance(t.values[1].op, ast.Not) and isinstance(t.values[1].operand, ast.Call) \
            and unparse(t.values[1].operand.func).endswith(nb + ".onEvent")
        ctx.check("C18.stop", ok, w, top[0], "propagation must continue only when the neighbour exists and its onEvent returned a false value", "continue iff neighbour and not neighbour.onEvent(ev)")
        # every continuation is inside the guard; each path forwards exactly once
        conts = [c for c in ast.walk(fn) if isinstance(c, ast.Call) and isinstance(c.func, ast.Attribute) and c.func.attr == name]
        inside = [c for c in ast.walk(top[0]) if isinstance(c, ast.Call) and isinstance(c.func, ast.Attribute) and c.func.attr == name]
        ctx.check("C18.stop", len(conts) == len(inside) == 2, w, "continuations inside the guard", "a continuation escapes the stop guard (%d of %d inside)" % (len(inside), len(conts)), "both continuations guarded")
        det = [s for s in top[0].body if isinstance(s, ast.If)]
        okd = False
        if len(det) == 1 and "isDetached" in unparse(det[0].test):
            body = det[0].body
            clears = any(isinstance(s, ast.Assign) and unparse(s.targets[0]).endswith(".detached") and unparse(s.value) == "False" for s in body)
            defer = [c for s in body for c in ast.walk(s) if isinstance(c, ast.Call) and isinstance(c.func, ast.Attribute) and c.func.attr == "execDetached"]
            lam = defer and isinstance(defer[0].args[0], ast.Lambda) and isinstance(defer[0].args[0].body, ast.Call) and defer[0].args[0].body.func.attr == name \
                and unparse(defer[0].args[0].body.func.value).endswith(nb)
            direct = [c for s in det[0].orelse for c in ast.walk(s) if isinstance(c, ast.Call) and isinstance(c.func, ast.Attribute) and c.func.attr == name]
            # the clear must precede the hand-off
            order = clears and defer and [i for i, s in enumerate(body) if isinstance(s, ast.Assign)][0] < [i for i, s in enumerate(body) if any(c is defer[0] for c in ast.walk(s))][0]
            okd = bool(clears and lam and len(direct) == 1 and order)
        ctx.check("C18.stop", okd, w, "detached hand-off in " + name,
                  "a detached event must clear its flag and be deferred through execDetached(lambda: neighbour.%s(ev)); otherwise continue directly" % name, "flag cleared, deferred once, else direct")
    # onEvent dispatch returns the callback's result, False otherwise
    oe = repo.method(LAYERS, "YowLayer", "onEvent")
    rets = [n for n in ast.walk(oe) if isinstance(n, ast.Return)]
    okr = len(rets) == 2 and any(isinstance(r.value, ast.Call) for r in rets) and any(isinstance(r.value, ast.Constant) and r.value.value is False for r in rets)
    ctx.check("C18.stop", okr, where(LAYERS, "YowLayer.onEvent", oe.lineno), "onEvent result", "onEvent must return the callback's result and False when no callback is registered", "callback result / False")
    # execDetached / loop share one queue; loop gets without blocking and calls
    st = repo.cls(YS, "YowStack")
    ex, lp = repo.method(YS, "YowStack", "execDetached"), repo.method(YS, "YowStack", "loop")
    q1 = [unparse(c.func.value) for c in ast.walk(ex) if isinstance(c, ast.Call) and isinstance(c.func, ast.Attribute) and c.func.attr == "put"]
    q2 = [unparse(c.func.value) for c in ast.walk(lp) if isinstance(c, ast.Call) and isinstance(c.func, ast.Attribute) and c.func.attr == "get"]
    called = False
    for n in ast.walk(lp):
        if isinstance(n, ast.Assign) and isinstance(n.value, ast.Call) and isinstance(n.value.func, ast.Attribute) and n.value.func.attr == "get":
            v = n.targets[0].id
            called = any(isinstance(c, ast.Call) and isinstance(c.func, ast.Name) and c.func.id == v for c in ast.walk(lp))
    inloop = any(isinstance(n, ast.While) for n in ast.walk(lp))
    ctx.check("C18.stop", len(q1) == 1 and q1 == q2 and called and inloop, where(YS, "YowStack.loop", lp.lineno), "execDetached -> loop",
              "deferred callbacks must be put on and taken from the same queue and called by loop (put on %s, get from %s)" % (q1, q2), "same queue, drained and called in loop")
    # parallel onEvent consults its members in order and reports whether one consumed the event
    poe = repo.method(LAYERS, "YowParallelLayer", "onEvent")
    loops = [n for n in ast.walk(poe) if isinstance(n, ast.For) and unparse(n.iter) == "self.sublayers"]
    ok = len(loops) == 1 and any(isinstance(c, ast.Call) and isinstance(c.func, ast.Attribute) and c.func.attr == "onEvent" for c in ast.walk(loops[0])) \
        and all(not (isinstance(r.value, ast.Constant) and r.value.value is None) for r in ast.walk(poe) if isinstance(r, ast.Return)) \
        and any(isinstance(r, ast.Return) for r in ast.walk(poe))
    ctx.check("C18.stop", ok, where(LAYERS, "YowParallelLayer.onEvent", poe.lineno), "group onEvent",
              "the group must consult its members' onEvent in stack order and return whether one of them consumed the event", "members consulted in order, result returned")
    # ... decided by abstract execution over every vector of member answers (3 members): the group's answer is true
    # iff a consulted member consumed the event, members are consulted in stack order, and nobody is skipped unless a
    # member before it consumed the event
    import itertools
    from ..absint import Interp, Obj, _Raise, C_NONE
    par = repo.cls(LAYERS, "YowParallelLayer")
    base = repo.cls(LAYERS, "YowLayer")
    bad = []
    nvec = 0
    for vec in itertools.product((False, True), repeat=3):
        consulted = []
        it = Interp(repo, {}, {}, hooks={})
        members = [("obj", Obj(base)) for _ in vec]
        grp = ("obj", Obj(par))
        grp[1].fields["sublayers"] = ("list", list(members))

        def on_event(itp, recv, a, k, env, d, e, members=members, vec=vec, consulted=consulted):
            for i, mb in enumerate(members):
                if recv[1] is mb[1]:
                    consulted.append(i)
                    return ("c", vec[i])
            return None
        it.hooks["method:onEvent"] = on_event
        ev = Obj(repo.cls(LAYERS, "YowLayerEvent"))
        ev.fields.update({"name": ("c", "ev"), "detached": ("c", False), "args": ("dict", {})})
        try:
            r = it.call_function(poe, par, grp, [("obj", ev)], {}, depth=0)
        except _Raise as ex:
            bad.append("answers %s: raises %s" % (list(vec), ex.text[:50]))
            continue
        except Exception as ex:
            bad.append("answers %s: not decided (%s)" % (list(vec), type(ex).__name__))
            continue
        nvec += 1
        if r[0] != "c":
            bad.append("answers %s: the group's answer is not a definite value (%s)" % (list(vec), r[0]))
            continue
        want = any(vec[i] for i in consulted)
        if bool(r[1]) != want:
            bad.append("member answers %s: the group answers %r although %s" % (list(vec), r[1], "member %d consumed the event" % [i for i in consulted if vec[i]][0] if want else "no member consumed it"))
        if consulted != sorted(consulted) or len(set(consulted)) != len(consulted):
            bad.append("member answers %s: members consulted in order %s" % (list(vec), consulted))
        first_true = min([i for i in range(3) if vec[i]], default=3)
        missing = [i for i in range(3) if i not in consulted and i <= first_true]
        if missing:
            bad.append("member answers %s: member %s never sees the event" % (list(vec), missing))
    ctx.check("C18.stop", not bad and nvec == 8, where(LAYERS, "YowParallelLayer.onEvent", poe.lineno), "group onEvent over all member answer vectors",
              "; ".join(bad[:2]) + ": a consumed event keeps propagating past the group (or a member is skipped)", "8 answer vectors: consumed iff a consulted member consumed it")


def rule_par(ctx):
    repo = ctx.repo
    init = repo.method(LAYERS, "YowParallelLayer", "__init__")
    w = where(LAYERS, "YowParallelLayer.__init__", init.lineno)
    subst = {}
    for n in ast.walk(init):
        if isinstance(n, ast.For):
            for s in n.body:
                if isinstance(s, ast.Assign) and isinstance(s.targets[0], ast.Attribute) and isinstance(s.targets[0].value, ast.Name) and s.targets[0].value.id == n.target.id:
                    subst[s.targets[0].attr] = unparse(s.value)
    want = {"toLower": "self.toLower", "toUpper": "self.toUpper", "broadcastEvent": "self.subBroadcastEvent", "emitEvent": "self.subEmitEvent"}
    for k, v in want.items():
        ctx.check("C18.par", subst.get(k) == v, w, "s.%s = %s" % (k, subst.get(k)), "every sublayer's %s must be replaced by the group's %s" % (k, v), "substituted")
    inst = any(isinstance(n, ast.Assign) and unparse(n.targets[0]) == "self.sublayers" and "sublayer()" in unparse(n.value) for n in ast.walk(init))
    ctx.check("C18.par", inst, w, "sublayers instantiated in order", "sublayer classes must be instantiated in the given order", "instantiated in order")
    gi = repo.method(LAYERS, "YowParallelLayer", "getLayerInterface")
    ok = any(isinstance(n, ast.Compare) and "__class__" in unparse(n.left) for n in ast.walk(gi)) and any(isinstance(n, ast.Return) for n in ast.walk(gi))
    ctx.check("C18.par", ok, where(LAYERS, "YowParallelLayer.getLayerInterface", gi.lineno), "group finds interfaces by class", "interface lookup inside a group must compare the sublayer's class", "by class")
    sgi = repo.method(YS, "YowStack", "getLayerInterface")
    src = unparse(sgi)
    ok = "YowParallelLayer" in src and "getLayerInterface(YowLayerClass)" in src.replace(" ", "").replace("inst.", "") or ("YowParallelLayer" in src and "getLayerInterface" in src)
    ctx.check("C18.par", ok, where(YS, "YowStack.getLayerInterface", sgi.lineno), "stack descends into groups", "the stack's interface lookup must descend into parallel groups", "descends into groups")
    # setStack propagates to sublayers
    ss = repo.method(LAYERS, "YowParallelLayer", "setStack")
    ok = any(isinstance(n, ast.For) and any(isinstance(c, ast.Call) and isinstance(c.func, ast.Attribute) and c.func.attr == "setStack" for c in ast.walk(n)) for n in ast.walk(ss))
    ctx.check("C18.par", ok, where(LAYERS, "YowParallelLayer.setStack", ss.lineno), "setStack reaches sublayers", "sublayers must receive the stack (props, interfaces)", "propagated")


def run(ctx):
    ctx.rule("C18.bind", "calls among the stack and builder helpers bind", floor=25)
    ctx.rule("C18.flags", "16 default compositions and 32 default-stack combinations", floor=36)
    ctx.rule("C18.wire", "wiring order and entry points", floor=9)
    ctx.rule("C18.mirror", "emit/broadcast siblings mirror each other", floor=4)
    ctx.rule("C18.stop", "stop-on-true, detached deferral, loop", floor=10)
    ctx.rule("C18.par", "group method substitution and interface lookup", floor=8)
    ctx.rule("C18.prim", "getProp / setProp / execDetached semantics by abstract execution", floor=4)
    ctx.rule("C18.state", "event-callback tables (every attribute a layer mutates in place) are bound per instance to a fresh object", floor=1)
    ctx.guarded("C18.bind", rule_bind, ctx)
    ctx.guarded("C18.composition", rule_composition, ctx, "C18.flags")
    ctx.guarded("C18.flags", rule_flags, ctx)
    ctx.guarded("C18.wire", rule_wire, ctx)
    ctx.guarded("C18.mirror", rule_mirror, ctx)
    ctx.guarded("C18.stop", rule_stop, ctx)
    ctx.guarded("C18.par", rule_par, ctx)
    ctx.guarded("C18.state", rule_state, ctx)
    ctx.guarded("C18.prim", rule_prim, ctx, "C18.prim")
    ctx.guarded("C18.stop", rule_callbacks, ctx, "C18.stop")
    # data handed to toLower reaches the layer below: nothing else may hold the (non re-entrant) layer lock (C12.order), adopted
    from .c12_order import rule_layer_lock
    ctx.guarded("C18.wire", rule_layer_lock, ctx, "C18.wire")
