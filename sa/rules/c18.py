"""C18 - stack assembly and event propagation.

C18.bind    every call among the stack/builder helpers binds
C18.flags   the 16 flag vectors evaluate to core + control + encryption group + exactly the selected modules
C18.wire    _construct wires upper/lower in order; tuples become groups; non-layers rejected
C18.mirror  emit/broadcast siblings are mirror images modulo upper<->lower
C18.stop    continuation guarded by the negated onEvent result; detached events deferred once; loop drains
C18.state   the event-callback table of a layer is a fresh per-instance object (not taken from class-level state)
C18.par     the parallel group substitutes the four routing methods and finds interfaces by class
"""
import ast
import copy
import itertools

from .. import linear
from ..calls import Resolver, bind_problems
from ..consts import Evaluator
from ..report import where
from ..repo import unparse, is_self_attr, params_of
from ..stackmodel import StackEval, default_layers, flatten, show, FLAGS, YS, LAYERS
from .c01 import rule_bind as _bind_generic


def rule_bind(ctx):
    res = Resolver(ctx.repo)
    for rel in (YS, LAYERS):
        m = ctx.repo.module(rel)
        for c in m.classes.values():
            if c.name.endswith("Test"):
                continue
            for fname, fn in c.methods.items():
                for call in ast.walk(fn):
                    if not isinstance(call, ast.Call):
                        continue
                    for (k, callee, implicit) in res.resolve_call(m, c, fn, call):
                        probs = bind_problems(callee, call, implicit)
                        w = where(rel, c.name + "." + fname, call.lineno)
                        ctx.check("C18.bind", not probs, w, call,
                                  "call does not bind to %s%s: %s (raises TypeError for every invocation)" % ((k.name + "." if k else ""), callee.name, "; ".join(probs)),
                                  "binds to %s%s" % ((k.name + "." if k else ""), callee.name))


def rule_flags(ctx):
    repo = ctx.repo
    core_want = ["YowNetworkLayer", "YowNoiseSegmentsLayer", "YowNoiseLayer", "YowCoderLayer", "YowLoggerLayer"]
    results = {}
    w = where(YS, "YowStackBuilder.getDefaultLayers", None)
    for vec in itertools.product([False, True], repeat=len(FLAGS)):
        flags = dict(zip(FLAGS, vec))
        v, se = default_layers(repo, flags)
        layers = flatten(v)
        label = "getDefaultLayers(%s)" % ", ".join("%s=%s" % kv for kv in flags.items())
        if layers is None:
            if se.errors:
                ctx.violate("C18.flags", w, label, "helper call fails: " + se.errors[0][1])
            else:
                ctx.undecided("C18.flags", w, label, "could not evaluate to a tuple of layer classes: " + show(v))
            continue
        results[vec] = layers
    if not results:
        return
    full = results.get((True,) * len(FLAGS))
    none = results.get((False,) * len(FLAGS))
    # shape: 5 core classes, control, par(send, receive), par(protocol...)
    for vec, layers in sorted(results.items()):
        label = "flags " + "".join("1" if x else "0" for x in vec)
        names = [x.name if not isinstance(x, list) else [y.name for y in x] for x in layers]
        ok = len(layers) == 8 and names[:5] == core_want and names[5] == "AxolotlControlLayer" \
            and names[6] == ["AxolotlSendLayer", "AxolotlReceivelayer"] and isinstance(names[7], list)
        ctx.check("C18.flags", ok, w, label, "default layers are %s; expected %s + control + (send, receive) + protocol group" % (names[:7], core_want), "core + control + encryption group + protocol group")
    if none is None or full is None or not isinstance(none[-1], list):
        return
    basic = [c.qname for c in none[-1]]
    per_flag = {}
    for i, f in enumerate(FLAGS):
        on = tuple(j == i for j in range(len(FLAGS)))
        r = results.get(on)
        if r is None or not isinstance(r[-1], list):
            continue
        extra = [c for c in r[-1] if c.qname not in basic]
        per_flag[f] = extra
        ok = len(extra) == 1 and ("protocol_" + f) in extra[0].module.name and [c.qname for c in r[-1] if c.qname in basic] == basic
        ctx.check("C18.flags", ok, w, "flag %s adds %s" % (f, [c.name for c in extra]),
                  "flag `%s` must add exactly the layer of module protocol_%s to the basic set; it adds %s" % (f, f, [c.module.name for c in extra]), "adds exactly protocol_%s" % f)
    # every vector = basic + union of its flags' modules, nothing twice
    for vec, layers in sorted(results.items()):
        if not isinstance(layers[-1], list):
            continue
        want = set(basic)
        for f, on in zip(FLAGS, vec):
            if on:
                want |= {c.qname for c in per_flag.get(f, [])}
        got = [c.qname for c in layers[-1]]
        label = "protocol group for flags " + "".join("1" if x else "0" for x in vec)
        ctx.check("C18.flags", set(got) == want and len(got) == len(set(got)), w, label,
                  "protocol group is %s" % sorted(set(got) ^ want), "exactly the selected modules (%d layers)" % len(got))
    distinct = [tuple(c.qname for c in v) for v in per_flag.values()]
    ctx.check("C18.flags", len(set(distinct)) == len(distinct) == len(FLAGS), w, "flags guard distinct modules",
              "two flags select the same module or a flag selects none: %s" % {f: [c.name for c in v] for f, v in per_flag.items()}, "four distinct modules")
    # same-named parameters are passed to same-named parameters
    b = repo.cls(YS, "YowStackBuilder")
    for fname in ("getDefaultLayers", "getDefaultStack"):
        fn = b.methods.get(fname)
        if fn is None:
            continue
        ps = set(params_of(fn, drop_self=False))
        for call in ast.walk(fn):
            if isinstance(call, ast.Call):
                for k in call.keywords:
                    if k.arg in FLAGS and isinstance(k.value, ast.Name) and k.value.id in ps:
                        ctx.check("C18.flags", k.arg == k.value.id, where(YS, "YowStackBuilder." + fname, call.lineno), "%s=%s" % (k.arg, k.value.id),
                                  "flag `%s` is passed as `%s`" % (k.value.id, k.arg), "same-named")
    # getDefaultStack for the 32 combinations (axolotl x 16)
    gds = b.methods.get("getDefaultStack")
    if gds is not None:
        se = StackEval(repo)
        okc = 0
        fails = []
        wrong = []
        for ax in (False, True):
            for vec in itertools.product([False, True], repeat=len(FLAGS)):
                given = {k: ("const", v) for k, v in zip(FLAGS, vec)}
                given["axolotl"] = ("const", ax)
                given["layer"] = ("const", None)
                se.errors = []
                v = se.run(b, gds, None, {}, given=given)
                label = "axolotl=%s flags=%s" % (ax, "".join("1" if x else "0" for x in vec))
                if se.errors or v is None or v[0] == "err":
                    fails.append((label, se.errors[0][1] if se.errors else show(v)))
                elif v[0] == "inst" and v[1].name == "YowStack":
                    okc += 1
                    got = flatten(v[3][0]) if len(v) > 3 and v[3] else None
                    want = results.get(vec)
                    if got is None or want is None:
                        ctx.undecided("C18.flags", where(YS, "YowStackBuilder.getDefaultStack", gds.lineno), "getDefaultStack(%s)" % label, "layer tuple handed to YowStack not resolved")
                    else:
                        def names(ls):
                            return [x.name if not isinstance(x, list) else sorted(y.name for y in x) for x in ls]
                        if names(got) != names(want):
                            gp, wp = set(names(got)[-1]) if isinstance(names(got)[-1], list) else set(), set(names(want)[-1]) if isinstance(names(want)[-1], list) else set()
                            wrong.append((label, sorted(gp - wp), sorted(wp - gp)))
                else:
                    ctx.undecided("C18.flags", where(YS, "YowStackBuilder.getDefaultStack", gds.lineno), "getDefaultStack(%s)" % label, "does not evaluate to YowStack(...): " + show(v))
        wg = where(YS, "YowStackBuilder.getDefaultStack", gds.lineno)
        if fails:
            ctx.violate("C18.flags", wg, "getDefaultStack over 32 combinations",
                        "%d of 32 argument combinations raise, e.g. %s: %s" % (len(fails), fails[0][0], fails[0][1]))
        elif okc:
            ctx.hold("C18.flags", wg, "getDefaultStack over 32 combinations", "%d of 32 argument combinations construct a YowStack" % okc)
        ctx.check("C18.flags", not wrong, wg, "getDefaultStack builds the layers its flags select",
                  "%d of 32 combinations build a stack with other modules than the flags select, e.g. %s: has %s, lacks %s" % ((len(wrong),) + (wrong[0] if wrong else ("", "", ""))),
                  "the stack of every combination holds exactly the layers getDefaultLayers selects for the same flags")
    ctx.units["C18.default_full"] = [x.name if not isinstance(x, list) else [y.name for y in x] for x in (full or [])]


def rule_composition(ctx, rule):
    """shared with C06 / C07: the compositions the library publishes and builds are free of duplicated layers and of
    helpers that corrupt their own constants"""
    from ..stackmodel import composition_problems
    probs, n = composition_problems(ctx.repo)
    ctx.units[rule + "_compositions"] = n
    for rel, fn, line, construct, msg in probs:
        ctx.violate(rule, where(rel, fn, line), construct, msg)
    if not probs:
        ctx.hold(rule, where(YS, "YowStackBuilder", None), "published and built compositions", "%d compositions: no layer class twice, helpers leave their constants alone" % n)
    return not probs


def rule_prim(ctx, rule, which=("prop", "detached")):
    """semantics of the framework primitives that every other analysis (and every layer) assumes, by abstract execution:
    prop   YowStack.getProp returns the stored value whenever the key is present - also when that value is falsy
           (False, 0, '') - and the default only when it is absent; YowLayer.getProp/setProp delegate to the stack
    detached   YowStack.execDetached never runs the callback on the caller's thread: it only queues it for loop()"""
    from ..absint import Interp, Obj, _Raise, C_NONE, flat_effects
    repo = ctx.repo
    st = repo.cls(YS, "YowStack")
    if "prop" in which:
        gp = st.methods.get("getProp")
        w = where(YS, "YowStack.getProp", getattr(gp, "lineno", None))
        bad = []
        n = 0
        for stored in (("c", False), ("c", 0), ("c", ""), ("c", None), ("c", "x"), None):
            it = Interp(repo, {}, {}, hooks={})
            o = Obj(st)
            o.fields["_props"] = ("dict", {} if stored is None else {"k": stored})
            try:
                r = it.call_function(gp, st, ("obj", o), [("c", "k"), ("c", "DEFAULT")], {}, depth=0)
            except Exception as e:
                bad.append("not evaluated (%s)" % type(e).__name__)
                continue
            n += 1
            want = ("c", "DEFAULT") if stored is None else stored
            if r != want:
                bad.append("with %s stored it returns %r" % ("nothing" if stored is None else repr(stored[1]), r[1] if r[0] == "c" else r[0]))
        ctx.check(rule, not bad and n == 6, w, "getProp(key, default) over stored values False / 0 / '' / None / 'x' / absent",
                  "; ".join(bad[:3]) + ": a property explicitly set to a falsy value (reconnect off, ping interval 0, segmentation off) is ignored and the caller's default used instead",
                  "stored value whenever the key is present, default only when absent")
        lay = repo.cls(LAYERS, "YowLayer")
        for name, nargs in (("getProp", 2), ("setProp", 2)):
            fn = lay.methods.get(name)
            ok = fn is not None and any(isinstance(c, ast.Call) and isinstance(c.func, ast.Attribute) and c.func.attr == name and "getStack" in unparse(c.func.value) and len(c.args) == nargs
                                        and [unparse(a) for a in c.args] == params_of(fn) for c in ast.walk(fn))
            ctx.check(rule, ok, where(LAYERS, "YowLayer." + name, getattr(fn, "lineno", None)), "YowLayer.%s delegates to the stack" % name,
                      "the layer's %s must hand both arguments to its stack's %s" % (name, name), "delegates with both arguments")
    if "detached" in which:
        ed = st.methods.get("execDetached")
        w = where(YS, "YowStack.execDetached", getattr(ed, "lineno", None))
        from ..absint import enumerate_cells, Budget
        fn_ast = ast.parse("def cb():\n    marker.ran()").body[0]

        def run(cell, domains):
            it = Interp(repo, cell, domains, hooks={})
            o = Obj(st)
            k_, init = repo.find_method(st, "__init__")
            # fields the constructor sets to constants are taken from it (a flag such as `_looping = False`)
            if init is not None:
                for n_ in ast.walk(init):
                    if isinstance(n_, ast.Assign) and len(n_.targets) == 1 and is_self_attr(n_.targets[0]) and isinstance(n_.value, ast.Constant):
                        o.fields[n_.targets[0].attr] = ("c", n_.value.value)
            res = {"raised": None}
            try:
                it.call_function(ed, st, ("obj", o), [("closure", fn_ast, {"marker": ("ext", "marker", [])}, None, None)], {}, depth=0)
            except _Raise as r_:
                res["raised"] = r_.text
            res["effects"] = list(flat_effects(it.effects))
            return res, it
        try:
            cells = enumerate_cells(run, {}, max_cells=50)
        except Budget:
            cells = None
        if cells is None:
            ctx.undecided(rule, w, "execDetached(fn) only queues fn", "not evaluated")
        else:
            bad = []
            for cell, r in cells:
                ran = [e for e in r["effects"] if e[0] == "CALL" and e[1] == "marker.ran"]
                puts = [e for e in r["effects"] if e[0] == "CALL" and e[1].endswith(".put")]
                if r["raised"]:
                    bad.append("raises %s" % r["raised"][:50])
                elif ran:
                    bad.append("runs the callback itself%s" % (" when " + ", ".join("%s=%s" % (k[1] if k[0] == "F" else k, v) for k, v in cell.items()) if cell else ""))
                elif len(puts) != 1:
                    bad.append("does not queue the callback")
            ctx.check(rule, not bad, w, "execDetached(fn) only queues fn",
                      "execDetached %s: a detached event raised from inside a send is handled on the sending thread, under the locks it holds" % "; ".join(sorted(set(bad))[:2]),
                      "queued for loop(), never run by the caller (%d cell(s))" % len(cells))


# event callbacks that consume their event by design (reviewed, one line each)
CONSUMING_CALLBACKS = {
    ("YowNetworkLayer", "onConnectLayerEvent"): "the network layer is the bottom of the stack: the broadcast connect request ends there",
    ("YowNetworkLayer", "onDisconnectLayerEvent"): "the broadcast disconnect request ends at the network layer",
}


def rule_callbacks(ctx, rule):
    """an @EventCallback that returns a truthy value stops the event for every layer beyond it (emitEvent /
    broadcastEvent / the group's onEvent continue only on a false answer): state events (connected, disconnected,
    authed, ...) must reach all layers, so no callback outside the reviewed table returns a value"""
    repo = ctx.repo
    n = 0
    for m in sorted(repo.modules.values(), key=lambda m: m.relpath):
        if "/demos/" in m.relpath or not m.relpath.startswith("yowsup/layers/"):
            continue
        for c in m.classes.values():
            # which methods are event callbacks: the table the layer's own constructor registers (decorators applied by
            # the interpreter); the decorators are read off the source only when that cannot be followed
            from ..layers import event_handlers
            table = event_handlers(repo, c) if repo.cls(LAYERS, "YowLayer") in repo.mro(c) else None
            registered = set(table.values()) if table is not None else None
            for name, f in sorted(c.methods.items()):
                if registered is not None:
                    if name not in registered:
                        continue
                elif not any(isinstance(d, ast.Call) and unparse(d.func).split(".")[-1] == "EventCallback" for d in f.decorator_list):
                    continue
                n += 1
                w = where(m.relpath, "%s.%s" % (c.name, name), f.lineno)
                rets = [r for r in ast.walk(f) if isinstance(r, ast.Return) and r.value is not None and not (isinstance(r.value, ast.Constant) and r.value.value in (None, False))]
                # returns inside nested functions do not count
                nested = {id(r) for g in ast.walk(f) if isinstance(g, (ast.FunctionDef, ast.Lambda)) and g is not f for r in ast.walk(g)}
                rets = [r for r in rets if id(r) not in nested]
                if (c.name, name) in CONSUMING_CALLBACKS:
                    ctx.hold(rule, w, "event callback %s.%s" % (c.name, name), "consumes its event by design: " + CONSUMING_CALLBACKS[(c.name, name)])
                    continue
                ctx.check(rule, not rets, w, "event callback %s.%s" % (c.name, name),
                          "returns %s: the event stops here - the layers beyond (the interface layer and the application above it, the keep-alive, the encryption layers) never learn of it" % (unparse(rets[0].value) if rets else ""),
                          "returns nothing: the event travels on")
    ctx.units[rule + "_callbacks"] = n


def rule_state(ctx):
    """event callback tables, locks and neighbour links are per layer instance"""
    from ..state import per_instance_state
    n = 0
    from ..state import shared_defaults
    for rel, cn in ((LAYERS, "YowLayer"), (LAYERS, "YowParallelLayer"), ("yowsup/layers/interface/interface.py", "YowInterfaceLayer"), (YS, "YowStack"), (YS, "YowStackBuilder")):
        n += per_instance_state(ctx, "C18.state", ctx.repo.cls(rel, cn))
    ctx.units["C18.state_attrs"] = n
    ctx.units["C18.defaults_examined"] = shared_defaults(ctx, "C18.state", ["yowsup/stacks/", "yowsup/layers/__init__.py", "yowsup/layers/interface/"])


def _stub_layer(repo, name, layer=True):
    from ..repo import ClassInfo
    base = repo.cls(LAYERS, "YowLayer")
    node = ast.parse("class %s(%s):\n    pass\n" % (name, "YowLayer" if layer else "object")).body[0]
    k = ClassInfo(base.module, node)
    k.bases = [base] if layer else []
    k._mro = [k] + (list(repo.mro(base)) if layer else [])
    return k


def run_stack(repo, arr, reversed_=None):
    """abstract execution of YowStack(arr[, reversed]) -> (stack object, interpreter, list of instances or None, raised)"""
    from ..absint import Interp, Obj, _Raise, C_NONE
    st = repo.cls(YS, "YowStack")
    par = repo.cls(LAYERS, "YowParallelLayer")

    def construct(itp, c, a, k, env, d, e):
        if c is par:
            o = Obj(par)
            o.fields["@group_of"] = a[0] if a else C_NONE
            return ("obj", o)
        return None
    hooks = {"construct": construct, "ext:*.isclass": lambda itp, recv, a, k, env, d, e: ("c", bool(a) and a[0][0] == "cls"),
             "ext:*.randint": lambda itp, recv, a, k, env, d, e: ("c", 0)}
    it = Interp(repo, {}, {}, hooks=hooks)
    o = Obj(st)
    kk, init = repo.find_method(st, "__init__")
    raised = None
    try:
        it.call_function(init, kk, ("obj", o), [arr] + ([("c", reversed_)] if reversed_ is not None else []), {}, depth=0)
    except _Raise as r:
        raised = r.text
    insts = None
    for name, v in o.fields.items():
        if name.endswith("stackInstances") and v[0] == "list":
            insts = v[1]
    return o, it, insts, raised


def rule_wire(ctx):
    """YowStack's constructor, abstractly executed on a stack of three layer classes, a tuple of two and a ready-made
    instance: one instance per element in the given order (reversed when asked), the tuple becomes a parallel group, the
    instance is taken as it is; instance i gets i+1 as upper and i-1 as lower (None at the ends); anything that is not a
    layer is refused; send enters at the top instance and receive at the bottom one"""
    from ..absint import Obj, C_NONE, _Raise
    repo = ctx.repo
    st = repo.cls(YS, "YowStack")
    fn = repo.method(YS, "YowStack", "_construct")
    w = where(YS, "YowStack._construct", fn.lineno)
    sl = repo.method(LAYERS, "YowLayer", "setLayers")
    par = repo.cls(LAYERS, "YowParallelLayer")
    A, B, C, D, E = [_stub_layer(repo, n) for n in ("StubA", "StubB", "StubC", "StubD", "StubE")]
    ready = Obj(E)
    for rev in (False, True, None):
        given = [("cls", A), ("cls", B), ("list", [("cls", C), ("cls", D)], False, "tuple"), ("obj", ready)]
        arr = ("list", list(given))
        o, it, insts, raised = run_stack(repo, arr, rev)
        label = "reversed=%s" % ("default" if rev is None else rev)
        if raised or insts is None:
            ctx.violate("C18.wire", w, "stack of 3 classes, a tuple and an instance (%s)" % label, "the constructor %s" % ("raises " + raised if raised else "keeps no instance list"))
            continue
        order = given[::-1] if rev in (True, None) else given

        def matches(inst, want):
            if inst[0] != "obj":
                return False
            if want[0] == "cls":
                return inst[1].cls is want[1]
            if want[0] == "obj":
                return inst[1] is want[1]
            return inst[1].cls is par and inst[1].fields.get("@group_of") is not None and inst[1].fields["@group_of"][:2] == want[:2]
        ok_order = len(insts) == len(order) and all(matches(i_, w_) for i_, w_ in zip(insts, order))
        ctx.check("C18.wire", ok_order, w, "one instance per element, in order (%s)" % label,
                  "instances must be created in the order of the given sequence (reversed when `reversed` is true, the default), a tuple becoming a parallel group and an instance being taken as it is; got %s" % [x[1].cls.name if x[0] == "obj" and x[1].cls else x[0] for x in insts],
                  "instances in stack order; tuples become parallel groups")
        if not ok_order:
            continue
        bad = []
        for i, inst in enumerate(insts):
            up = [v for k_, v in inst[1].fields.items() if k_.endswith("__upper")]
            lo = [v for k_, v in inst[1].fields.items() if k_.endswith("__lower")]
            wu = insts[i + 1] if i + 1 < len(insts) else C_NONE
            wl = insts[i - 1] if i > 0 else C_NONE
            if len(up) != 1 or len(lo) != 1 or not ((up[0] == wu) if wu == C_NONE else (up[0][0] == "obj" and up[0][1] is wu[1])) or not ((lo[0] == wl) if wl == C_NONE else (lo[0][0] == "obj" and lo[0][1] is wl[1])):
                bad.append("instance %d" % i)
        ctx.check("C18.wire", not bad, w, "upper = i+1, lower = i-1 (%s)" % label,
                  "layer i must get instance i+1 as upper (None at the top) and i-1 as lower (None at the bottom); wrong for %s" % ", ".join(bad), "upper = i+1, lower = i-1, ends None")
        if rev is False:
            # entry points
            for name, idx in (("send", -1), ("receive", 0)):
                m = repo.method(YS, "YowStack", name)
                hit = []
                it.hooks["method:" + name] = lambda itp, recv, a, k, env, d, e, hit=hit: (hit.append(recv), C_NONE)[1] if recv[0] == "obj" and recv[1].cls is not st else None
                try:
                    it.call_function(m, st, ("obj", o), [("ext", "data", [])], {}, depth=0)
                except _Raise:
                    pass
                ok = len(hit) == 1 and hit[0][0] == "obj" and hit[0][1] is insts[idx][1]
                ctx.check("C18.wire", ok, where(YS, "YowStack." + name, m.lineno), "YowStack.%s enters at instance %d" % (name, idx), "stack.%s must enter at the %s layer" % (name, "top" if idx == -1 else "bottom"), "enters at index %d" % idx)
    # anything that is not a layer class / instance / tuple is refused
    notlayer = _stub_layer(repo, "NotALayer", layer=False)
    refused = []
    for badval, what in ((("cls", notlayer), "a class that is not a layer"), (("obj", Obj(notlayer)), "an object that is not a layer"), (("c", 5), "a number")):
        o, it, insts, raised = run_stack(repo, ("list", [("cls", A), badval]), False)
        if not raised:
            refused.append(what)
    ctx.check("C18.wire", not refused, w, "non-layers rejected", "objects that are not YowLayer subclasses/instances must be rejected; accepted: %s" % ", ".join(refused), "non-layers raise")
    # builder push/pop/build
    b = repo.cls(YS, "YowStackBuilder")
    push, pop, build = b.methods.get("push"), b.methods.get("pop"), b.methods.get("build")
    if push and pop and build:
        okp = any(isinstance(n, ast.AugAssign) and isinstance(n.op, ast.Add) and isinstance(n.value, ast.Tuple) for n in ast.walk(push))
        okq = any(isinstance(n, ast.Assign) and isinstance(n.value, ast.Subscript) and unparse(n.value.slice) == ":-1" for n in ast.walk(pop))
        okb = any(isinstance(n, ast.Call) and unparse(n.func) == "YowStack" and any(k.arg == "reversed" and unparse(k.value) == "False" for k in n.keywords) for n in ast.walk(build))
        ctx.check("C18.wire", okp and okq and okb, where(YS, "YowStackBuilder", None), "builder push/pop/build", "push must append one layer, pop remove the last, build keep the order (reversed=False)", "push appends, pop drops last, build keeps order")


class _Renamer(ast.NodeTransformer):
    def __init__(self, mapping, attr_mapping):
        self.m = mapping
        self.am = attr_mapping
        self.locals = {}

    def visit_Name(self, n):
        if n.id in self.m:
            n.id = self.m[n.id]
        return n

    def visit_arg(self, n):
        return n

    def visit_Attribute(self, n):
        self.generic_visit(n)
        if n.attr in self.am:
            n.attr = self.am[n.attr]
        return n

    def visit_Constant(self, n):
        if isinstance(n.value, int) and not isinstance(n.value, bool) and n.value in self.m:
            return ast.copy_location(ast.Constant(value=self.m[n.value]), n)
        if isinstance(n.value, str) and n.value in self.am:
            # a method named by a string (getattr / a dispatching helper) carries the direction as well
            return ast.copy_location(ast.Constant(value=self.am[n.value]), n)
        return n

    def visit_UnaryOp(self, n):
        # fold -<int> into a constant; -1 <-> 0 index mirror
        if isinstance(n.op, ast.USub) and isinstance(n.operand, ast.Constant) and isinstance(n.operand.value, int):
            v = -n.operand.value
            return ast.copy_location(ast.Constant(value=self.m.get(v, v)), n)
        self.generic_visit(n)
        return n


def alpha(fn):
    """rename parameters and locals canonically (order of first occurrence)"""
    fn = copy.deepcopy(fn)
    names = {}
    for a in fn.args.args:
        names.setdefault(a.arg, "p%d" % len(names))
    for n in ast.walk(fn):
        if isinstance(n, ast.Name) and isinstance(n.ctx, ast.Store):
            names.setdefault(n.id, "p%d" % len(names))
        elif isinstance(n, (ast.FunctionDef, ast.AsyncFunctionDef)) and n is not fn:
            # a nested function (continueUp / continueDown): a local like any other
            names.setdefault(n.name, "p%d" % len(names))
            n.name = names[n.name]
            n.body = [s_ for s_ in n.body if not (isinstance(s_, ast.Expr) and isinstance(s_.value, ast.Constant))] or [ast.Pass()]
    for a in fn.args.args:
        a.arg = names[a.arg]
    for n in ast.walk(fn):
        if isinstance(n, ast.Name) and n.id in names:
            n.id = names[n.id]
    fn.name = "f"
    fn.decorator_list = []
    body = [s for s in fn.body if not (isinstance(s, ast.Expr) and isinstance(s.value, ast.Constant))]
    fn.body = body
    return fn


def mirror_equal(a, b, attr_map, const_map=None):
    a2 = alpha(a)
    _Renamer(const_map or {}, attr_map).visit(a2)
    b2 = alpha(b)
    # normalise constants -1 (UnaryOp) in b too
    _Renamer({}, {}).visit(b2)
    return ast.dump(a2, include_attributes=False) == ast.dump(b2, include_attributes=False), unparse(a2), unparse(b2)


def mirror_exec(repo, rel, cn, a, b, amap, cmap):
    """both siblings executed on an object of the class whose collaborators are opaque: -> (same?, what a does, what b
    does) with a's effects renamed by the direction map; None when either execution cannot be followed"""
    from ..absint import Interp, Obj, _Raise, NeedAtom, Budget, DomainGrew, enumerate_cells, flat_effects, show
    cls = repo.cls(rel, cn)
    cmap = cmap or {}

    def rename(text, mapping):
        out = text
        for k in sorted(mapping, key=len, reverse=True):
            out = out.replace(k, "\0" + mapping[k] + "\0")
        return out.replace("\0", "")

    def run_one(name, mapping, cm):
        def run(cell, domains):
            it = Interp(repo, cell, domains)
            o = Obj(cls)
            # collaborators: every attribute the class's methods read from self is an opaque object named after it; a list
            # attribute iterated over is a list of two opaque members
            for k in repo.mro(cls):
                for fn in k.methods.values():
                    for n in ast.walk(fn):
                        if is_self_attr(n) and isinstance(n.ctx, ast.Load):
                            nm = repo.mangle(k.name, n.attr) if n.attr.startswith("__") and not n.attr.endswith("__") else n.attr
                            if nm not in o.fields and repo.find_method(cls, n.attr)[1] is None:
                                o.fields[nm] = ("ext", n.attr, [])
                    for n in ast.walk(fn):
                        if isinstance(n, ast.For) and is_self_attr(n.iter):
                            o.fields[n.iter.attr] = ("list", [("ext", n.iter.attr + "0", []), ("ext", n.iter.attr + "1", [])])
            fn = repo.method(rel, cn, name)
            args = [("ext", "ARG%d" % i, []) for i in range(len(params_of(fn)))]
            it.effects[:] = []
            raised = None
            try:
                ret = it.method_call(("obj", o), name, args, {}, {"@module": cls.module, "@owner": cls}, 0, None)
            except _Raise as r:
                ret, raised = None, r.text
            effs = []
            for e in flat_effects(it.effects):
                if e[0] == "CALL":
                    effs.append("%s(%s)" % (e[1], ", ".join(show(x) for x in (e[2] if len(e) > 2 and isinstance(e[2], list) else []))))
                else:
                    effs.append("%s %s" % (e[0], " ".join(show(x) if isinstance(x, tuple) else str(x) for x in e[1:])))
            rv = show(ret) if ret is not None else None
            if ret is not None and ret[0] == "c" and ret[1] in cm:
                rv = show(("c", cm[ret[1]]))
            return (tuple(effs), rv, raised), it
        out = {}
        for cell, res in enumerate_cells(run, {}, max_cells=64):
            key = tuple(sorted((rename(str(k), mapping), str(v)) for k, v in cell.items()))
            out[key] = tuple(rename(str(x), mapping) if x is not None else None for x in (" ; ".join(res[0]), res[1], res[2]))
        return out
    try:
        ea = run_one(a, amap, cmap)
        eb = run_one(b, {}, {})
    except (NeedAtom, Budget, DomainGrew, LookupError, KeyError, TypeError, AttributeError):
        return None
    if not ea or not eb:
        return None
    if ea == eb:
        return True, "", ""
    diff = [k for k in sorted(set(ea) | set(eb)) if ea.get(k) != eb.get(k)]
    k = diff[0]
    return False, "%s%s" % (ea.get(k), " when %s" % (k,) if k else ""), "%s" % (eb.get(k),)


def rule_mirror(ctx):
    repo = ctx.repo
    pairs = [
        (LAYERS, "YowLayer", "emitEvent", "broadcastEvent", {"_YowLayer__upper": "_YowLayer__lower", "__upper": "__lower", "emitEvent": "broadcastEvent"}, None),
        (LAYERS, "YowParallelLayer", "receive", "send", {"receive": "send"}, None),
        (LAYERS, "YowParallelLayer", "subEmitEvent", "subBroadcastEvent", {"emitEvent": "broadcastEvent"}, None),
        (YS, "YowStack", "emitEvent", "broadcastEvent", {"emitEvent": "broadcastEvent"}, {0: -1}),
    ]
    for rel, cn, a, b, amap, cmap in pairs:
        fa, fb = repo.method(rel, cn, a), repo.method(rel, cn, b)
        ok, ta, tb = mirror_equal(fa, fb, amap, cmap)
        if not ok:
            # the two siblings are written differently (a shared helper, a table): decided by what they do - both are
            # executed on the same object with opaque neighbours and their effects compared modulo the direction
            sem = mirror_exec(repo, rel, cn, a, b, amap, cmap)
            if sem is not None:
                same, da, db = sem
                ctx.check("C18.mirror", same, where(rel, "%s.%s" % (cn, b), fb.lineno), "%s.%s ~ %s" % (cn, a, b),
                          "%s is not the mirror image of %s (upper<->lower): executed on the same object, mirrored %s does %s but %s does %s" % (b, a, a, da, b, db),
                          "same effects modulo upper<->lower (by execution)")
                continue
        ctx.check("C18.mirror", ok, where(rel, "%s.%s" % (cn, b), fb.lineno), "%s.%s ~ %s" % (cn, a, b),
                  "%s is not the mirror image of %s (upper<->lower): mirrored %s reads `%s` but %s reads `%s`" % (b, a, a, " ".join(ta.split())[:200], b, " ".join(tb.split())[:200]),
                  "mirror images modulo upper<->lower")


def rule_iface(ctx):
    """interface lookup by class, by abstract execution: a stack [A, (B, C), (D, E), F] is built by YowStack's own
    constructor (parallel groups by YowParallelLayer's), every layer instance is given a distinct interface object, and
    stack.getLayerInterface(X) / some layer's getLayerInterface(X) are asked for every class: X's own interface comes
    back wherever X sits - alone, in the first group, in a later group, above a group that does not contain it - and a
    class that is not in the stack gives None"""
    from ..absint import Interp, Obj, _Raise, NeedAtom, Budget, C_NONE
    repo = ctx.repo
    st = repo.cls(YS, "YowStack")
    sgi = repo.method(YS, "YowStack", "getLayerInterface")
    w = where(YS, "YowStack.getLayerInterface", getattr(sgi, "lineno", None))
    K = [_stub_layer(repo, "Stub" + n) for n in "ABCDEFG"]
    hooks = {"ext:*.isclass": lambda itp, recv, a, k, env, d, e: ("c", bool(a) and a[0][0] == "cls"), "ext:*.randint": lambda itp, recv, a, k, env, d, e: ("c", 0)}
    tup = lambda *cs: ("list", [("cls", c) for c in cs], False, "tuple")
    for label, arr, members in (("A, (B, C), (D, E), F", [("cls", K[0]), tup(K[1], K[2]), tup(K[3], K[4]), ("cls", K[5])], K[:6]),
                                ("(B, C), A", [tup(K[1], K[2]), ("cls", K[0])], K[:3])):
        it = Interp(repo, {}, {}, hooks=hooks)
        o = Obj(st)
        kk, init = repo.find_method(st, "__init__")
        try:
            it.call_function(init, kk, ("obj", o), [("list", list(arr)), ("c", False)], {}, depth=0)
        except (_Raise, NeedAtom, Budget) as x:
            ctx.undecided("C18.par", w, "stack %s" % label, "the constructor could not be executed: %s" % (getattr(x, "text", x),))
            continue
        insts = [v for n, v in o.fields.items() if n.endswith("stackInstances")]
        if not insts or insts[0][0] != "list":
            ctx.undecided("C18.par", w, "stack %s" % label, "instance list not found")
            continue
        layers = []
        for x in insts[0][1]:
            if x[0] != "obj":
                continue
            subs = x[1].fields.get("sublayers")
            if subs is not None and subs[0] == "list":
                layers += [y for y in subs[1] if y[0] == "obj"]
            else:
                layers.append(x)
        want = {}
        for y in layers:
            if "interface" in y[1].fields:
                y[1].fields["interface"] = ("ext", "IF:" + y[1].cls.name, [])
                want[y[1].cls.name] = y[1].fields["interface"]
        bad, unfollowed = [], []
        askers = [("stack", ("obj", o))] + [("layer " + layers[-1][1].cls.name, layers[-1])] if layers else []
        for who, recv in askers:
            for c in members + [K[6]]:
                try:
                    r = it.method_call(recv, "getLayerInterface", [("cls", c)], {}, {"@module": st.module, "@owner": None}, 0, None)
                except _Raise as x:
                    bad.append("%s.getLayerInterface(%s) raises (%s)" % (who, c.name, str(getattr(x, "text", x))[:40]))
                    continue
                except (NeedAtom, Budget) as x:
                    unfollowed.append("%s.getLayerInterface(%s): %s" % (who, c.name, str(x)[:40]))
                    continue
                exp = want.get(c.name, C_NONE)
                if r != exp:
                    bad.append("%s.getLayerInterface(%s) gives %s, not %s" % (who, c.name, "None" if r == C_NONE else (r[1] if r[0] == "ext" else r[0]), "its interface" if exp != C_NONE else "None"))
        if unfollowed and not bad:
            ctx.undecided("C18.par", w, "interfaces found by class in the stack %s" % label, "the lookup could not be followed: " + "; ".join(unfollowed[:2]))
            continue
        ctx.check("C18.par", not bad and len(want) == len(members), w, "interfaces found by class in the stack %s" % label,
                  "; ".join(bad[:3]) + (" (+%d more)" % (len(bad) - 3) if len(bad) > 3 else ""), "every layer's interface found from the stack and from a layer, absent class -> None (%d lookups)" % (len(askers) * (len(members) + 1)))


def rule_stop(ctx):
    repo = ctx.repo
    from ..absint import Interp, Obj, _Raise, C_NONE, flat_effects
    base = repo.cls(LAYERS, "YowLayer")
    evc = repo.cls(LAYERS, "YowLayerEvent")
    # emitEvent / broadcastEvent, abstractly executed against a neighbour whose onEvent answers True / False, for a plain and
    # a detached event, and without a neighbour: propagation continues - exactly once - iff the neighbour exists and did not
    # consume the event; a detached event is first un-detached and then handed to the stack's deferred queue
    for name, nb in (("emitEvent", "__upper"), ("broadcastEvent", "__lower")):
        fn = repo.method(LAYERS, "YowLayer", name)
        w = where(LAYERS, "YowLayer." + name, fn.lineno)
        bad_guard, bad_det, problem = [], [], None
        for has_nb in (True, False):
            for consumed in ((True, False) if has_nb else (False,)):
                for detached in (False, True):
                    log = []
                    neighbour = ("obj", Obj(_stub_layer(repo, "Neighbour")))

                    def on_event(itp, recv, a, k, env, d, e, neighbour=neighbour, consumed=consumed, log=log):
                        if recv[0] == "obj" and recv[1] is neighbour[1]:
                            log.append(("asked", a[0] if a else None))
                            return ("c", consumed)
                        return None

                    def cont(itp, recv, a, k, env, d, e, neighbour=neighbour, log=log):
                        if recv[0] == "obj" and recv[1] is neighbour[1]:
                            flag = a[0][1].fields.get("detached") if a and a[0][0] == "obj" else None
                            log.append(("continued", a[0] if a else None, flag))
                            return C_NONE
                        return None
                    it = Interp(repo, {}, {}, hooks={"method:onEvent": on_event, "method:" + name: cont, "method:getStack": lambda itp, recv, a, k, env, d, e: ("ext", "stack", [])})
                    me = Obj(_stub_layer(repo, "Me"))
                    me.fields["_YowLayer" + nb] = neighbour if has_nb else C_NONE
                    me.fields["_YowLayer" + ("__lower" if nb == "__upper" else "__upper")] = C_NONE
                    ev = Obj(evc)
                    ev.fields.update({"name": ("c", "x"), "detached": ("c", detached), "args": ("dict", {})})
                    try:
                        it.call_function(fn, base, ("obj", me), [("obj", ev)], {}, depth=0)
                    except _Raise as r:
                        problem = "raises %s (neighbour=%s consumed=%s detached=%s)" % (r.text[:50], has_nb, consumed, detached)
                        continue
                    deferred = [e for e in flat_effects(it.effects) if e[0] == "CALL" and e[1] == "stack.execDetached"]
                    direct = [x for x in log if x[0] == "continued"]
                    want = has_nb and not consumed
                    case = "neighbour %s, %s, event %s" % ("present" if has_nb else "absent", "consumed" if consumed else "not consumed", "detached" if detached else "plain")
                    if not want:
                        if direct or deferred:
                            bad_guard.append(case + ": propagation continues")
                        continue
                    if has_nb and [x for x in log if x[0] == "asked"][:1] != [("asked", ("obj", ev))]:
                        bad_guard.append(case + ": the neighbour's onEvent is not asked with the event")
                    if not detached:
                        if len(direct) != 1 or deferred or direct[0][1] != ("obj", ev):
                            bad_guard.append(case + ": %d direct and %d deferred continuation(s)" % (len(direct), len(deferred)))
                        continue
                    if direct or len(deferred) != 1 or not deferred[0][2]:
                        bad_det.append(case + ": %d direct and %d deferred continuation(s)" % (len(direct), len(deferred)))
                        continue
                    cleared = ev.fields.get("detached") == ("c", False)
                    try:
                        it.apply(deferred[0][2][0], [], {}, {}, 0, None)
                    except _Raise as r:
                        bad_det.append(case + ": the deferred callback raises " + r.text[:40])
                        continue
                    later = [x for x in log if x[0] == "continued"]
                    if not (cleared and len(later) == 1 and later[0][1] == ("obj", ev) and later[0][2] == ("c", False)):
                        bad_det.append(case + ": flag cleared=%s, deferred callback continues %d time(s)" % (cleared, len(later)))
        if problem:
            ctx.undecided("C18.stop", w, fn, problem)
            continue
        ctx.check("C18.stop", not bad_guard, w, "continue iff neighbour and not neighbour.onEvent(ev)", "propagation must continue only when the neighbour exists and its onEvent returned a false value: " + "; ".join(bad_guard[:2]), "continue iff neighbour and not neighbour.onEvent(ev)")
        ctx.check("C18.stop", not bad_guard, w, "continuations inside the guard", "a continuation escapes the stop guard: " + "; ".join(bad_guard[:2]), "one continuation per path, all guarded")
        ctx.check("C18.stop", not bad_det, w, "detached hand-off in " + name,
                  "a detached event must clear its flag and be deferred through execDetached(lambda: neighbour.%s(ev)); otherwise continue directly: %s" % (name, "; ".join(bad_det[:2])), "flag cleared, deferred once, else direct")
    # onEvent dispatch returns the callback's result, False otherwise
    oe = repo.method(LAYERS, "YowLayer", "onEvent")
    rets = [n for n in ast.walk(oe) if isinstance(n, ast.Return)]
    okr = len(rets) == 2 and any(isinstance(r.value, ast.Call) for r in rets) and any(isinstance(r.value, ast.Constant) and r.value.value is False for r in rets)
    ctx.check("C18.stop", okr, where(LAYERS, "YowLayer.onEvent", oe.lineno), "onEvent result", "onEvent must return the callback's result and False when no callback is registered", "callback result / False")
    # execDetached / loop share one queue; loop gets without blocking and calls
    st = repo.cls(YS, "YowStack")
    ex, lp = repo.method(YS, "YowStack", "execDetached"), repo.method(YS, "YowStack", "loop")
    q1 = [unparse(c.func.value) for c in ast.walk(ex) if isinstance(c, ast.Call) and isinstance(c.func, ast.Attribute) and c.func.attr == "put"]
    q2 = [unparse(c.func.value) for c in ast.walk(lp) if isinstance(c, ast.Call) and isinstance(c.func, ast.Attribute) and c.func.attr == "get"]
    called = False
    for n in ast.walk(lp):
        if isinstance(n, ast.Assign) and isinstance(n.value, ast.Call) and isinstance(n.value.func, ast.Attribute) and n.value.func.attr == "get":
            v = n.targets[0].id
            called = any(isinstance(c, ast.Call) and isinstance(c.func, ast.Name) and c.func.id == v for c in ast.walk(lp))
    inloop = any(isinstance(n, ast.While) for n in ast.walk(lp))
    ctx.check("C18.stop", len(q1) == 1 and q1 == q2 and called and inloop, where(YS, "YowStack.loop", lp.lineno), "execDetached -> loop",
              "deferred callbacks must be put on and taken from the same queue and called by loop (put on %s, get from %s)" % (q1, q2), "same queue, drained and called in loop")
    # parallel onEvent consults its members in order and reports whether one consumed the event
    poe = repo.method(LAYERS, "YowParallelLayer", "onEvent")
    loops = [n for n in ast.walk(poe) if isinstance(n, ast.For) and unparse(n.iter) == "self.sublayers"]
    ok = len(loops) == 1 and any(isinstance(c, ast.Call) and isinstance(c.func, ast.Attribute) and c.func.attr == "onEvent" for c in ast.walk(loops[0])) \
        and all(not (isinstance(r.value, ast.Constant) and r.value.value is None) for r in ast.walk(poe) if isinstance(r, ast.Return)) \
        and any(isinstance(r, ast.Return) for r in ast.walk(poe))
    ctx.check("C18.stop", ok, where(LAYERS, "YowParallelLayer.onEvent", poe.lineno), "group onEvent",
              "the group must consult its members' onEvent in stack order and return whether one of them consumed the event", "members consulted in order, result returned")
    # ... decided by abstract execution over every vector of member answers (3 members): the group's answer is true
    # iff a consulted member consumed the event, members are consulted in stack order, and nobody is skipped unless a
    # member before it consumed the event
    import itertools
    from ..absint import Interp, Obj, _Raise, C_NONE
    par = repo.cls(LAYERS, "YowParallelLayer")
    base = repo.cls(LAYERS, "YowLayer")
    bad = []
    nvec = 0
    for vec in itertools.product((False, True), repeat=3):
        consulted = []
        it = Interp(repo, {}, {}, hooks={})
        members = [("obj", Obj(base)) for _ in vec]
        grp = ("obj", Obj(par))
        grp[1].fields["sublayers"] = ("list", list(members))

        def on_event(itp, recv, a, k, env, d, e, members=members, vec=vec, consulted=consulted):
            for i, mb in enumerate(members):
                if recv[1] is mb[1]:
                    consulted.append(i)
                    return ("c", vec[i])
            return None
        it.hooks["method:onEvent"] = on_event
        ev = Obj(repo.cls(LAYERS, "YowLayerEvent"))
        ev.fields.update({"name": ("c", "ev"), "detached": ("c", False), "args": ("dict", {})})
        try:
            r = it.call_function(poe, par, grp, [("obj", ev)], {}, depth=0)
        except _Raise as ex:
            bad.append("answers %s: raises %s" % (list(vec), ex.text[:50]))
            continue
        except Exception as ex:
            bad.append("answers %s: not decided (%s)" % (list(vec), type(ex).__name__))
            continue
        nvec += 1
        if r[0] != "c":
            bad.append("answers %s: the group's answer is not a definite value (%s)" % (list(vec), r[0]))
            continue
        want = any(vec[i] for i in consulted)
        if bool(r[1]) != want:
            bad.append("member answers %s: the group answers %r although %s" % (list(vec), r[1], "member %d consumed the event" % [i for i in consulted if vec[i]][0] if want else "no member consumed it"))
        if consulted != sorted(consulted) or len(set(consulted)) != len(consulted):
            bad.append("member answers %s: members consulted in order %s" % (list(vec), consulted))
        first_true = min([i for i in range(3) if vec[i]], default=3)
        missing = [i for i in range(3) if i not in consulted and i <= first_true]
        if missing:
            bad.append("member answers %s: member %s never sees the event" % (list(vec), missing))
    ctx.check("C18.stop", not bad and nvec == 8, where(LAYERS, "YowParallelLayer.onEvent", poe.lineno), "group onEvent over all member answer vectors",
              "; ".join(bad[:2]) + ": a consumed event keeps propagating past the group (or a member is skipped)", "8 answer vectors: consumed iff a consulted member consumed it")


def rule_fresh_assembly(ctx):
    """two assemblies through the default helpers share no layer object: getDefaultLayers() builds parallel-group
    INSTANCES (with their member instances inside), so what it returns must be built anew on every call - executed twice
    with the same arguments (and through getDefaultStack twice), no object of the first result may be in the second"""
    from ..absint import Interp, _Raise, NeedAtom, Budget, DomainGrew
    repo = ctx.repo
    sb = repo.cls(YS, "YowStackBuilder")
    hooks = {"ext:*.isclass": lambda itp, recv, a, k, env, d, e: ("c", bool(a) and a[0][0] == "cls"), "ext:*.randint": lambda itp, recv, a, k, env, d, e: ("c", 0)}

    def objects(v, seen, out):
        v = it.force(v)
        if id(v) in seen:
            return
        seen.add(id(v))
        if v[0] == "obj":
            if id(v[1]) in out:
                return
            out[id(v[1])] = v[1]
            for f in list(v[1].fields.values()):
                if isinstance(f, tuple):
                    objects(f, seen, out)
        elif v[0] == "list":
            for x in v[1]:
                objects(x, seen, out)
        elif v[0] == "dict":
            for x in v[1].values():
                if isinstance(x, tuple):
                    objects(x, seen, out)
    for helper in ("getDefaultLayers", "getDefaultStack"):
        fn = repo.method(YS, "YowStackBuilder", helper, required=False)
        if fn is None:
            continue
        w = where(YS, "YowStackBuilder." + helper, fn.lineno)
        it = Interp(repo, {}, {}, hooks=hooks)
        it.max_steps = max(getattr(it, "max_steps", 0), 3000000)
        try:
            r1 = it.apply(("clsmethod", sb, helper), [], {}, {"@module": sb.module}, 0, None)
            r2 = it.apply(("clsmethod", sb, helper), [], {}, {"@module": sb.module}, 0, None)
        except (_Raise, NeedAtom, Budget, DomainGrew) as x:
            ctx.undecided("C18.state", w, "%s() twice" % helper, "could not be executed: %s" % (getattr(x, "text", x),))
            continue
        o1, o2 = {}, {}
        objects(r1, set(), o1)
        objects(r2, set(), o2)
        layer_base = repo.cls(LAYERS, "YowLayer")
        shared = [o for i, o in o1.items() if i in o2 and o.cls is not None and (layer_base in repo.mro(o.cls) or o.cls.name == "YowStack")]
        n1 = len([o for o in o1.values() if o.cls is not None and layer_base in repo.mro(o.cls)])
        ctx.check("C18.state", not shared and n1 > 0, w, "%s() twice: no layer object in both results" % helper,
                  "the second assembly is handed the very same %s object(s) as the first (%d shared): wiring the second stack re-targets them, and the first stack's upper part then sends, broadcasts and reads properties through the other stack" % (
                      sorted({o.cls.name for o in shared})[:3], len(shared)) if shared else "no layer instance found in the result",
                  "%d layer instance(s) per call, none shared" % n1)


def rule_par(ctx):
    """the group's constructor and setStack by abstract execution on three stub member classes: members instantiated in
    the given order, each member's four ways out (toLower, toUpper, broadcastEvent, emitEvent) bound to the group's own
    toLower / toUpper / subBroadcastEvent / subEmitEvent, and the stack handed to every member.  Interface lookup is
    decided by rule_iface.  The reading of the constructor's shape (rule_par_structural) is the fallback."""
    from ..absint import Interp, _Raise, NeedAtom, Budget, DomainGrew
    repo = ctx.repo
    init = repo.method(LAYERS, "YowParallelLayer", "__init__")
    w = where(LAYERS, "YowParallelLayer.__init__", init.lineno)
    par = repo.cls(LAYERS, "YowParallelLayer")
    K = [_stub_layer(repo, "Stub" + n) for n in "ABC"]
    try:
        it = Interp(repo, {}, {})
        g = it.construct(par, [("list", [("cls", k) for k in K], False, "tuple")], {}, {"@module": par.module, "@owner": None}, 0, None)
        subs = g[1].fields.get("sublayers")
        members = it.iterate(it.force(subs)) if subs is not None else None
    except (_Raise, NeedAtom, Budget, DomainGrew):
        members = None
    if members is None or not all(m[0] == "obj" and m[1].cls is not None for m in members):
        return rule_par_structural(ctx)
    ctx.check("C18.par", [m[1].cls for m in members] == K, w, "sublayers instantiated in order",
              "sublayer classes must be instantiated in the given order (got %s)" % [m[1].cls.name for m in members], "instantiated in order")
    want = {"toLower": "toLower", "toUpper": "toUpper", "broadcastEvent": "subBroadcastEvent", "emitEvent": "subEmitEvent"}
    for k, v in want.items():
        got = []
        for m in members:
            f = m[1].fields.get(k)
            ok = f is not None and f[0] == "bound" and f[1][0] == "obj" and f[1][1] is g[1] and f[2] == v
            got.append(ok)
        ctx.check("C18.par", all(got) and len(got) == 3, w, "member.%s -> group.%s" % (k, v),
                  "every sublayer's %s must be replaced by the group's %s (member(s) %s keep their own or get something else)" % (k, v, [K[i].name for i, x in enumerate(got) if not x]), "substituted on all three members")
    ss = repo.method(LAYERS, "YowParallelLayer", "setStack")
    STACK = ("ext", "STACK", [])
    try:
        it.method_call(g, "setStack", [STACK], {}, {"@module": par.module, "@owner": par}, 0, None)
        seen = []
        for m in [g] + list(members):
            seen.append(it.method_call(m, "getStack", [], {}, {"@module": par.module, "@owner": par}, 0, None) == STACK)
    except (_Raise, NeedAtom, Budget, DomainGrew):
        seen = None
    if seen is None:
        ctx.undecided("C18.par", where(LAYERS, "YowParallelLayer.setStack", ss.lineno), "setStack reaches sublayers", "setStack / getStack could not be executed")
    else:
        ctx.check("C18.par", all(seen), where(LAYERS, "YowParallelLayer.setStack", ss.lineno), "setStack reaches sublayers",
                  "sublayers must receive the stack (props, interfaces): getStack() afterwards gives the stack for %s of group + 3 members" % seen.count(True), "group and all three members answer getStack() with the stack")


def rule_par_structural(ctx):
    repo = ctx.repo
    init = repo.method(LAYERS, "YowParallelLayer", "__init__")
    w = where(LAYERS, "YowParallelLayer.__init__", init.lineno)
    subst = {}
    for n in ast.walk(init):
        if isinstance(n, ast.For):
            for s in n.body:
                if isinstance(s, ast.Assign) and isinstance(s.targets[0], ast.Attribute) and isinstance(s.targets[0].value, ast.Name) and s.targets[0].value.id == n.target.id:
                    subst[s.targets[0].attr] = unparse(s.value)
    want = {"toLower": "self.toLower", "toUpper": "self.toUpper", "broadcastEvent": "self.subBroadcastEvent", "emitEvent": "self.subEmitEvent"}
    for k, v in want.items():
        ctx.check("C18.par", subst.get(k) == v, w, "s.%s = %s" % (k, subst.get(k)), "every sublayer's %s must be replaced by the group's %s" % (k, v), "substituted")
    inst = any(isinstance(n, ast.Assign) and unparse(n.targets[0]) == "self.sublayers" and "sublayer()" in unparse(n.value) for n in ast.walk(init))
    ctx.check("C18.par", inst, w, "sublayers instantiated in order", "sublayer classes must be instantiated in the given order", "instantiated in order")
    gi = repo.method(LAYERS, "YowParallelLayer", "getLayerInterface")
    ok = any(isinstance(n, ast.Compare) and "__class__" in unparse(n.left) for n in ast.walk(gi)) and any(isinstance(n, ast.Return) for n in ast.walk(gi))
    ctx.check("C18.par", ok, where(LAYERS, "YowParallelLayer.getLayerInterface", gi.lineno), "group finds interfaces by class", "interface lookup inside a group must compare the sublayer's class", "by class")
    sgi = repo.method(YS, "YowStack", "getLayerInterface")
    src = unparse(sgi)
    ok = "YowParallelLayer" in src and "getLayerInterface(YowLayerClass)" in src.replace(" ", "").replace("inst.", "") or ("YowParallelLayer" in src and "getLayerInterface" in src)
    ctx.check("C18.par", ok, where(YS, "YowStack.getLayerInterface", sgi.lineno), "stack descends into groups", "the stack's interface lookup must descend into parallel groups", "descends into groups")
    # setStack propagates to sublayers
    ss = repo.method(LAYERS, "YowParallelLayer", "setStack")
    ok = any(isinstance(n, ast.For) and any(isinstance(c, ast.Call) and isinstance(c.func, ast.Attribute) and c.func.attr == "setStack" for c in ast.walk(n)) for n in ast.walk(ss))
    ctx.check("C18.par", ok, where(LAYERS, "YowParallelLayer.setStack", ss.lineno), "setStack reaches sublayers", "sublayers must receive the stack (props, interfaces)", "propagated")


def run(ctx):
    ctx.rule("C18.bind", "calls among the stack and builder helpers bind", floor=25)
    ctx.rule("C18.flags", "16 default compositions and 32 default-stack combinations", floor=36)
    ctx.rule("C18.wire", "wiring order and entry points", floor=9)
    ctx.rule("C18.mirror", "emit/broadcast siblings mirror each other", floor=4)
    ctx.rule("C18.stop", "stop-on-true, detached deferral, loop", floor=10)
    ctx.rule("C18.par", "group method substitution and interface lookup", floor=6)
    ctx.rule("C18.prim", "getProp / setProp / execDetached semantics by abstract execution", floor=4)
    ctx.rule("C18.state", "event-callback tables (every attribute a layer mutates in place) are bound per instance to a fresh object", floor=1)
    ctx.guarded("C18.bind", rule_bind, ctx)
    ctx.guarded("C18.composition", rule_composition, ctx, "C18.flags")
    ctx.guarded("C18.flags", rule_flags, ctx)
    ctx.guarded("C18.wire", rule_wire, ctx)
    ctx.guarded("C18.mirror", rule_mirror, ctx)
    ctx.guarded("C18.par", rule_iface, ctx)
    ctx.guarded("C18.stop", rule_stop, ctx)
    ctx.guarded("C18.par", rule_par, ctx)
    ctx.guarded("C18.state", rule_state, ctx)
    ctx.guarded("C18.state", rule_fresh_assembly, ctx)
    ctx.guarded("C18.prim", rule_prim, ctx, "C18.prim")
    ctx.guarded("C18.stop", rule_callbacks, ctx, "C18.stop")
    # data handed to toLower reaches the layer below: nothing else may hold the (non re-entrant) layer lock (C12.order), adopted
    from .c12_order import rule_layer_lock
    ctx.guarded("C18.wire", rule_layer_lock, ctx, "C18.wire")
