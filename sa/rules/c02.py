"""C02 - wire-format conformance (structural clauses).

C02.spec     control-byte vocabulary, length widths and packing alphabets equal the format table
             transcribed independently in reference/format.json
C02.alts     the decoder has an accepting branch for every alternative form the format permits
C02.type     what the decoder passes as node content is bytes on every content branch
C02.dictref  both token lists equal the reference copy entry by entry
C02.flags    frame flag constants
C02.enc      (C01.int + C01.class read as conformance) declared lengths fit and equal the form the encoder chose
C02.unpack   (C01.unpack) packed-string reader per kind and header byte
"""
import ast
import json
import os

from ..calls import Resolver
from ..consts import Evaluator, K, UNK, alts, eval_simple_function, RAISES
from ..report import where, VERIF, Ctx
from ..repo import unparse, is_self_attr, params_of
from ..types import expr_types
from . import c01

ENC, DEC, TOK = c01.ENC, c01.DEC, c01.TOK


def load_ref(name):
    with open(os.path.join(VERIF, "reference", name)) as fh:
        return json.load(fh)


def rule_spec(ctx, fmt):
    # reuse C01's table extraction on a scratch context (its verdicts belong to C01)
    scratch = Ctx(ctx.repo, "C01", ctx.tier)
    for r in ("C01.tags", "C01.int", "C01.class", "C01.pack", "C01.dbl"):
        scratch.rule(r, "", 0)
    c01.rule_tags(scratch)
    enc_tab = scratch.units.get("C01.encoder_control_bytes", {})
    T = fmt["tags"]
    LB = fmt["length_bits"]
    w = where(ENC, "WriteEncoder", None)

    def bits_ok(name, got):
        want = LB[name]
        return got in want if isinstance(want, list) else got == want
    want_list = {str(T["LIST_EMPTY"]): None, str(T["LIST_8"]): "LIST_8", str(T["LIST_16"]): "LIST_16"}
    got = enc_tab.get("list", {})
    ok = set(got) == set(want_list) and all((n is None and got[k] is None) or (n and bits_ok(n, got[k])) for k, n in want_list.items())
    ctx.check("C02.spec", ok, w, "list headers %s" % got, "list headers must be LIST_EMPTY 0, LIST_8 248 (+8 bit), LIST_16 249 (+16 bit); encoder emits %s" % got, "list headers match the format")
    want_b = {str(T["BINARY_8"]): "BINARY_8", str(T["BINARY_20"]): "BINARY_20", str(T["BINARY_32"]): "BINARY_32"}
    got = enc_tab.get("bytes", {})
    ok = set(got) == set(want_b) and all(bits_ok(n, got[k]) for k, n in want_b.items())
    ctx.check("C02.spec", ok, w, "binary forms %s" % got, "binary forms must be 252 (+8), 253 (+20), 254 (+31/32 bit); encoder emits %s" % got, "binary forms match the format")
    want_p = {str(T["HEX_8"]): "HEX_8", str(T["NIBBLE_8"]): "NIBBLE_8"}
    got = enc_tab.get("packed", {})
    ok = set(got) == set(want_p) and all(bits_ok(n, got[k]) for k, n in want_p.items())
    ctx.check("C02.spec", ok, w, "packed forms %s" % got, "packed forms must be HEX_8 251 and NIBBLE_8 255 with an 8-bit header; encoder emits %s" % got, "packed forms match the format")
    got = enc_tab.get("jid", {})
    ctx.check("C02.spec", set(got) == {str(T["JID_PAIR"])}, w, "jid pair %s" % got, "JID pair must be introduced by 250; encoder emits %s" % sorted(got), "JID_PAIR 250")
    # packing alphabets
    enc = ctx.repo.cls(ENC, "WriteEncoder")
    dec = ctx.repo.cls(DEC, "ReadDecoder")
    pb = ctx.repo.method(ENC, "WriteEncoder", "packByte")
    ub = ctx.repo.method(DEC, "ReadDecoder", "unpackByte")
    for name, kind in (("NIBBLE_8", T["NIBBLE_8"]), ("HEX_8", T["HEX_8"])):
        alpha = fmt["alphabets"][name]
        want = {ord(c): i for i, c in enumerate(alpha)}
        got_p, got_u = {}, {}
        for n in range(256):
            r = eval_simple_function(ctx.repo, enc, pb, [K(kind), K(n)])
            a = alts(r) if r is not RAISES else None
            if a is not None and a[0] != -1:
                got_p[n] = a[0]
        for v in range(16):
            r = eval_simple_function(ctx.repo, dec, ub, [K(kind), K(v)])
            a = alts(r) if r is not RAISES else None
            if a is not None:
                got_u[a[0]] = v
        ctx.check("C02.spec", got_p == want, where(ENC, "WriteEncoder.packByte", pb.lineno), "%s alphabet (encoder)" % name,
                  "%s must map %r to 0..%d in that order; encoder maps %s" % (name, alpha, len(alpha) - 1, {chr(k): v for k, v in sorted(got_p.items())}), "encoder alphabet is %r" % alpha)
        ctx.check("C02.spec", got_u == want, where(DEC, "ReadDecoder.unpackByte", ub.lineno), "%s alphabet (decoder)" % name,
                  "%s must map 0..%d back to %r; decoder maps %s" % (name, len(alpha) - 1, alpha, {chr(k): v for k, v in sorted(got_u.items()) if 0 <= k < 256}), "decoder alphabet is %r" % alpha)
    # double byte token prefixes: the format says index i of the secondary dictionary goes out as
    # (DICTIONARY_<i // 256>, i % 256); writeString is abstractly executed for every index (see C01.dbl)
    ws = ctx.repo.method(ENC, "WriteEncoder", "writeString")
    wsw = where(ENC, "WriteEncoder.writeString", ws.lineno)
    n = c01.secondary_size(ctx)
    dd = [T["DICTIONARY_%d" % i] for i in range(4)]
    bad, unknown = [], None
    for i in range(n or 0):
        r = c01.dbl_encode(ctx.repo, enc, ws, i)
        if r[0] == "unknown":
            unknown = "index %d: %s" % (i, r[1])
            break
        want = [dd[i // 256], i % 256] if i // 256 < 4 else None
        if r[0] == "raise":
            if want is not None:
                bad.append("index %d refused" % i)
        elif r[1] != want:
            bad.append("index %d written as %s, the format says %s" % (i, r[1], want))
    if n is None or unknown:
        ctx.undecided("C02.spec", wsw, ws, "double-byte tokens could not be evaluated: %s" % (unknown or "secondary dictionary size"))
    else:
        ctx.check("C02.spec", not bad, wsw, "secondary dictionary prefixes (all %d indices)" % n,
                  "secondary-dictionary tokens must be written as (236 + index // 256, index %% 256): " + "; ".join(bad[:3]), "prefixes 236..239, offset = index % 256")


def jid_result(repo, dec, rs, jk, user, server):
    from ..absint import Interp, Obj, _Raise, Budget, NeedAtom
    seq = [user, server]

    def inner(it, fn, owner, self_val, args, kwargs):
        if not state["entered"]:
            state["entered"] = True
            return None
        v = seq[state["n"]] if state["n"] < len(seq) else "?"
        state["n"] += 1
        return ("c", v)
    state = {"entered": False, "n": 0}
    it = Interp(repo, {}, {}, hooks={"fn:" + rs.name: inner})
    o = Obj(dec)
    o.fields["tokenDictionary"] = ("ext", "tokdict", [])
    try:
        v = it.call_function(rs, dec, ("obj", o), [("c", jk), ("ext", "data", [])], {}, depth=0)
    except _Raise as r:
        return ("raise", r.text[:40])
    except (NeedAtom, Budget) as x:
        return ("unknown", str(x)[:40])
    return ("ret", v[1]) if v[0] == "c" else ("unknown", str(v)[:40])


def rule_alts(ctx, fmt):
    """every alternative form the format permits is accepted by the decoder - by semantic dispatch: the decoder's
    functions are abstractly executed once per control byte (sa/bytedispatch.py), so if-chains, tables and helpers agree"""
    from ..bytedispatch import Dispatch
    dec = ctx.repo.cls(DEC, "ReadDecoder")
    T = fmt["tags"]
    # list sizes
    rls = ctx.repo.method(DEC, "ReadDecoder", "readListSize")
    ld = Dispatch(ctx.repo, dec, rls, params_of(rls)[0])
    wl = where(DEC, "ReadDecoder.readListSize", rls.lineno)
    for name in ("LIST_EMPTY", "LIST_8", "LIST_16"):
        k = T[name]
        b = ld.run_value(k)
        ok = b.accepts
        ctx.check("C02.alts", ok, wl, "%s (%d)" % (name, k),
                  "a peer may encode a list as %s (%d) but readListSize has no accepting branch" % (name, k), "accepted")
        if ok and name != "LIST_EMPTY":
            rN = b.first_int()
            want = fmt["length_bits"][name]
            ctx.check("C02.alts", rN == want, wl, "%s size width" % name,
                      "%s carries a %d-bit size, decoder reads %s bits" % (name, want, rN), "%d-bit size" % want)
    rs = ctx.repo.method(DEC, "ReadDecoder", "readString")
    svar = params_of(rs)[0]
    sd = Dispatch(ctx.repo, dec, rs, svar)
    covered = {k for k in range(256) if sd.run_value(k).accepts}
    # content alternatives in nextTreeInternal
    _dec, nti, nd = content_dispatch(ctx)
    w = where(DEC, "ReadDecoder.nextTreeInternal", nti.lineno)
    if nd is None:
        ctx.undecided("C02.alts", w, nti, "content dispatch variable not found")
    else:
        def to_string(b):
            return b.accepts and all(c.names[:1] == ["readString"] for c in b.cells if c.outcome == "ret")
        generic = any(to_string(nd.run_value(k)) for k in range(256))
        for name in ("LIST_EMPTY", "LIST_8", "LIST_16", "BINARY_8", "BINARY_20", "BINARY_32", "HEX_8", "NIBBLE_8"):
            k = T[name]
            b = nd.run_value(k)
            ok = b.accepts
            if name.startswith("LIST"):
                # children lists must reach readList through the list branch
                ok = ok and b.count("readList") >= 1
            elif to_string(b):
                ok = k in covered
            ctx.check("C02.alts", ok, w, "content form %s (%d)" % (name, k), "node content encoded as %s (%d) has no accepting branch" % (name, k), "accepted")
            if b.accepts and not to_string(b) and name in fmt["length_bits"] and name.startswith("BINARY"):
                rN = b.first_int()
                want = fmt["length_bits"][name]
                okw = rN in want if isinstance(want, list) else rN == want
                ctx.check("C02.alts", okw, w, "content %s length width" % name,
                          "%s carries a %s-bit length, decoder reads %s bits" % (name, want, rN), "%s-bit length" % rN)
        ctx.check("C02.alts", generic, w, "string-valued content (token / JID)", "content given as a token or JID string is not handed to readString", "token/JID content handled by readString")
    # string alternatives in readString
    wr = where(DEC, "ReadDecoder.readString", rs.lineno)
    lo, hi = fmt["single_byte_tokens"]
    ctx.check("C02.alts", set(range(lo, hi + 1)) <= covered, wr, "single-byte tokens %d..%d" % (lo, hi),
              "tokens %s are not accepted by readString" % sorted(set(range(lo, hi + 1)) - covered)[:8], "accepted")
    for name in ("DICTIONARY_0", "DICTIONARY_1", "DICTIONARY_2", "DICTIONARY_3", "JID_PAIR", "HEX_8", "NIBBLE_8", "BINARY_8", "BINARY_20", "BINARY_32"):
        k = T[name]
        ctx.check("C02.alts", k in covered, wr, "string form %s (%d)" % (name, k), "a string encoded as %s (%d) is not accepted by readString" % (name, k), "accepted")
    for name in ("BINARY_8", "BINARY_20", "BINARY_32"):
        k = T[name]
        b = sd.run_value(k)
        if b.accepts:
            rN = b.first_int()
            want = fmt["length_bits"][name]
            okw = rN in want if isinstance(want, list) else rN == want
            ctx.check("C02.alts", okw, wr, "string %s length width" % name,
                      "%s carries a %s-bit length, decoder reads %s bits" % (name, want, rN), "%s-bit length" % rN)
    # JID without user part: server only.  The JID branch is abstractly executed with the two inner strings read
    # as (absent, "s") and ("u", "s"): it must return "s" and "u@s"
    jk = T["JID_PAIR"]
    if jk in covered:
        got = {}
        for user in (None, "u"):
            got[user] = jid_result(ctx.repo, dec, rs, jk, user, "s")
        ctx.check("C02.alts", got[None] == ("ret", "s") and got["u"] == ("ret", "u@s"), wr, "JID with / without user part",
                  "a JID pair must decode to user@server, or to the server alone when the user part is absent; got %s and %s" % (got["u"], got[None]), "both JID forms accepted")
    # frame flags
    rule_frames(ctx)


def _mentions_call(t, name):
    """the abstract value contains the result of a call of `name`"""
    if isinstance(t, tuple):
        if len(t) >= 2 and t[0] in ("fn", "ext") and isinstance(t[1], str) and t[1].rstrip("()").split(".")[-1] == name:
            return True
        return any(_mentions_call(y, name) for y in t if isinstance(y, (tuple, list)))
    if isinstance(t, list):
        return any(_mentions_call(y, name) for y in t)
    return False


def rule_frames(ctx):
    """frame flags, by abstract execution of getProtocolTreeNode on ONE decoder object: a plain frame, two deflated
    frames in a row, a segmented frame.  A deflated frame is inflated (one decompress call fed the whole rest of the
    frame, its result is what gets parsed); each deflated frame is its own zlib stream, so a streaming inflater object
    must not live longer than one frame; a segmented frame is refused."""
    from ..absint import Interp, _Raise, NeedAtom, Budget, DomainGrew, enumerate_cells
    repo = ctx.repo
    dec = repo.cls(DEC, "ReadDecoder")
    td = repo.cls(TOK, "TokenDictionary")
    gp = repo.method(DEC, "ReadDecoder", "getProtocolTreeNode")
    wg = where(DEC, "ReadDecoder.getProtocolTreeNode", gp.lineno)
    ev = Evaluator(repo, td.module, td)
    flags = {}
    for name in ("FLAG_DEFLATE", "FLAG_SEGMENTED"):
        k, e = repo.class_const(td, name)
        a = alts(ev.ev(e)) if e is not None else None
        flags[name] = a[0] if a and len(a) == 1 else None
    if None in flags.values():
        ctx.undecided("C02.alts", wg, "frame flags", "flag constants not found")
        return
    body = b"\t\t\t"
    script = [("plain", 0), ("deflated #1", flags["FLAG_DEFLATE"]), ("deflated #2", flags["FLAG_DEFLATE"]), ("segmented", flags["FLAG_SEGMENTED"])]

    def run(cell, domains):
        parsed = []

        def nti(it, fn, owner, self_val, args, kwargs):
            parsed.append(args[0] if args else None)
            return ("ext", "node", [])
        it = Interp(repo, cell, domains, hooks={"fn:nextTreeInternal": nti})
        o = it.construct(dec, [("cls", td)], {}, {"@module": dec.module, "@owner": None}, 0, None)
        out = []
        for label, flag in script:
            n0, p0 = len(it.effects), len(parsed)
            try:
                it.call_function(gp, dec, o, [("c", bytearray(bytes([flag]) + body))], {}, depth=0)
                out.append((label, "ret", list(it.effects[n0:]), parsed[p0:]))
            except _Raise as r:
                out.append((label, "raise", r.text, []))
        return out, it
    try:
        cells = enumerate_cells(run, {}, max_cells=64)
    except (Budget, NeedAtom, DomainGrew) as x:
        ctx.undecided("C02.alts", wg, "frame flags", "getProtocolTreeNode could not be executed: %s" % (x,))
        return
    bad = {"plain": [], "deflate": [], "complete": [], "fresh": [], "segmented": []}
    for cell, out in cells:
        inflaters = []
        for label, kind, eff, parsed in out:
            calls = [e for e in eff if e[0] == "CALL" and e[1].split(".")[-1] in ("decompress", "inflate")] if kind == "ret" else []
            if label == "plain":
                if kind != "ret" or len(parsed) != 1 or calls:
                    bad["plain"].append("a frame without flags %s" % ("raises %s" % eff[:50] if kind == "raise" else "is %s" % ("inflated" if calls else "parsed %d times" % len(parsed))))
                elif parsed[0] not in (("c", bytearray(body)), ("c", body)):
                    bad["plain"].append("a frame without flags is parsed from %s, not from the bytes after the flag byte" % str(parsed[0])[:50])
            elif label.startswith("deflated"):
                if kind != "ret":
                    bad["deflate"].append("a frame with the deflate flag raises %s" % eff[:50])
                    continue
                if len(calls) != 1 or len(parsed) != 1:
                    bad["deflate"].append("a frame with the deflate flag set is %s before parsing" % ("not inflated" if not calls else "inflated %d times" % len(calls)))
                    continue
                c = calls[0]
                if not c[2] or c[2][0] not in (("c", body), ("c", bytearray(body))):
                    bad["deflate"].append("the inflater is fed %s, not the whole frame after the flag byte" % (str(c[2][0])[:40] if c[2] else "nothing"))
                if len(c[2]) > 1:
                    bad["complete"].append("the inflater is given an output limit (%s): a stanza that inflates to more is silently truncated" % str(c[2][1])[:30])
                if not _mentions_call(parsed[0], c[1].split(".")[-1]):
                    bad["deflate"].append("what is parsed (%s) is not the inflated data" % str(parsed[0])[:60])
                inflaters.append(c[3])
            elif label == "segmented":
                if kind != "raise":
                    bad["segmented"].append("a segmented frame is parsed as a whole stanza")
        if len(inflaters) == 2 and inflaters[0] is inflaters[1] and (inflaters[0][0] == "fn" or inflaters[0][1].endswith(")")):
            bad["fresh"].append("both deflated frames go through the same streaming object %s: every deflated frame is a zlib stream of its own, after the first one ends the object yields nothing (or garbage) for the next" % inflaters[0][1])
    ctx.check("C02.alts", not bad["plain"], wg, "plain frame", "; ".join(sorted(set(bad["plain"]))[:2]), "parsed from the bytes after the flag byte")
    ctx.check("C02.alts", not bad["deflate"], wg, "deflated frame", "; ".join(sorted(set(bad["deflate"]))[:2]), "inflated once, the inflated data is parsed")
    ctx.check("C02.alts", not bad["complete"], wg, "deflated frame inflated completely", "; ".join(sorted(set(bad["complete"]))[:2]), "whole stanza inflated")
    ctx.check("C02.alts", not bad["fresh"], wg, "deflated frames are independent streams", "; ".join(sorted(set(bad["fresh"]))[:1]), "no inflater state survives a frame")
    ctx.check("C02.alts", not bad["segmented"], wg, "segmented frame", "a segmented frame must be refused, not parsed as a whole stanza", "refused")


def content_dispatch(ctx):
    """semantic dispatch of nextTreeInternal on the content token (the local handed to isListTag)"""
    from ..bytedispatch import Dispatch
    dec = ctx.repo.cls(DEC, "ReadDecoder")
    nti = ctx.repo.method(DEC, "ReadDecoder", "nextTreeInternal")
    cvar = None
    for n in ast.walk(nti):
        if isinstance(n, ast.Call) and is_self_attr(n.func, "isListTag") and n.args and isinstance(n.args[0], ast.Name):
            cvar = n.args[0].id
    if cvar is None:
        return dec, nti, None
    try:
        return dec, nti, Dispatch(ctx.repo, dec, nti, cvar)
    except LookupError:
        return dec, nti, None


def abstract_types(repo, dec, v, res, depth=0):
    """definite Python type(s) of an abstract value the decoder computed; 'unknown' never produces a violation"""
    from ..types import return_types, BUILTIN_RET
    if not isinstance(v, tuple) or not v:
        return {"unknown"}
    if v[0] == "c":
        return {"None"} if v[1] is None else {type(v[1]).__name__}
    if v[0] == "list":
        return {"list"}
    if v[0] == "dict":
        return {"dict"}
    if v[0] in ("fn", "ext"):
        name = v[1]
        if name in (".encode()", "encode"):
            return {"bytes"}
        if name in (".decode()", "decode", ".join()", "join", ".format()", "format"):
            return {"str"}
        if name in BUILTIN_RET:
            return {BUILTIN_RET[name]}
        if name.endswith("()") and depth < 3:
            k, m = repo.find_method(dec, name[:-2].lstrip("."))
            if m is not None:
                return return_types(repo, k, m, res, 1)
    return {"unknown"}


def rule_type(ctx):
    """what reaches ProtocolTreeNode as content is bytes for every content token - decided per token value by abstract
    execution of nextTreeInternal (the same dispatch C02.alts uses), so if-chains, reader tables and early returns agree"""
    dec, nti, nd = content_dispatch(ctx)
    res = Resolver(ctx.repo)
    w = where(DEC, "ReadDecoder.nextTreeInternal", nti.lineno)
    if nd is None:
        ctx.undecided("C02.type", w, nti, "content dispatch variable not found")
        return
    # one obligation per content form of the format (not per branch of the code)
    forms = {252: "BINARY_8 (252)", 253: "BINARY_20 (253)", 254: "BINARY_32 (254)", 251: "HEX_8 (251)", 255: "NIBBLE_8 (255)"}
    groups = {}
    for k in range(256):
        b = nd.run_value(k)
        for c in b.cells:
            if c.outcome != "ret":
                continue
            v = c.value
            label = forms.get(k, "token / JID strings")
            if not (isinstance(v, tuple) and v[0] == "node"):
                groups.setdefault(label, []).append((k, {"unknown"}))
                continue
            if "readList" in c.names:
                continue        # children, no data
            groups.setdefault(label, []).append((k, abstract_types(ctx.repo, dec, v[1].data, res)))
    for label, items in sorted(groups.items()):
        ts = set().union(*[t for _k, t in items])
        bad = sorted(ts - {"bytes", "None", "unknown"})
        if ts == {"unknown"}:
            ctx.undecided("C02.type", w, "content form " + label, "type of the node content could not be determined")
            continue
        ctx.check("C02.type", not bad, w, "content form " + label,
                  "node content has type %s; ProtocolTreeNode requires bytes (a valid frame using this content form raises AssertionError)" % "/".join(bad),
                  "content type %s (%d token value%s)" % ("/".join(sorted(ts)), len(items), "" if len(items) == 1 else "s"))


def rule_dictref(ctx):
    ref = load_ref("tokens.json")
    lists = c01.dictionary_lists(ctx)
    for name in ("dictionary", "secondaryDictionary"):
        cur, want = lists.get(name), ref[name]
        w = where(TOK, "TokenDictionary.__init__", None)
        if cur is None:
            ctx.undecided("C02.dictref", w, name, "token list is not a literal list of strings")
            continue
        diffs = [(i, a, b) for i, (a, b) in enumerate(zip(cur, want)) if a != b]
        ok = len(cur) == len(want) and not diffs
        msg = "length %d vs reference %d" % (len(cur), len(want)) if len(cur) != len(want) else \
            "%d entr%s differ, first: index %d is %r, reference has %r" % (len(diffs), "y" if len(diffs) == 1 else "ies", diffs[0][0], diffs[0][1], diffs[0][2]) if diffs else ""
        ctx.check("C02.dictref", ok, w, "%s (%d entries)" % (name, len(cur)), "token table differs from the reference copy: " + msg, "equals the reference copy entry by entry")
        dup = sorted({t for t in cur if cur.count(t) > 1})
        ctx.check("C02.dictref", not dup, w, "%s duplicates" % name, "duplicate tokens %s" % dup[:5], "no duplicates")


def rule_flags(ctx, fmt):
    td = ctx.repo.cls(TOK, "TokenDictionary")
    ev = Evaluator(ctx.repo, td.module, td)
    for name, want in fmt["flags"].items():
        k, e = ctx.repo.class_const(td, name)
        a = alts(ev.ev(e)) if e is not None else None
        ctx.check("C02.flags", a == [want], where(TOK, "TokenDictionary", getattr(e, "lineno", None)), "%s = %s" % (name, a[0] if a else "?"),
                  "%s must be %d" % (name, want), "%s == %d" % (name, want))


def rule_codec(ctx):
    """the length-form and packed-string obligations of C01, read as conformance clauses: the frame the encoder emits
    declares the true length in the form it chose (C02.enc), and the reader of packed strings yields the format's
    alphabet for every header byte (C02.unpack; the alphabets themselves are compared with the format table by C02.spec)"""
    scratch = Ctx(ctx.repo, "C01", ctx.tier)
    for r in ("C01.tags", "C01.int", "C01.class", "C01.pack", "C01.dbl", "C01.unpack", "C01.count", "C01.str", "C01.node", "C01.layer"):
        scratch.rule(r, "", 0)
    widths = c01.rule_int(scratch)
    c01.rule_class(scratch, widths)
    c01.rule_tags(scratch)
    tables = c01.rule_pack(scratch)
    if tables:
        c01.rule_unpack(scratch, tables)
    c01.rule_count(scratch)
    for fn_ in (c01.rule_str, c01.rule_node, c01.rule_layer):
        ctx.guarded("C02.enc", fn_, scratch)
    # the token tables are only as good as the two lookups over them: both executed for every word (C01.dict)
    scratch.rule("C01.dict", "", 0)
    lists = c01.dictionary_lists(scratch)
    if lists.get("dictionary") and lists.get("secondaryDictionary"):
        ctx.guarded("C02.dictref", c01.rule_dict_lookup, scratch, lists["dictionary"], lists["secondaryDictionary"])
    ctx.adopt(scratch, {"C01.dict": "C02.dictref", "C01.int": "C02.enc", "C01.class": "C02.enc", "C01.count": "C02.enc", "C01.str": "C02.enc", "C01.node": "C02.enc", "C01.layer": "C02.enc", "C01.unpack": "C02.unpack"})


def run(ctx):
    ctx.rule("C02.sent", "stanzas built by the library's own entities are well-formed for the codec (C09.codec adopted)", floor=40)
    ctx.rule("C02.enc", "integer writers are exact and every size-class branch declares a length that fits the form it writes", floor=13)
    ctx.rule("C02.unpack", "packed strings: reader abstractly executed per (kind, header byte) yields the format's alphabet", floor=6)
    ctx.rule("C02.spec", "encoder/decoder vocabulary equals the independently transcribed format table", floor=9)
    ctx.rule("C02.alts", "decoder accepts every alternative form the format permits", floor=29)
    ctx.rule("C02.type", "decoder passes bytes as node content on every content branch", floor=4)
    ctx.rule("C02.dictref", "token tables equal the reference copy", floor=4)
    ctx.rule("C02.flags", "frame flag constants", floor=2)
    ctx.assume("reference/tokens.json is WhatsApp's dictionary (the pinned upstream table; no second source offline)")
    ctx.assume("reference/format.json transcribes the published format description")
    fmt = load_ref("format.json")
    ctx.guarded("C02.spec", rule_spec, ctx, fmt)
    ctx.guarded("C02.alts", rule_alts, ctx, fmt)
    ctx.guarded("C02.type", rule_type, ctx)
    ctx.guarded("C02.dictref", rule_dictref, ctx)
    ctx.guarded("C02.flags", rule_flags, ctx, fmt)
    ctx.guarded("C02.codec", rule_codec, ctx)
    # the stanzas the library itself builds are well-formed for the codec (C09.codec), adopted
    from . import c09
    ctx.adopt_from("C09", [(c09.rule_codec_sent_only, (ctx.repo,))], {"C09.codec": "C02.sent", "C09.ret": "C02.sent"})
