"""C12.order / C12.block - lock order over the resolved default stack.

Locks: one `lock` per layer instance (taken in toLower, held while the lower layer's send runs), the noise layer's
`_flush_lock` (held while decrypted frames are delivered upward), the iq layer's `_pingQueueLock`.
Edges held -> acquired are derived from what can run inside each critical section:
  lock(i)     -> lock(j) for j below i   (send of the lower layer may call its own toLower)
  _flush_lock -> lock(j) for every j     (upward delivery runs handlers, which send)
A cycle, or a chain that re-acquires a lock it holds, needs code inside a critical section that goes the other way:
a `send` path that delivers upward (toUpper / receive), or code under a layer lock that takes `_flush_lock`, or a call
made while `_pingQueueLock` is held.  The rule checks exactly those three facts on the class-level call graph.
"""
import ast

from ..cfg import CFG, walk_no_nested
from ..deps import node_exprs
from ..report import where
from ..repo import unparse, is_self_attr
from ..stackmodel import default_layers, flatten, FLAGS

LAYERS = "yowsup/layers/__init__.py"
UP_CALLS = ("toUpper", "receive", "_flush_incoming_buffer")


def emitted_events(repo, net, cb):
    """abstract execution of the network layer's callback `cb` from every (state, connected) pair
    -> [(event name, detached?, [starting states])] or None when the execution cannot be followed"""
    from ..absint import Interp, _Raise, flat_effects, NeedAtom, Budget, DomainGrew
    from ..consts import Evaluator, alts
    from ..layers import LayerRunner
    ev = Evaluator(repo, net.module, net)
    states = []
    for n in sorted(net.consts):
        if n.startswith("STATE_"):
            a = alts(ev.class_const(net, n))
            if a and len(a) == 1:
                states.append(a[0])
    if not states:
        return None
    found = {}
    for st in states:
        for connected in (True, False):
            runner = LayerRunner(repo)
            it = Interp(repo, {}, {}, hooks=runner.hooks())
            it.layer_base = runner.base
            it.pure_depth = 0
            layer = runner.make_layer(it, net)
            layer[1].fields["state"] = ("c", st)
            layer[1].fields["connected"] = ("c", connected)
            layer[1].fields["_dispatcher"] = ("ext", "dispatcher", [])
            it.effects[:] = []
            try:
                it.method_call(layer, cb, [], {}, {"@module": net.module, "@owner": net}, 0, None)
            except _Raise:
                pass
            except (NeedAtom, Budget, DomainGrew):
                return None
            for e in flat_effects(it.effects):
                if e[0] in ("EMIT", "BCAST"):
                    v = e[1]
                    if v[0] != "obj":
                        return None
                    name = v[1].fields.get("name")
                    det = v[1].fields.get("detached")
                    if name is None or name[0] != "c" or det is None or det[0] != "c":
                        return None
                    key = (name[1], bool(det[1]))
                    found.setdefault(key, []).append((st, connected))
    return [(k[0], k[1], v) for k, v in sorted(found.items())]


def reach_self_calls(repo, cls, start, limit=60):
    """methods of cls (incl. inherited) reachable from `start` through self.m() calls (callbacks passed as
    arguments are not synchronous calls and are not followed)"""
    seen, todo = {}, [start]
    while todo and len(seen) < limit:
        name = todo.pop()
        if name in seen:
            continue
        k, fn = repo.find_method(cls, name)
        if fn is None:
            continue
        seen[name] = (k, fn)
        for n in ast.walk(fn):
            if isinstance(n, ast.Call) and is_self_attr(n.func) and n.func.attr not in seen:
                todo.append(n.func.attr)
    return seen


def ping_section_exec(repo, iq, name):
    """abstract execution of the iq layer's `name`(id) twice on one layer object -> (acquisitions of the ping lock,
    effects seen while it was held, times held at the end) or None when the execution cannot be followed"""
    from ..absint import Interp, _Raise, flat_effects, NeedAtom, Budget, DomainGrew
    from ..layers import LayerRunner
    runner = LayerRunner(repo)
    it = Interp(repo, {}, {}, hooks=runner.hooks())
    it.layer_base = runner.base
    try:
        layer = runner.make_layer(it, iq)
        lk = layer[1].fields.get("_pingQueueLock")
        if lk is None or lk[0] != "ext":
            return None
        it.effects[:] = []
        for ident in ("ping-1", "ping-2"):
            try:
                it.method_call(layer, name, [("c", ident)], {}, {"@module": iq.module, "@owner": iq}, 0, None)
            except _Raise:
                pass
    except (NeedAtom, Budget, DomainGrew):
        return None
    held, taken, bad = 0, 0, []

    def is_lock(v):
        return isinstance(v, tuple) and v[:2] == lk[:2] and v[2] is lk[2]
    for e in flat_effects(it.effects):
        if e[0] == "CALL" and len(e) > 3 and is_lock(e[3]):
            if e[1].endswith((".acquire", ".__enter__")):
                held += 1
                taken += 1
            elif e[1].endswith((".release", ".__exit__")):
                held -= 1
            continue
        if e[0] in ("ENTER", "EXIT") and is_lock(e[1]):
            held += 1 if e[0] == "ENTER" else -1
            taken += 1 if e[0] == "ENTER" else 0
            continue
        if held > 0 and e[0] in ("CALL", "UP", "DOWN", "EMIT", "BCAST", "ENTER"):
            if e[0] == "CALL" and ("logger" in e[1] or ".debug" in e[1] or ".info" in e[1]):
                continue
            bad.append("%s %s" % (e[0], e[1] if isinstance(e[1], str) else ""))
    return taken, bad, held


def _enclosing_method(mod, node):
    """(class name, method name) whose body contains `node` (by position), or None"""
    for c in mod.classes.values():
        for name, fn in c.methods.items():
            if fn.lineno <= node.lineno <= (fn.end_lineno or fn.lineno) and any(n is node for n in ast.walk(fn)):
                return (c.name, name)
    return None


def rule_layer_lock(ctx, rule):
    repo = ctx.repo
    # the per-layer lock belongs to toLower: it is not re-entrant, so a layer method that takes it and then sends (every
    # send goes through toLower of the same layer) blocks on itself, with the lock held for ever after
    base_l = repo.cls(LAYERS, "YowLayer")
    n_lock = 0
    # a helper of the base class that only toLower uses (a lock-holding context manager around the hand-over, an
    # acquire/release pair split into helpers) is part of toLower: C11.hoh executes toLower through it and judges the
    # critical section there.  "Only toLower": no other call or reference to the name anywhere in the package.
    part_of_tolower = {"toLower"}
    wanted = set()
    for hname in base_l.methods:
        wanted.add(hname)
        if hname.startswith("_YowLayer__"):
            wanted.add(hname[len("_YowLayer"):])
    index = {}
    for m2 in repo.modules.values():
        hits = [n2 for n2 in ast.walk(m2.tree) if (isinstance(n2, ast.Attribute) and n2.attr in wanted) or
                (isinstance(n2, ast.Constant) and isinstance(n2.value, str) and n2.value in wanted)]
        for n2 in hits:
            if isinstance(n2, ast.Attribute):
                index.setdefault(n2.attr, set()).add((m2.relpath, _enclosing_method(m2, n2)))
            else:
                index.setdefault(n2.value, set()).add((m2.relpath, "<string>"))
    grew = True
    while grew:
        grew = False
        for hname in base_l.methods:
            if hname in part_of_tolower or hname.startswith("__") and hname.endswith("__"):
                continue
            mangled = hname[len("_YowLayer"):] if hname.startswith("_YowLayer__") else hname
            users = index.get(hname, set()) | index.get(mangled, set())
            if users and all(u[0] == LAYERS and u[1] in [("YowLayer", p_) for p_ in part_of_tolower] for u in users):
                part_of_tolower.add(hname)
                grew = True
    for m in sorted(repo.modules.values(), key=lambda m: m.relpath):
        if "/demos/" in m.relpath:
            continue
        for c in m.classes.values():
            if base_l not in repo.mro(c):
                continue
            for name, fn in sorted(c.methods.items()):
                if c is base_l and name in part_of_tolower:
                    continue
                uses = [x for x in ast.walk(fn) if (isinstance(x, ast.With) and any(unparse(i.context_expr) == "self.lock" for i in x.items)) or
                        (isinstance(x, ast.Call) and isinstance(x.func, ast.Attribute) and x.func.attr == "acquire" and unparse(x.func.value) == "self.lock")]
                for u in uses:
                    n_lock += 1
                    inner = u.body if isinstance(u, ast.With) else fn.body
                    sends = [unparse(y.func) for st_ in inner for y in ast.walk(st_) if isinstance(y, ast.Call) and is_self_attr(y.func) and y.func.attr not in ("lock",)]
                    ctx.violate(rule, where(m.relpath, "%s.%s" % (c.name, name), u.lineno), "self.lock taken in %s.%s" % (c.name, name),
                                "the layer's own lock is taken outside toLower%s: the lock is not re-entrant, anything under it that sends goes through toLower of the same layer and blocks on itself - the lock stays held and every later send through this layer hangs" % (" (calls %s)" % ", ".join(sends[:3]) if sends else ""))
    ctx.hold(rule, where(LAYERS, "YowLayer.toLower", None), "the layer lock is only taken by toLower", "no other layer method takes self.lock (%d found)" % n_lock) if not n_lock else None


def rule_reent(ctx, rule="C12.reent"):
    """a non-reentrant lock is not re-acquired by the thread that holds it through a callback: when a method holds
    `self.L` and, inside the critical section, calls into an external object that was handed one of the class's own
    bound methods as a callback, that callback may run synchronously on the same thread; if it reaches (through self
    calls) a method that acquires `self.L` again, the thread blocks on itself with the lock held for ever - unless L is
    an RLock or the acquiring method first returns when the current thread is the holder."""
    repo = ctx.repo
    n_sections = 0
    for m in sorted(repo.modules.values(), key=lambda m: m.relpath):
        if "/demos/" in m.relpath:
            continue
        for c in m.classes.values():
            # callbacks handed to external objects: self.X = Ext(..., cb=self.m, ...) or self.X.register(self.m)
            cbs = {}      # attribute X -> set of method names
            rlocks = set()
            for fn in c.methods.values():
                for n in ast.walk(fn):
                    if isinstance(n, ast.Assign) and isinstance(n.value, ast.Call):
                        for t in n.targets:
                            if isinstance(t, ast.Attribute) and isinstance(t.value, ast.Name) and t.value.id == "self":
                                if unparse(n.value.func).endswith("RLock"):
                                    rlocks.add(t.attr)
                                for a in list(n.value.args) + [k.value for k in n.value.keywords]:
                                    for x in ast.walk(a):
                                        if is_self_attr(x) and repo.find_method(c, x.attr)[1] is not None:
                                            cbs.setdefault(t.attr, set()).add(x.attr)
                    if isinstance(n, ast.Call) and isinstance(n.func, ast.Attribute) and isinstance(n.func.value, ast.Attribute) and is_self_attr(n.func.value):
                        for a in list(n.args) + [k.value for k in n.keywords]:
                            if is_self_attr(a) and repo.find_method(c, a.attr)[1] is not None:
                                cbs.setdefault(n.func.value.attr, set()).add(a.attr)
            for name, fn in sorted(c.methods.items()):
                g = None
                acquires = []
                for n in ast.walk(fn):
                    if isinstance(n, ast.Call) and isinstance(n.func, ast.Attribute) and n.func.attr == "acquire" and is_self_attr(n.func.value):
                        acquires.append((n.func.value.attr, n, None))
                    if isinstance(n, ast.With):
                        for i in n.items:
                            if is_self_attr(i.context_expr) and ("lock" in i.context_expr.attr.lower()):
                                acquires.append((i.context_expr.attr, n, n.body))
                for L, node, body in acquires:
                    if L in rlocks:
                        continue
                    n_sections += 1
                    repo.consulted.add(m.relpath)
                    # statements of the critical section
                    if body is None:
                        g = g or CFG(fn)
                        acq = [x for x in g.live if x.kind == "stmt" and any(y is node for e in node_exprs(x) for y in ast.walk(e))]
                        rel = [x for x in g.live if x.kind == "stmt" and unparse(x.stmt) == "self.%s.release()" % L]
                        inside = [x for x in (g.reachable_from(acq[0], avoid=rel) if acq else []) if x is not (acq[0] if acq else None)]
                        exprs = [e for x in inside for e in node_exprs(x)]
                    else:
                        exprs = [st for st in body]
                    w = where(m.relpath, "%s.%s" % (c.name, name), node.lineno)
                    bad = []
                    for e in exprs:
                        for x in (walk_no_nested(e) if not isinstance(e, ast.stmt) else ast.walk(e)):
                            if isinstance(x, ast.Call) and isinstance(x.func, ast.Attribute) and isinstance(x.func.value, ast.Attribute) and is_self_attr(x.func.value) \
                                    and x.func.value.attr in cbs:
                                for cb in sorted(cbs[x.func.value.attr]):
                                    for rname, (k, rfn) in reach_self_calls(repo, c, cb).items():
                                        again = [y for y in ast.walk(rfn) if (isinstance(y, ast.Call) and isinstance(y.func, ast.Attribute) and y.func.attr == "acquire" and is_self_attr(y.func.value, L))
                                                 or (isinstance(y, ast.With) and any(is_self_attr(i.context_expr, L) for i in y.items))]
                                        if again:
                                            # the candidate (a may-path over the call graph) is decided by executing it:
                                            # the holder's method runs on an object built by the class's constructor,
                                            # the external call answers by invoking the callback on the same thread
                                            verdict = confirm_reentry(repo, c, name, L, x.func.value.attr, x.func.attr, cb)
                                            if verdict is None:
                                                verdict = "safe" if same_thread_guard(rfn, again[0]) else "deadlock"
                                            if verdict == "deadlock":
                                                bad.append("%s() may call back %s, which reaches %s, which takes self.%s again" % (unparse(x.func), cb, rname, L))
                    ctx.check(rule, not bad, w, "critical section of self.%s in %s.%s" % (L, c.name, name),
                              "the lock is not re-entrant and is re-acquired on the same thread through a callback: %s - the thread blocks on itself and the lock is never released" % "; ".join(sorted(set(bad))[:2]),
                              "no callback path re-acquires the lock (or the holder is recognised first)")
    ctx.units["C12.critical_sections"] = n_sections


def confirm_reentry(repo, c, holder, L, X, f, cb):
    """abstract execution of `holder` on an object of class c (built by its constructor) where the call self.X.f(...)
    answers by calling back self.cb(...) synchronously, one thread throughout (its identity a constant).
    -> 'deadlock' when in some path class a blocking acquisition of self.L happens while self.L is held,
       'safe' when every path class was executed and none does, None when the scenario could not be executed"""
    from ..absint import Interp, Obj, _Raise, _Return, NeedAtom, Budget, DomainGrew, C_NONE, enumerate_cells, flat_effects
    from ..layers import LayerRunner
    kk, cbfn = repo.find_method(c, cb)
    if cbfn is None:
        return None
    ncb = len([a for a in cbfn.args.args][1:]) - len(cbfn.args.defaults)

    def run(cell, domains):
        runner = LayerRunner(repo, {})
        hk = runner.hooks()

        def current_thread(itp, recv, a, k, env, d, e):
            t = Obj(None)
            t.fields["ident"] = ("c", 4242)
            t.fields["name"] = ("c", "T")
            return ("obj", t)
        hk["ext:*.current_thread"] = current_thread
        hk["ext:*.currentThread"] = current_thread
        hk["ext:*.get_ident"] = lambda itp, recv, a, k, env, d, e: ("c", 4242)
        state = {"fired": False, "layer": None, "target": None}

        def react(itp, recv, a, k, env, d, e):
            if state["fired"] or state["layer"] is None or recv is not state["target"]:
                return None
            state["fired"] = True
            itp.emit("CALL", "<callback %s>" % cb, [])
            itp.method_call(state["layer"], cb, [("ext", "cbarg%d" % i, []) for i in range(max(ncb, 0))], {}, {"@module": c.module, "@owner": c}, d + 1, None)
            return None
        hk["ext:*." + f] = react
        it = Interp(repo, cell, domains, hooks=hk)
        it.layer_base = runner.base
        layer = runner.make_layer(it, c) if runner.base in repo.mro(c) else it.construct(c, [], {}, {"@module": c.module, "@owner": None}, 0, None)
        state["layer"] = layer
        state["target"] = layer[1].fields.get(X)
        lock = layer[1].fields.get(L)
        it.effects[:] = []
        km, m = repo.find_method(c, holder)
        args = [("ext", "arg%d" % i, []) for i in range(len(m.args.args) - 1 - len(m.args.defaults))]
        raised = None
        try:
            it.call_function(m, km, layer, args, {}, depth=0)
        except _Raise as r:
            raised = r.text
        held = 0
        blocked = False
        for e in flat_effects(it.effects):
            is_lock = None
            if e[0] == "CALL" and len(e) > 3 and lock is not None and e[3] is lock:
                if e[1].endswith(".acquire"):
                    is_lock = "try" if (e[2] and e[2][0] == ("c", False)) or len(e[2]) > 1 else "acq"
                elif e[1].endswith(".release"):
                    is_lock = "rel"
            elif e[0] == "ENTER" and e[1] is lock:
                is_lock = "acq"
            elif e[0] == "EXIT" and e[1] is lock:
                is_lock = "rel"
            if is_lock == "acq":
                if held > 0:
                    blocked = True
                held += 1
            elif is_lock == "try":
                held += 1          # (a failed try is compensated by the interpreter with a release record)
            elif is_lock == "rel":
                held -= 1
        return {"fired": state["fired"], "blocked": blocked, "lock": lock is not None and state["target"] is not None, "raised": raised}, it
    try:
        cells = enumerate_cells(run, {}, max_cells=256)
    except (Budget, NeedAtom, DomainGrew, RecursionError):
        return None
    except Exception:
        return None
    if not cells or not all(r["lock"] for _c, r in cells):
        return None
    if any(r["blocked"] for _c, r in cells):
        return "deadlock"
    if not any(r["fired"] for _c, r in cells):
        return None            # the external call was never reached in the execution: nothing was decided
    return "safe"


def same_thread_guard(fn, acquire_node):
    """an `if <mentions the current thread> : return` placed before the acquisition"""
    for st in fn.body:
        if getattr(st, "lineno", 0) >= getattr(acquire_node, "lineno", 0):
            break
        if isinstance(st, ast.If) and any(isinstance(x, ast.Return) for x in st.body) and \
                any(isinstance(x, ast.Attribute) and x.attr in ("current_thread", "get_ident", "currentThread") or isinstance(x, ast.Name) and x.id in ("current_thread", "get_ident") for x in ast.walk(st.test)):
            return True
    return False


def run(ctx):
    repo = ctx.repo
    ctx.rule("C12.reent", "no non-reentrant lock is re-acquired by its holder through a callback handed to an external object", floor=3)
    ctx.guarded("C12.reent", rule_reent, ctx)
    ctx.rule("C12.order", "no downward path delivers upward; no layer-lock holder takes the flush lock; nothing is called under the ping lock", floor=20)
    ctx.rule("C12.block", "blocking get() only on queues that are reset per attempt", floor=1)
    v, se = default_layers(repo, dict.fromkeys(FLAGS, True))
    layers = flatten(v)
    if layers is None:
        ctx.undecided("C12.order", where("yowsup/stacks/yowstack.py", "YowStackBuilder.getDefaultLayers", None), "default stack", "not evaluated")
        return
    flat = []
    for L in layers:
        flat += L if isinstance(L, list) else [L]
    par = repo.cls(LAYERS, "YowParallelLayer")
    flat.append(par)
    for c in flat:
        repo.consulted.add(c.relpath)
        w = where(c.relpath, c.name + ".send", None)
        reach = reach_self_calls(repo, c, "send")
        ups = []
        for name, (k, fn) in reach.items():
            for n in ast.walk(fn):
                if isinstance(n, ast.Call) and is_self_attr(n.func) and n.func.attr in ("toUpper", "_flush_incoming_buffer"):
                    ups.append("%s.%s -> %s" % (k.name, name, n.func.attr))
                if isinstance(n, ast.Call) and isinstance(n.func, ast.Attribute) and n.func.attr == "acquire" and "_flush_lock" in unparse(n.func.value):
                    ups.append("%s.%s takes _flush_lock" % (k.name, name))
        ctx.check("C12.order", not ups, w, "%s.send never delivers upward" % c.name,
                  "while the upper layer's lock is held (toLower), %s: a handler that answers would re-acquire that lock on the same thread and block forever" % "; ".join(ups[:3]),
                  "%d method(s) reachable from send, none delivers upward or takes the flush lock" % len(reach))
    # events raised from inside a send: a dispatcher whose sendData can report a failure synchronously (it calls
    # connectionCallbacks.X() from code reachable from sendData) runs the network layer's callback X while every upper
    # layer's lock is held by the sending thread; an event emitted there must be detached (deferred to the stack loop),
    # otherwise the upper layers' handlers - which reconnect or send - run under those locks and never come back
    net = repo.cls("yowsup/layers/network/layer.py", "YowNetworkLayer")
    sync_cbs = {}
    for m in repo.modules.values():
        if not m.relpath.startswith("yowsup/layers/network/dispatcher/"):
            continue
        for dc in m.classes.values():
            if "sendData" not in dc.methods:
                continue
            for name, (k, fn) in reach_self_calls(repo, dc, "sendData").items():
                for n in ast.walk(fn):
                    if isinstance(n, ast.Call) and isinstance(n.func, ast.Attribute) and isinstance(n.func.value, ast.Attribute) and n.func.value.attr == "connectionCallbacks":
                        sync_cbs.setdefault(n.func.attr, "%s.%s" % (dc.name, name))
    n_emit = 0
    for cb, via in sorted(sync_cbs.items()):
        ex = emitted_events(repo, net, cb)
        if ex is not None:
            # decided by executing the callback from every (state, connected) pair: each event it raises is looked at as
            # the object it is at the moment it is raised, however it was put together
            for (evname, detached, states) in ex:
                n_emit += 1
                ctx.check("C12.order", detached, where(net.relpath, "YowNetworkLayer." + cb, None), "event %s raised by %s" % (evname, cb),
                          "this event can be raised from inside a send (%s reports %s synchronously) while every upper layer's lock is held, and it is not detached: the handlers above (reconnect, send) run under those locks - the failed send never returns and every other sender blocks" % (via, cb),
                          "detached: delivered by the stack loop, not under the sender's locks (%d starting states)" % len(states))
            continue
        for name, (k, fn) in reach_self_calls(repo, net, cb).items():
            for n in ast.walk(fn):
                if isinstance(n, ast.Call) and is_self_attr(n.func) and n.func.attr in ("emitEvent", "broadcastEvent") and n.args:
                    ev = n.args[0]
                    det = isinstance(ev, ast.Call) and any(kw.arg == "detached" and isinstance(kw.value, ast.Constant) and kw.value.value is True for kw in ev.keywords)
                    n_emit += 1
                    ctx.check("C12.order", det, where(net.relpath, "YowNetworkLayer." + name, n.lineno), n,
                              "this event can be raised from inside a send (%s reports %s synchronously) while every upper layer's lock is held, and it is not detached: the handlers above (reconnect, send) run under those locks - the failed send never returns and every other sender blocks" % (via, cb),
                              "detached: delivered by the stack loop, not under the sender's locks")
    ctx.units["C12.sync_callbacks"] = sorted(sync_cbs)
    rule_layer_lock(ctx, "C12.order")
    # the ping lock guards plain dictionary operations only
    iq = repo.cls("yowsup/layers/protocol_iq/layer.py", "YowIqProtocolLayer")
    for name in ("gotPong", "waitPong"):
        fn = iq.methods.get(name)
        if fn is None:
            continue
        ex = ping_section_exec(repo, iq, name)
        if ex is not None:
            # decided by executing the method (twice in a row, with one ping already waiting the second time): every
            # effect observed between taking and releasing the ping lock is looked at, wherever the lock is taken
            taken, bad, end = ex
            ctx.check("C12.order", taken > 0 and not bad and end == 0, where(iq.relpath, "YowIqProtocolLayer." + name, fn.lineno), "critical section of _pingQueueLock in " + name,
                      ("the ping queue is touched without the ping lock" if not taken else
                       "the ping lock is still held %s time(s) when %s returns" % (end, name) if end and not bad else
                       "a call (%s) is made while the ping lock is held: it can raise or wait with the lock held" % ", ".join(bad[:2])),
                      "only dictionary operations under the ping lock (%d acquisition(s) executed)" % taken)
            continue
        g = CFG(fn)
        acq = [n for n in g.live if n.kind == "stmt" and unparse(n.stmt) == "self._pingQueueLock.acquire()"] + [n for n in g.live if n.kind == "with_enter" and "_pingQueueLock" in unparse(n.stmt.items[0].context_expr)]
        rel = [n for n in g.live if n.kind == "stmt" and unparse(n.stmt) == "self._pingQueueLock.release()"] + [n for n in g.live if n.kind == "with_exit" and "_pingQueueLock" in unparse(n.stmt.items[0].context_expr)]
        bad = []
        if acq:
            inside = g.reachable_from(acq[0], avoid=rel)
            for n in inside:
                if n is acq[0]:
                    continue
                for e in node_exprs(n):
                    for x in walk_no_nested(e):
                        if isinstance(x, ast.Call) and (is_self_attr(x.func) or (isinstance(x.func, ast.Attribute) and "getStack" in unparse(x.func))):
                            bad.append(unparse(x)[:50])
        ctx.check("C12.order", bool(acq) and not bad, where(iq.relpath, "YowIqProtocolLayer." + name, fn.lineno), "critical section of _pingQueueLock in " + name,
                  "a call (%s) is made while the ping lock is held: it can raise or wait with the lock held" % ", ".join(bad[:2]), "only dictionary operations under the ping lock")
    # blocking get without timeout
    gets = []
    for m in repo.modules.values():
        if "/demos/" in m.relpath or "stacks/" in m.relpath:
            continue
        for c in m.classes.values():
            for fname, fn in c.methods.items():
                for n in ast.walk(fn):
                    if isinstance(n, ast.Call) and isinstance(n.func, ast.Attribute) and n.func.attr == "get" and any(k.arg == "block" and unparse(k.value) == "True" for k in n.keywords) \
                            and not any(k.arg == "timeout" for k in n.keywords):
                        gets.append((m.relpath, c.name, fname, n))
    for rel, cn, fname, n in gets:
        # shares the finding with C04.attempt: the queue is created once and never reset on disconnect
        ctx.note("blocking get without timeout at %s %s.%s (%s) - covered by known finding C04.attempt" % (rel, cn, fname, unparse(n.func.value)))
    ctx.hold("C12.block", where("yowsup/layers/noise/layer.py", "YowNoiseLayer._handle_stream_event", None), "blocking queue reads: %d" % len(gets), "the only blocking read is the handshake segment queue (see C04.attempt)")
