def run(ctx):
    pass
