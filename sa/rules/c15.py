"""C15 - media encryption: encrypt/decrypt symmetry.

C15.kdf    both directions derive the same number of bytes and slice iv/key/mac-key identically
C15.pad    padding on every encrypt path and unpadding on every decrypt path (same block size)
C15.mac    MAC over iv||ciphertext in both, truncated to the length decrypt splits off
C15.first  the MAC comparison (and its raise) dominates every use of the decryptor
C15.kinds  four distinct info constants, encrypt_K and decrypt_K use the same one
"""
import ast

from ..cfg import CFG, fmt_path
from ..consts import Evaluator, alts
from ..report import where
from ..repo import params_of
from ..terms import PathEval, all_path_results, show, subterms

FILE = "yowsup/layers/protocol_media/mediacipher.py"
CLS = "MediaCipher"


def cint(t):
    if isinstance(t, tuple) and t[0] == "const" and isinstance(t[1], int) and not isinstance(t[1], bool):
        return t[1]
    return None


def interval(t, derived):
    """byte interval [lo,hi) of `derived` that term t denotes, or None"""
    if not isinstance(t, tuple):
        return None
    if t[0] == "slice" and t[1] == derived and t[4] == ("const", None):
        lo = 0 if t[2] == ("const", None) else cint(t[2])
        hi = cint(t[3])
        if lo is not None and hi is not None:
            return (lo, hi)
    if t[0] == "sub" and isinstance(t[1], tuple) and t[1][0] == "call" and t[1][1] == "split":
        args = t[1][3]
        i = cint(t[2])
        if args and args[0] == derived and i is not None:
            lens = [cint(a) for a in args[1:]]
            if None not in lens and 0 <= i < len(lens):
                return (sum(lens[:i]), sum(lens[:i + 1]))
    return None


def find_events(r, func):
    return [e for e in r["events"] if e["func"] == func]


def analyse_direction(ctx, name):
    repo = ctx.repo
    cls = repo.cls(FILE, CLS)
    fn = repo.method(FILE, CLS, name)
    # simple private helpers (key derivation, tag computation) are inlined: the facts below are about the whole direction
    from ..repo import inline_private_calls
    from ..normalize import guarded_returns_to_ifexp
    def straight_line(name):
        # a helper with branches or loops around the key derivation (a cache, a retry) is judged on its own paths by
        # helper_derivation below, not flattened into the caller
        k_, h_ = repo.find_method(cls, name)
        derives = h_ is not None and any(isinstance(c, ast.Call) and isinstance(c.func, ast.Attribute) and c.func.attr == "deriveSecrets" for c in ast.walk(h_))
        return h_ is not None and not (derives and any(isinstance(x, (ast.If, ast.For, ast.While, ast.Try)) for x in ast.walk(h_)))
    fn = inline_private_calls(repo, cls, fn, only=straight_line, helper_transform=guarded_returns_to_ifexp)
    ev = Evaluator(repo, cls.module, cls)
    g = CFG(fn)
    pe = PathEval(fn, ev)
    res = [r for r in all_path_results(g, pe) if r["terminal"] == "exit"]
    return cls, fn, g, res


def subst(t, m):
    """substitute ('param', p) by m[p] in term t"""
    if isinstance(t, tuple):
        if len(t) == 2 and t[0] == "param" and t[1] in m:
            return m[t[1]]
        return tuple(subst(x, m) for x in t)
    return t


def params_in(t):
    return {x[1] for x in subterms(t) if isinstance(x, tuple) and len(x) == 2 and x[0] == "param"}


def helper_derivation(ctx, call_event):
    """the caller obtains its derived bytes from `self.<helper>(args)`: evaluate the helper's paths.
    -> ('ok', deriveSecrets args in the caller's terms) | ('bad', reason) | None (not a derivation helper)"""
    repo = ctx.repo
    cls = repo.cls(FILE, CLS)
    k, hfn = repo.find_method(cls, call_event["func"])
    if hfn is None or call_event["recv"] != ("name", "self") and call_event["recv_var"] != "self":
        return None
    if not any(isinstance(c, ast.Call) and isinstance(c.func, ast.Attribute) and c.func.attr == "deriveSecrets" for c in ast.walk(hfn)):
        return None
    hp = params_of(hfn)
    if len(hp) != len(call_event["args"]) or call_event["kwargs"]:
        return ("bad", "helper %s is not called with one positional argument per parameter" % hfn.name)
    m = dict(zip(hp, call_event["args"]))
    pe = PathEval(hfn, Evaluator(repo, cls.module, cls))
    hres = [r for r in all_path_results(CFG(hfn), pe) if r["terminal"] == "exit"]
    fresh_args = set()
    cached = []
    stores = []
    for r in hres:
        d = find_events(r, "deriveSecrets")
        for (base, tgt, val) in r["env"].get("@store", []):
            stores.append((base, tgt, val))
        if r["ret"] is None:
            return ("bad", "helper %s has a path without a return value" % hfn.name)
        if len(d) == 1 and d[0]["result"] in subterms(r["ret"]) and r["ret"] == d[0]["result"]:
            fresh_args.add(d[0]["args"])
        elif not d:
            cached.append(r["ret"])
        else:
            return ("bad", "helper %s returns something other than the derived bytes on some path" % hfn.name)
    if len(fresh_args) != 1:
        return ("bad", "helper %s derives with differing arguments on different paths" % hfn.name)
    fa = next(iter(fresh_args))
    need = params_in(("tuple",) + tuple(fa))
    for ret in cached:
        # a value read back from instance / class state: it must have been stored under a key that determines it
        reads = [x for x in subterms(ret) if isinstance(x, tuple) and x[0] in ("call", "sub") and any(isinstance(y, tuple) and (y[0] in ("self", "attr", "name") or (y[0] == "const" and isinstance(y[1], (dict, list)))) for y in subterms((x[2] or ("unk", "")) if x[0] == "call" else x[1]))]
        if not reads:
            return ("bad", "helper %s returns %s, which is not the derived material" % (hfn.name, show(ret)[:60]))
        rd = reads[0]
        key_t = (rd[3][0] if rd[3] else None) if rd[0] == "call" else rd[2]
        have = params_in(key_t) if key_t is not None else set()
        st_ok = [1 for (base, tgt, val) in stores if need <= {n.id for n in ast.walk(tgt.slice) if isinstance(n, ast.Name)}]
        if not need <= have or (stores and len(st_ok) != len(stores)):
            miss = sorted(need - have) or sorted(need)
            return ("bad", "derived keys are cached under a key that does not include %s, which they depend on: a later call with a different %s (another media kind) is handed the wrong iv / cipher key / mac key" % (", ".join(miss), ", ".join(miss)))
    return ("ok", tuple(subst(a, m) for a in fa))


def kdf_facts(r, ctx=None):
    d = find_events(r, "deriveSecrets")
    if len(d) != 1:
        if d or ctx is None:
            return None
        hs = [(e, helper_derivation(ctx, e)) for e in r["events"] if e["recv_var"] == "self"]
        hs = [(e, h) for e, h in hs if h is not None]
        if len(hs) != 1:
            return None
        e, h = hs[0]
        if h[0] == "bad":
            return {"bad": h[1], "via": e}
        de = {"result": e["result"], "args": h[1]}
    else:
        de = d[0]
    derived = de["result"]
    facts = {"derived": derived, "args": de["args"]}
    for fname, key in (("AES", "key"), ("CBC", "iv")):
        es = find_events(r, fname)
        if len(es) == 1 and es[0]["args"]:
            facts[key] = interval(es[0]["args"][0], derived)
            facts[key + "_term"] = es[0]["args"][0]
    hm = [e for e in find_events(r, "new") if e["recv_var"] in ("hmac",)] + find_events(r, "HMAC")
    if len(hm) == 1 and hm[0]["args"]:
        facts["mac"] = interval(hm[0]["args"][0], derived)
        facts["digestmod"] = dict(hm[0]["kwargs"]).get("digestmod") or (hm[0]["args"][2] if len(hm[0]["args"]) > 2 else None)
        facts["mac_result"] = hm[0]["result"]
        # hmac.new(key, msg, digestmod): the initial message is the first thing the MAC covers
        msg0 = dict(hm[0]["kwargs"]).get("msg") or (hm[0]["args"][1] if len(hm[0]["args"]) > 1 else None)
        facts["mac_initial"] = msg0 if msg0 is not None and msg0 != ("const", None) else None
    return facts


def mac_updates(r, macres, initial=None):
    ups = [initial] if initial is not None else []
    for e in r["events"]:
        if e["func"] == "update" and e["recv"] == macres:
            ups.append(e["args"][0] if e["args"] else None)
    return ups


def is_padded(t, which):
    """t == <p>.update(x) + <p>.finalize() with p = PKCS7(n).<which>() ; -> (x, n) or None"""
    if not (isinstance(t, tuple) and t[0] == "bin" and t[1] == "Add"):
        return None
    a, b = t[2], t[3]
    if not (a[0] == "call" and a[1] == "update" and b[0] == "call" and b[1] == "finalize" and a[2] == b[2]):
        return None
    p = a[2]
    if not (isinstance(p, tuple) and p[0] == "call" and p[1] == which and isinstance(p[2], tuple) and p[2][0] == "call" and p[2][1] == "PKCS7"):
        return None
    n = cint(p[2][3][0]) if p[2][3] else None
    return (a[3][0] if a[3] else None, n)


def is_cipher_out(t, which):
    """t == <c>.update(x) + <c>.finalize() with c = Cipher(...).<which>() -> x"""
    if not (isinstance(t, tuple) and t[0] == "bin" and t[1] == "Add"):
        return None
    a, b = t[2], t[3]
    if not (a[0] == "call" and a[1] == "update" and b[0] == "call" and b[1] == "finalize" and a[2] == b[2]):
        return None
    c = a[2]
    if isinstance(c, tuple) and c[0] == "call" and c[1] == which:
        return a[3][0] if a[3] else None
    return None


def cipher_chain(t, which):
    """t == <c>.update(x1) + <c>.update(x2) + ... + <c>.finalize() with c = Cipher(...).<which>() -> [x1, x2, ...]"""
    parts = []

    def flat(x):
        if isinstance(x, tuple) and x[0] == "bin" and x[1] == "Add":
            flat(x[2])
            flat(x[3])
        else:
            parts.append(x)
    flat(t)
    if len(parts) < 2 or not all(isinstance(p_, tuple) and p_[0] == "call" for p_ in parts):
        return None
    c = parts[0][2]
    if not (isinstance(c, tuple) and c[0] == "call" and c[1] == which):
        return None
    if any(p_[2] != c for p_ in parts) or parts[-1][1] != "finalize" or any(p_[1] != "update" or len(p_[3]) != 1 for p_ in parts[:-1]):
        return None
    return [p_[3][0] for p_ in parts[:-1]]


def eval_bytes_term(t, plain):
    """value of a byte-building term when the plaintext parameter is `plain` (bytes); None if not evaluable"""
    if not isinstance(t, tuple):
        return None
    k = t[0]
    if k == "const":
        return t[1]
    if k == "param":
        return plain
    if k in ("tuple",):
        xs = [eval_bytes_term(x, plain) for x in t[1:]]
        return None if any(x is None for x in xs) else list(xs)
    if k == "bin":
        a, b = eval_bytes_term(t[2], plain), eval_bytes_term(t[3], plain)
        if a is None or b is None:
            return None
        try:
            import operator
            return {"Add": operator.add, "Sub": operator.sub, "Mult": operator.mul, "Mod": operator.mod, "FloorDiv": operator.floordiv, "BitAnd": operator.and_}[t[1]](a, b)
        except Exception:
            return None
    if k == "call" and t[2] is None and t[1] in ("len", "bytes", "bytearray", "chr", "int") and not t[4]:
        args = [eval_bytes_term(x, plain) for x in t[3]]
        if any(a is None for a in args):
            return None
        try:
            return {"len": len, "bytes": bytes, "bytearray": bytearray, "chr": chr, "int": int}[t[1]](*args)
        except Exception:
            return None
    if k == "call" and t[1] == "to_bytes" and t[2] is not None:
        v = eval_bytes_term(t[2], plain)
        args = [eval_bytes_term(x, plain) for x in t[3]]
        try:
            return v.to_bytes(*args)
        except Exception:
            return None
    return None


def manual_pkcs7(inputs, p0, block=16):
    """encryptor inputs [plaintext parameter, padding term]: the padding term evaluates to PKCS7 padding for every
    plaintext length 0 .. 3 blocks (the term depends on the length only through len(p) % block: checked, not assumed,
    by the range).  -> True / False / None (not evaluable)"""
    if len(inputs) != 2 or inputs[0] != p0:
        return None
    for n in range(0, 3 * block + 1):
        v = eval_bytes_term(inputs[1], b"\x00" * n)
        if v is None:
            return None
        k = block - n % block
        if bytes(v) != bytes([k]) * k:
            return False
    return True


def rule_use(ctx):
    """the library's own users of MediaCipher (the demo sink worker): one decrypt attempt with the kind the message
    announces - no retry with the other kinds' constants, which would accept media keyed for another kind - and a
    decrypted result is told from a failure by `is None`, not by truthiness (the empty file is a valid plaintext)"""
    repo = ctx.repo
    n = 0
    for m in sorted(repo.modules.values(), key=lambda m: m.relpath):
        if m.relpath == FILE or "/test_" in m.relpath or not any(isinstance(x, ast.Name) and x.id == CLS for x in ast.walk(m.tree)):
            continue
        for c in m.classes.values():
            wrappers = set()
            for name, fn in c.methods.items():
                calls = [x for x in ast.walk(fn) if isinstance(x, ast.Call) and isinstance(x.func, ast.Attribute) and x.func.attr.startswith("decrypt") and "cipher" in ast.unparse(x.func.value).lower()]
                if not calls:
                    continue
                wrappers.add(name)
                repo.consulted.add(m.relpath)
                for call in calls:
                    n += 1
                    loops = [l for l in ast.walk(fn) if isinstance(l, (ast.For, ast.While)) and any(y is call for st in l.body for y in ast.walk(st))]
                    ctx.check("C15.use", not loops, where(m.relpath, "%s.%s" % (c.name, name), call.lineno), call,
                              "the decrypt call sits in a loop over %s: after a failed MAC check it is retried with other kinds' constants, so media keyed for one kind is accepted when announced as another" % (ast.unparse(loops[0].iter)[:50] if loops and isinstance(loops[0], ast.For) else "attempts"),
                              "one attempt with the announced kind")
            for name, fn in c.methods.items():
                holders = {t.id for st in ast.walk(fn) if isinstance(st, ast.Assign) and isinstance(st.value, ast.Call) and isinstance(st.value.func, ast.Attribute)
                           and st.value.func.attr in wrappers and isinstance(st.value.func.value, ast.Name) and st.value.func.value.id == "self" for t in st.targets if isinstance(t, ast.Name)}
                for h in sorted(holders):
                    for t in ast.walk(fn):
                        test = t.test if isinstance(t, (ast.If, ast.While, ast.IfExp)) else None
                        if test is None:
                            continue
                        truthy = (isinstance(test, ast.Name) and test.id == h) or (isinstance(test, ast.UnaryOp) and isinstance(test.op, ast.Not) and isinstance(test.operand, ast.Name) and test.operand.id == h)
                        isnone = isinstance(test, ast.Compare) and isinstance(test.left, ast.Name) and test.left.id == h
                        if truthy or isnone:
                            n += 1
                            ctx.check("C15.use", not truthy, where(m.relpath, "%s.%s" % (c.name, name), t.lineno), "result `%s` tested by %s" % (h, ast.unparse(test)),
                                      "the decrypted content is tested for truthiness: a correctly encrypted and authenticated empty file is reported as a decryption failure", "failure told from content by `is None`")
    ctx.units["C15.use_sites"] = n


def run_structural(ctx):
    """the term-level reading of encrypt / decrypt (kept as the explanation when the execution of c15_rt is undecided)"""

    cls, efn, eg, eres = ctx.guarded("C15.direction", analyse_direction, ctx, "encrypt")
    _, dfn, dg, dres = ctx.guarded("C15.direction", analyse_direction, ctx, "decrypt")
    We = where(FILE, CLS + ".encrypt", efn.lineno)
    Wd = where(FILE, CLS + ".decrypt", dfn.lineno)
    if not eres or not dres:
        ctx.undecided("C15.kdf", We, efn, "no normal path through encrypt/decrypt")
        return
    # ---------------- kdf
    ef = [kdf_facts(r, ctx) for r in eres]
    df = [kdf_facts(r, ctx) for r in dres]
    badh = [f for f in ef + df if f is not None and "bad" in f]
    if badh:
        ctx.violate("C15.kdf", We, "self.%s(...)" % badh[0]["via"]["func"], badh[0]["bad"])
        return
    if any(f is None for f in ef + df):
        ctx.undecided("C15.kdf", We, efn, "expected exactly one deriveSecrets(...) call on every path")
        return
    e0, d0 = ef[0], df[0]
    eps, dps = params_of(efn), params_of(dfn)
    for nm, f, ps, W, fn in (("encrypt", e0, eps, We, efn), ("decrypt", d0, dps, Wd, dfn)):
        a = f["args"]
        ok = len(a) == 3 and len(ps) == 3 and a[0] == ("param", ps[1]) and a[1] == ("param", ps[2]) and cint(a[2]) is not None
        ctx.check("C15.kdf", ok, W, "deriveSecrets(%s)" % ", ".join(show(x) for x in a),
                  "%s must derive from (key parameter, info parameter, constant length)" % nm, "derives %s bytes from the key and info parameters" % (cint(a[2]) if ok else "?"))
    same = True
    for k in ("iv", "key", "mac"):
        vals = {tuple(f.get(k) or ()) for f in ef} | {tuple(f.get(k) or ()) for f in df}
        if len(vals) != 1 or () in vals:
            same = False
            ctx.violate("C15.kdf", Wd, "slice of derived bytes used as " + k,
                        "encrypt uses bytes %s and decrypt %s of the derived material for the %s" % (sorted({f.get(k) for f in ef}, key=str), sorted({f.get(k) for f in df}, key=str), k))
    L1, L2 = cint(e0["args"][2]) if len(e0["args"]) == 3 else None, cint(d0["args"][2]) if len(d0["args"]) == 3 else None
    if same:
        iv, key, mac = e0["iv"], e0["key"], e0["mac"]
        disjoint = iv[1] <= key[0] or key[1] <= iv[0]
        disjoint = disjoint and (key[1] <= mac[0] or mac[1] <= key[0]) and (iv[1] <= mac[0] or mac[1] <= iv[0])
        inrange = L1 is not None and max(iv[1], key[1], mac[1]) <= L1 and L1 == L2
        sizes = (iv[1] - iv[0] == 16) and (key[1] - key[0] in (16, 24, 32))
        ctx.check("C15.kdf", disjoint and inrange and sizes, We, "iv=%s key=%s mac_key=%s of %s derived bytes" % (iv, key, mac, L1),
                  "slices overlap, leave the derived range, differ in length between the directions (%s vs %s) or have the wrong size for AES-CBC" % (L1, L2),
                  "identical disjoint slices in both directions")
    # ---------------- pad
    enc_padded = []
    blk_e = set()
    for r in eres:
        ups = [e for e in r["events"] if e["func"] == "update" and isinstance(e["recv"], tuple) and e["recv"][0] == "call" and e["recv"][1] == "encryptor"]
        if len(ups) == 2 and all(len(u["args"]) == 1 for u in ups):
            # hand-made padding fed as a second chunk: judged by evaluating the padding term for every length class
            mp = manual_pkcs7([u["args"][0] for u in ups], ("param", eps[0]))
            enc_padded.append(mp)
            if mp:
                blk_e.add(128)
            continue
        if len(ups) != 1:
            enc_padded.append(None)
            continue
        p = is_padded(ups[0]["args"][0], "padder") if ups[0]["args"] else None
        enc_padded.append(bool(p) and p[0] == ("param", eps[0]))
        if p:
            blk_e.add(p[1])
    dec_unpadded = []
    blk_d = set()
    for r in dres:
        p = is_padded(r["ret"], "unpadder")
        ok = False
        if p:
            inner = is_cipher_out(p[0], "decryptor")
            ok = inner is not None
            blk_d.add(p[1])
        dec_unpadded.append(ok)
    if None in enc_padded:
        ctx.undecided("C15.pad", We, efn, "expected exactly one encryptor.update(...) per path")
    else:
        if all(enc_padded):
            ctx.hold("C15.pad", We, "encryptor input", "PKCS7-padded plaintext on all %d normal path(s)" % len(enc_padded))
        else:
            n = sum(1 for x in enc_padded if not x)
            ctx.violate("C15.pad", We, "encryptor input",
                        "on %d of %d path(s) the plaintext reaches the encryptor without PKCS7 padding while decrypt %s: such plaintexts cannot be decrypted" % (
                            n, len(enc_padded), "always unpads" if all(dec_unpadded) else "unpads on some paths"))
        if all(dec_unpadded):
            ctx.hold("C15.pad", Wd, "decrypt result", "PKCS7-unpadded decryptor output on all %d normal path(s)" % len(dec_unpadded))
        else:
            ctx.violate("C15.pad", Wd, "decrypt result", "decrypt does not remove the padding on every path while encrypt %s" % ("always pads" if all(enc_padded) else "pads on some paths"))
        if blk_e and blk_d:
            ctx.check("C15.pad", blk_e == blk_d == {128}, Wd, "PKCS7 block size", "pad block %s vs unpad block %s (AES block is 128 bit)" % (sorted(blk_e), sorted(blk_d)), "PKCS7(128) both ways")
    # ---------------- mac
    T_enc = set()
    for r, f in zip(eres, ef):
        ups = mac_updates(r, f.get("mac_result"), f.get("mac_initial"))
        ret = r["ret"]
        okshape = False
        if isinstance(ret, tuple) and ret[0] == "bin" and ret[1] == "Add":
            ct, tag = ret[2], ret[3]
            if tag[0] == "slice" and tag[2] == ("const", None) and tag[1][0] == "call" and tag[1][1] == "digest" and tag[1][2] == f.get("mac_result"):
                T_enc.add(cint(tag[3]))
                okshape = len(ups) == 2 and interval(ups[0], f["derived"]) == f.get("iv") and ups[1] == ct and (is_cipher_out(ct, "encryptor") is not None or cipher_chain(ct, "encryptor") is not None)
        ctx.check("C15.mac", okshape, We, "return " + show(ret)[:100],
                  "encrypt must return ciphertext + HMAC(iv || ciphertext)[:T]; MAC updates were %s" % [show(u) for u in ups],
                  "ciphertext || HMAC(iv || ciphertext)[:%s]" % sorted(T_enc))
    T_dec = set()
    cmp_nodes = []
    for r, f in zip(dres, df):
        ups = mac_updates(r, f.get("mac_result"), f.get("mac_initial"))
        p0 = ("param", dps[0])
        found = False
        for (n, t, kind) in r["conds"]:
            neg = False
            tt = t
            while tt[0] == "un" and tt[1] == "Not":
                neg = not neg
                tt = tt[2]
            a = b = None
            mismatch_edge = None
            if tt[0] == "cmp" and tt[1] in ("NotEq", "Eq"):
                a, b = tt[2], tt[3]
                mismatch_edge = "true" if (tt[1] == "NotEq") != neg else "false"
            elif tt[0] == "call" and tt[1] == "compare_digest" and len(tt[3]) == 2:
                a, b = tt[3]
                mismatch_edge = "true" if neg else "false"
            if a is None:
                continue
            for x, y in ((a, b), (b, a)):
                if x[0] == "slice" and x[1] == p0 and x[3] == ("const", None) and cint(x[2]) is not None and cint(x[2]) < 0 \
                        and y[0] == "slice" and y[1][0] == "call" and y[1][1] == "digest" and y[1][2] == f.get("mac_result") and y[2] == ("const", None):
                    T1, T3 = -cint(x[2]), cint(y[3])
                    body_ok = len(ups) == 2 and interval(ups[0], f["derived"]) == f.get("iv") and ups[1][0] == "slice" and ups[1][1] == p0 \
                        and ups[1][2] == ("const", None) and cint(ups[1][3]) is not None
                    T2 = -cint(ups[1][3]) if body_ok else None
                    T_dec.update([T1, T2, T3])
                    found = True
                    cmp_nodes.append((n, mismatch_edge))
                    ctx.check("C15.mac", body_ok and T1 == T2 == T3, Wd, n.stmt,
                              "tag split %s, body split %s, digest truncation %s must agree and the MAC must cover iv || body" % (T1, T2, T3),
                              "tag = last %s bytes compared with HMAC(iv || body)[:%s]" % (T1, T3))
        if not found:
            ctx.violate("C15.mac", Wd, dfn, "a normal path through decrypt never compares the trailing tag with the truncated HMAC")
    if T_enc and T_dec:
        ctx.check("C15.mac", T_enc == T_dec and len(T_enc) == 1, Wd, "MAC truncation",
                  "encrypt appends %s tag byte(s) but decrypt splits off/compares %s" % (sorted(T_enc, key=str), sorted(T_dec, key=str)), "both sides use %s tag bytes" % sorted(T_enc))
    dm = {show(f.get("digestmod")) for f in ef + df}
    ctx.check("C15.mac", len(dm) == 1 and "None" not in dm, Wd, "digestmod", "digest differs between the directions: %s" % sorted(dm), "same digest %s" % sorted(dm))
    # ---------------- first: MAC check dominates the decryptor
    uses = []
    for n in dg.live:
        if n.stmt is None:
            continue
        for c in ast.walk(n.stmt) if n.kind == "stmt" else []:
            if isinstance(c, ast.Call) and isinstance(c.func, ast.Attribute) and c.func.attr == "decryptor":
                uses.append(n)
    seen = set()
    cmpn = []
    for (n, e) in cmp_nodes:
        if n.id not in seen:
            seen.add(n.id)
            cmpn.append((n, e))
    if len(cmpn) == 1 and uses:
        tn, mis = cmpn[0]
        ok_edge = "false" if mis == "true" else "true"
        # mismatch branch cannot return normally nor reach the decryptor
        esc = dg.path(tn, lambda x: x is dg.exit or x in uses, edge_ok=lambda a, b, k: not (a is tn and k != mis))
        ctx.check("C15.first", esc is None, Wd, tn.stmt, "the mismatch branch does not raise on every path: " + fmt_path(esc), "mismatch always raises")
        for u in uses:
            byp = dg.path(dg.entry, lambda x: x is u, edge_ok=lambda a, b, k: not (a is tn and k == ok_edge))
            ctx.check("C15.first", byp is None, where(FILE, CLS + ".decrypt", u.line), u.stmt,
                      "the decryptor is reachable without passing the MAC comparison: " + fmt_path(byp), "dominated by the MAC comparison")
    else:
        ctx.violate("C15.first", Wd, dfn, "expected one MAC comparison guarding the decryptor, found %d comparison(s) and %d decryptor use(s)" % (len(cmpn), len(uses)))
    # ---------------- kinds
    ev = Evaluator(ctx.repo, cls.module, cls)
    infos = {}
    for name, fn in cls.methods.items():
        for pre in ("encrypt_", "decrypt_"):
            if name.startswith(pre):
                kind = name[len(pre):]
                tgt = pre[:-1]
                val = None
                for c in ast.walk(fn):
                    if isinstance(c, ast.Call) and isinstance(c.func, ast.Attribute) and c.func.attr == tgt and len(c.args) == 3:
                        a = alts(ev.ev(c.args[2]))
                        ps = params_of(fn)
                        fwd = len(ps) == 2 and all(isinstance(x, ast.Name) for x in c.args[:2]) and [x.id for x in c.args[:2]] == ps
                        if a and len(a) == 1 and fwd:
                            val = a[0]
                infos.setdefault(kind, {})[pre] = val
    for kind, d in sorted(infos.items()):
        W = where(FILE, CLS + ".%s_%s" % ("decrypt", kind), None)
        ok = d.get("encrypt_") is not None and d.get("encrypt_") == d.get("decrypt_")
        ctx.check("C15.kinds", ok, W, "info constant of " + kind,
                  "encrypt_%s uses %r but decrypt_%s uses %r" % (kind, d.get("encrypt_"), kind, d.get("decrypt_")), "both use %r" % (d.get("encrypt_"),))
    vals = [d.get("encrypt_") for d in infos.values()]
    ctx.check("C15.kinds", len(infos) >= 4 and len(set(vals)) == len(vals), where(FILE, CLS, None), "info constants",
              "media kinds share an info constant (a file of one kind decrypts as another): %s" % sorted(map(repr, vals)), "%d distinct constants" % len(vals))



def run(ctx):
    ctx.rule("C15.kdf", "iv / cipher key / MAC key are bytes 0..16 / 16..48 / 48..80 of HKDFv3(key, info of the kind, 112), both directions", floor=3)
    ctx.rule("C15.pad", "always-padded AES-CBC (PKCS7, block 16) in the layout of every kind", floor=2)
    ctx.rule("C15.rt", "decrypt(encrypt(P)) = P for every length, aligned and empty included, on the same and on a fresh object", floor=4)
    ctx.rule("C15.mac", "10-byte HMAC-SHA256 over iv || ciphertext; every tampered / truncated input is rejected", floor=3)
    ctx.rule("C15.first", "nothing is decrypted before the tag has verified", floor=1)
    ctx.rule("C15.use", "callers of MediaCipher: one attempt with the announced kind; failure detected by `is None`", floor=2)
    ctx.rule("C15.kinds", "four kinds, each with its own info constant; a file of one kind is rejected as another; no secrets shared across kinds", floor=5)
    ctx.assume("AES-CBC, HKDF, HMAC and PKCS7 primitives of `cryptography` / python-axolotl / hmac behave as their documentation says (the laws listed in sa/bytealg.py); python-axolotl's HKDFv3 and cryptography's HKDF-SHA256 with the default all-zero salt produce the same stream (both are RFC 5869)")
    ctx.assume("plaintext lengths 0..64 are executed one by one (quick tier: ten of them); longer contents are not decided separately - nothing in the algebra depends on a length except through its residue modulo the block size and the comparisons with 0 and the tag length")
    from . import c15_rt
    decided = ctx.guarded("C15.pad", c15_rt.rule_cipher, ctx)
    ctx.guarded("C15.use", rule_use, ctx)
    if decided is None:
        # the execution itself failed: fall back to the structural reading so that the property is not left undecided
        scratch_floor = dict(ctx.floors)
        ctx.guarded("C15.direction", run_structural, ctx)
        ctx.floors.update(scratch_floor)
