"""C07 - mandatory acknowledgements are sent exactly once and match the stanza.

C07.stack        the compositions the library publishes / builds hold every answering layer once (a duplicated layer
                 in a parallel group answers twice)

C07.notif        every notification cell gets exactly one ack (control layer for consumed encrypt notifications,
                 notifications layer otherwise) whose id / class / type / to / participant come from the notification
C07.call         offer -> one receipt naming the call id, other call stanzas -> one ack; one delivery
C07.ping         urn:xmpp:ping -> one pong with the request's id
C07.unsupported  unpresentable message payloads -> exactly one receipt; supported / key-distribution-only -> none
"""
from ..absint import enumerate_cells, flat_effects, show, Budget, Interp, _Raise, Node, OTHER
from ..layers import LayerRunner, symbolic_node
from ..report import where
from ..routing import GroupSim, cell_label, ups, downs, ATOM_PAYLOAD, ATOM_SKDM
from ..stackmodel import FLAGS, default_layers, flatten
from .c06 import cell_view, load_routing, excluded, documented_raise, configs, flag_label


def A(path, key):
    return ("atom", ("A", path, key))


class ChainSim:
    """control layer, then (if it passes the stanza up) the protocol group, in one interpretation"""

    def __init__(self, repo, flags):
        self.repo = repo
        self.group = GroupSim(repo, flags)
        self.control = self.group.all_layers[5]
        self.runner = LayerRunner(repo)

    def receive(self, tag, cell, domains, extra_hooks=None):
        sim = self.group
        it = sim.new_interp(cell, domains)
        if extra_hooks:
            it.hooks.update(extra_hooks)
        ctrl = self.runner.make_layer(it, self.control)
        ctrl[1].fields["_manager"] = ("ext", "AxolotlManager", [])     # set by the connected event; opaque here
        g = sim.make_group(it)
        node = symbolic_node(tag)
        res = {"raised": None, "consumed": False}
        try:
            k, m = self.repo.find_method(self.control, "receive")
            it.call_function(m, k, ctrl, [node], {}, depth=0)
            first = list(it.effects)
            passed = [e for e in flat_effects(first) if e[0] == "UP"]
            it.effects[:] = [e for e in first if e[0] != "UP"]
            res["control_effects"] = list(it.effects)
            if not passed:
                res["consumed"] = True
            for e in passed:
                k2, m2 = self.repo.find_method(g[1].cls, "receive")
                it.call_function(m2, k2, g, [e[1]], {}, depth=0)
        except _Raise as r:
            res["raised"] = r.text or show(r.exc)
        res["effects"] = it.effects
        return res, it


def node_of(e):
    return e[1][1] if e[1][0] == "node" else None


def tagname(n):
    return n.tag[1] if n is not None and n.tag is not None and n.tag[0] == "c" else None


def attr(n, k):
    return n.attrs.get(k, ("c", None))


def child(n, tag):
    for kind, c in n.children:
        if isinstance(c, Node) and tagname(c) == tag:
            return c
    return None


def rule_notif(ctx, repo, tier):
    routing = load_routing()
    for flags in configs(tier):
        sim = ChainSim(repo, flags)
        fl = flag_label(flags)
        doms = {}
        w = where("yowsup/layers/protocol_notifications/layer.py", "YowNotificationsProtocolLayer.recvNotification", None)
        try:
            res = enumerate_cells(lambda cell, d: sim.receive("notification", cell, d), doms, max_cells=4000)
        except Budget:
            ctx.undecided("C07.notif", w, "notification cells [modules %s]" % fl, "budget exceeded")
            continue
        bad = {}
        n_ok = 0
        for cell, rs in res:
            view = cell_view(cell)
            lab = cell_label(cell)
            if rs["raised"]:
                if documented_raise("notification", view, routing):
                    continue
                bad.setdefault("handling raises before/without the ack: %s" % rs["raised"][:60], []).append(lab)
                continue
            acks = [node_of(e) for e in flat_effects(rs["effects"]) if e[0] == "DOWN"]
            acks = [n for n in acks if tagname(n) == "ack"]
            others = [e for e in flat_effects(rs["effects"]) if e[0] == "DOWN" and tagname(node_of(e)) != "ack"]
            if len(acks) != 1:
                bad.setdefault("%d acknowledgements" % len(acks), []).append(lab)
                continue
            a = acks[0]
            probs = []
            if attr(a, "id") != A((), "id"):
                probs.append("id is %s" % show(attr(a, "id")))
            if attr(a, "class") != ("c", "notification"):
                probs.append("class is %s" % show(attr(a, "class")))
            if attr(a, "to") != A((), "from"):
                probs.append("to is %s, not the sender" % show(attr(a, "to")))
            t = view.get("type")
            if t is not None and attr(a, "type") != A((), "type"):
                probs.append("type is %s" % show(attr(a, "type")))
            p = view.get("participant", "unasked")
            if p not in (None,) and attr(a, "participant") != A((), "participant"):
                # participant present (or never tested: then it must be copied unconditionally)
                if not (p == "unasked" and attr(a, "participant") == ("c", None) and False):
                    probs.append("participant is %s, not the notification's participant" % show(attr(a, "participant")))
            if rs["consumed"] and ups(rs["effects"]) != (0, 0):
                probs.append("consumed notification is also forwarded")
            if probs:
                bad.setdefault("ack does not match the notification: " + "; ".join(probs), []).append(lab)
            else:
                n_ok += 1
        label = "notification cells [modules %s]" % fl
        if bad:
            for what, labs in sorted(bad.items()):
                ctx.violate("C07.notif", w, label + ": " + what.split(":")[0], "%s in %d cell(s), e.g. %s" % (what, len(labs), labs[0][:140]))
        else:
            ctx.hold("C07.notif", w, label, "%d cell(s): exactly one ack each, fields copied from the notification" % n_ok)
        if flags != configs(tier)[0]:
            continue
        # "every incoming notification": the acknowledgement does not depend on the notification's entity being parseable
        # (a stanza whose children / data are not what the parser expects). The same cells with the parsers of the
        # notification entities failing: still one ack with the notification's fields (the error may go on upward)
        fired = []

        def failing_parser(itp, c, args, kwargs, env, depth, e):
            if "protocol_notifications" in c.module.name:
                fired.append(c.name)
                raise _Raise(("ext", "ValueError", []), "ValueError: the notification cannot be parsed")
            return None
        try:
            res2 = enumerate_cells(lambda cell, d: sim.receive("notification", cell, d, extra_hooks={"classmethod:fromProtocolTreeNode": failing_parser}), {}, max_cells=4000)
        except Budget:
            ctx.undecided("C07.notif", w, "unparseable notification", "budget exceeded")
            continue
        bad2, n2 = {}, 0
        for cell, rs in res2:
            if not rs["raised"] or "cannot be parsed" not in rs["raised"]:
                continue
            n2 += 1
            acks = [n for n in [node_of(e) for e in flat_effects(rs["effects"]) if e[0] == "DOWN"] if tagname(n) == "ack"]
            lab = cell_label(cell)
            if len(acks) != 1:
                bad2.setdefault("%d acknowledgements when the entity parser raises" % len(acks), []).append(lab)
            elif attr(acks[0], "id") != A((), "id") or attr(acks[0], "to") != A((), "from"):
                bad2.setdefault("the ack sent when the parser raises does not carry the notification's id / sender", []).append(lab)
        if not n2:
            ctx.undecided("C07.notif", w, "unparseable notification", "no cell reached a parser of the notification entities (%d parser calls)" % len(fired))
        elif bad2:
            for what, labs in sorted(bad2.items()):
                ctx.violate("C07.notif", w, "unparseable notification", "%s: the server is never told that the notification arrived (in %d cell(s), e.g. %s)" % (what, len(labs), labs[0][:120]))
        else:
            ctx.hold("C07.notif", w, "unparseable notification", "%d cell(s) in which the entity parser raises: the ack is sent all the same" % n2)


def rule_call(ctx, repo):
    sim = GroupSim(repo)
    doms = {}
    w = where("yowsup/layers/protocol_calls/layer.py", "YowCallsProtocolLayer.recvCall", None)
    res = enumerate_cells(lambda cell, d: sim.receive("call", cell, d), doms, max_cells=2000)
    bad = []
    for cell, rs in res:
        view = cell_view(cell)
        lab = cell_label(cell)
        if rs["raised"]:
            bad.append("raises %s when %s" % (rs["raised"][:50], lab))
            continue
        dn = [node_of(e) for e in flat_effects(rs["effects"]) if e[0] == "DOWN"]
        if len(dn) != 1 or ups(rs["effects"]) != (1, 1):
            bad.append("%d answer(s), %s deliveries when %s" % (len(dn), ups(rs["effects"]), lab))
            continue
        n = dn[0]
        offer = view.get("<offer>")
        if offer:
            c = child(n, "offer")
            ok = tagname(n) == "receipt" and attr(n, "id") == A((), "id") and attr(n, "to") == A((), "from") and c is not None and attr(c, "call-id") == A(("offer",), "call-id")
            if not ok:
                bad.append("call offer must be answered by a receipt(id, to=caller) with <offer call-id=the offer's>: got <%s id=%s to=%s> child %s" % (
                    tagname(n), show(attr(n, "id")), show(attr(n, "to")), show(attr(c, "call-id")) if c else None))
        else:
            ok = tagname(n) == "ack" and attr(n, "id") == A((), "id") and attr(n, "class") == ("c", "call") and attr(n, "to") == A((), "from")
            if not ok:
                bad.append("non-offer call stanza must be answered by ack(id, class=call, to=caller): got <%s id=%s class=%s to=%s> when %s" % (
                    tagname(n), show(attr(n, "id")), show(attr(n, "class")), show(attr(n, "to")), lab))
    ctx.check("C07.call", not bad, w, "call cells (%d)" % len(res), "; ".join(bad[:2]), "offer -> receipt with the call id, otherwise ack; one delivery")


def rule_ping(ctx, repo):
    sim = GroupSim(repo)
    doms = {}
    w = where("yowsup/layers/protocol_iq/layer.py", "YowIqProtocolLayer.recvIq", None)
    res = enumerate_cells(lambda cell, d: sim.receive("iq", cell, d), doms, max_cells=3000)
    bad = []
    n = 0
    for cell, rs in res:
        view = cell_view(cell)
        if view.get("xmlns") != "urn:xmpp:ping" or view.get("type") == "result":
            pongs = [e for e in flat_effects(rs["effects"]) if e[0] == "DOWN"]
            if view.get("xmlns") != "urn:xmpp:ping" and pongs:
                bad.append("a stanza that is not a ping is answered (%s)" % cell_label(cell))
            continue
        n += 1
        dn = [node_of(e) for e in flat_effects(rs["effects"]) if e[0] == "DOWN"]
        if len(dn) != 1:
            bad.append("%d pongs when %s" % (len(dn), cell_label(cell)))
            continue
        p = dn[0]
        ok = tagname(p) == "iq" and attr(p, "type") == ("c", "result") and attr(p, "id") == A((), "id")
        if not ok:
            bad.append("pong must be <iq type=result id=the ping's id>: got <%s type=%s id=%s>" % (tagname(p), show(attr(p, "type")), show(attr(p, "id"))))
    ctx.check("C07.ping", not bad and n > 0, w, "ping cells (%d)" % n, "; ".join(bad[:2]) or "no ping cell found", "one pong per ping with the same id")


def rule_unsupported(ctx, repo, tier):
    reported_mixed = []
    for flags in configs(tier):
        if not flags["media"] and tier != "thorough":
            pass
        sim = GroupSim(repo, flags)
        fl = flag_label(flags)
        routing = load_routing()
        doms = {}
        w = where("yowsup/layers/protocol_messages/layer.py", "recvMessageStanza (messages / media layers)", None)
        res = enumerate_cells(lambda cell, d: sim.receive("message", cell, d), doms, max_cells=6000)
        bad = {}
        mixed = []
        n_unsup = 0
        for cell, rs in res:
            view = cell_view(cell)
            if excluded("message", view, routing) or not view.get("<proto>"):
                continue
            lab = cell_label(cell)
            rcpts = [node_of(e) for e in flat_effects(rs["effects"]) if e[0] == "DOWN"]
            mt = view.get("proto/mediatype")
            is_media = view.get("type") == "media"
            if is_media:
                supported = mt not in (None, OTHER)
                skdm_only = False
                if not flags["media"]:
                    continue      # module left out: nothing is required of it
            else:
                pl = view.get("proto/#payload", "unasked")
                supported = pl in ("conversation", "extended_text")
                has_skdm = bool(view.get("<proto/#sender_key_distribution>"))
                skdm_only = has_skdm and pl in (None, "unasked")
                if has_skdm and not supported and not skdm_only and not rs["raised"]:
                    # a key distribution TOGETHER with content the library cannot present (revoke, a media kind without
                    # a media type, an unmodelled kind) is not a pure key-distribution payload: it is owed the receipt
                    if len(rcpts) != 1:
                        mixed.append(lab)
                    continue
            if skdm_only:
                continue        # pure key-distribution payloads are outside the statement's quantifier
            want = 0 if supported else 1
            if rs["raised"]:
                if want == 1:
                    bad.setdefault("handling raises (%s) instead of answering with the receipt" % rs["raised"][:70], []).append(lab)
                continue
            if len(rcpts) != want:
                bad.setdefault("%d receipt(s) where %d expected" % (len(rcpts), want), []).append(lab)
                continue
            if want == 1:
                n_unsup += 1
                r = rcpts[0]
                ok = tagname(r) == "receipt" and attr(r, "id") == A((), "id") and attr(r, "to") == A((), "from")
                p = view.get("participant", "unasked")
                if p not in (None,) and attr(r, "participant") not in (A((), "participant"),):
                    ok = False
                if not ok:
                    bad.setdefault("receipt does not name the message: <%s id=%s to=%s participant=%s>" % (tagname(r), show(attr(r, "id")), show(attr(r, "to")), show(attr(r, "participant"))), []).append(lab)
        if mixed and not reported_mixed:
            reported_mixed.append(1)
            ctx.violate("C07.unsupported", w, "key distribution together with unpresentable content",
                        "a group message that carries a sender-key distribution AND content the library cannot present gets no receipt and is not delivered: the receipt branch is skipped whenever a key distribution is present, not only for pure key-distribution payloads (%d cell(s), e.g. %s)" % (len(mixed), mixed[0][:120]))
        label = "unsupported message payloads [modules %s]" % fl
        if bad:
            for what, labs in sorted(bad.items()):
                ctx.violate("C07.unsupported", w, label + ": " + what.split(":")[0], "%s in %d cell(s), e.g. %s" % (what, len(labs), labs[0][:140]))
        else:
            ctx.hold("C07.unsupported", w, label, "%d unsupported cell(s) answered by exactly one receipt; supported and key-distribution-only payloads by none" % n_unsup)


def rule_keyonly(ctx):
    from . import c10, c10_rt
    cv = c10.Conv(ctx)
    fn = ctx.repo.find_method(cv.cls, "protobytes_is_key_distribution_only")[1]
    w = where(c10_rt.CONV, "AttributesConverter.protobytes_is_key_distribution_only", getattr(fn, "lineno", None))
    r = c10_rt.key_distribution_only_question(ctx, cv)
    if r is None:
        ctx.undecided("C07.keyonly", w, "key-distribution-only question", "the method or the Message description was not found, or it uses protobuf operations outside the stand-in model")
        return
    problems, n = r
    ctx.check("C07.keyonly", not problems, w, "key-distribution-only question on %d payloads" % n,
              "; ".join(problems[:3]) + " - a message that carries content next to the key (or no key at all) is then treated as a bare key delivery: nothing is presented above and nobody answers it"
              if any("True" in p for p in problems) else "; ".join(problems[:3]) + " - a bare key delivery is then presented above as an (empty) message",
              "True exactly for the payload whose only field is the sender-key distribution")


def run(ctx):
    ctx.rule("C07.notif", "exactly one matching ack per notification cell", floor=2)
    ctx.rule("C07.call", "offer -> receipt(call id) else ack", floor=1)
    ctx.rule("C07.ping", "ping -> pong with the same id", floor=1)
    ctx.rule("C07.unsupported", "unsupported payload -> exactly one receipt", floor=2)
    ctx.assume("the documented exclusion: a picture notification that is neither set nor delete raises by design")
    repo = ctx.repo
    from .c18 import rule_composition
    ctx.rule("C07.stack", "no composition the library publishes or builds holds an answering layer twice", floor=1)
    if not rule_composition(ctx, "C07.stack"):
        return
    from . import c09
    ctx.guarded("C07.notif", c09.rule_str, ctx, "C07.notif")
    ctx.guarded("C07.notif", rule_notif, ctx, repo, ctx.tier)
    ctx.guarded("C07.call", rule_call, ctx, repo)
    ctx.guarded("C07.ping", rule_ping, ctx, repo)
    ctx.guarded("C07.unsupported", rule_unsupported, ctx, repo, ctx.tier)
    # C07.unsupported reads the parsed payload kind by kind ("no kind present -> unsupported -> receipt"): that a kind the
    # peer did not send parses to None - and one it sent to an object - is the converter's top-level round trip (C10.top,
    # scenarios peer / peer-empty), adopted
    from . import c10
    ctx.rule("C07.payload", "payload kinds absent on the wire parse to None (C10.top adopted)", floor=4)
    ctx.adopt_from("C10", [(c10.rule_converter, ())], {"C10.top": "C07.payload"})
    # the other question the receiving side asks about a payload - "is it nothing but a sender-key distribution" (then no
    # message is presented and none needs an answer from above) - is answered by a stand-in in the routing model; the
    # code's own answer is executed here on payloads with and without other content
    ctx.rule("C07.keyonly", "a payload counts as key-distribution-only exactly when the distribution is its only field", floor=1)
    ctx.guarded("C07.keyonly", rule_keyonly, ctx)
