"""C05 - frame segmentation: any chunking of the byte stream yields the original frames.

C05.indep  the received chunk flows only into the accumulation buffer
C05.peel   frames are peeled in a loop; one delivery per iteration dominated by the completeness test
C05.arith  header / payload / remainder slice arithmetic is exact (linear-expression equality)
C05.send   header = big-endian length truncated to H bytes, written right before the payload, only when enabled
C05.guard  oversize payloads are refused on a path dominating both writes
C05.state  attributes the layer mutates in place (the accumulation buffer) are bound per instance by the constructor
"""
import ast
import struct

from ..cfg import CFG, edge_region, calls_in, fmt_path, walk_no_nested
from ..consts import Evaluator, alts
from ..deps import Deps, node_exprs
from .. import linear
from ..report import where
from ..repo import unparse, is_self_attr, params_of, AnalysisError

FILE = "yowsup/layers/noise/layer_noise_segments.py"
CLS = "YowNoiseSegmentsLayer"


def cval(ev, e):
    a = alts(ev.ev(e))
    if a is not None and len(a) == 1:
        return True, a[0]
    return False, None


def find_enabled_test(ctx, g, ev, cls):
    """-> (test node, edge kind that means 'segmentation enabled')"""
    ok, prop = cval(ev, ast.parse("self.PROP_ENABLED", mode="eval").body)
    found = []
    for n in g.live:
        if n.kind != "test" or not isinstance(n.stmt, ast.If):
            continue
        t = n.stmt.test
        neg = False
        while isinstance(t, ast.UnaryOp) and isinstance(t.op, ast.Not):
            neg = not neg
            t = t.operand
        if isinstance(t, ast.Call) and isinstance(t.func, ast.Attribute) and t.func.attr == "getProp" and t.args:
            k, v = cval(ev, t.args[0])
            if k and ok and v == prop:
                # default must be falsy or absent so that "unset" means disabled, as in the reader
                found.append((n, "false" if neg else "true"))
    return found


def is_len_of(e, text):
    return (isinstance(e, ast.Call) and isinstance(e.func, ast.Name) and e.func.id == "len"
            and len(e.args) == 1 and unparse(e.args[0]) == text)


def single_assign(nodes, name):
    """the unique `name = value` among nodes"""
    vals = []
    for n in nodes:
        s = n.stmt
        if n.kind == "stmt" and isinstance(s, ast.Assign):
            for t in s.targets:
                if isinstance(t, ast.Name) and t.id == name:
                    vals.append((n, s.value))
    return vals


def strip_wrappers(e):
    """bytes(x) / bytearray(x) -> x"""
    while isinstance(e, ast.Call) and isinstance(e.func, ast.Name) and e.func.id in ("bytes", "bytearray") and len(e.args) == 1:
        e = e.args[0]
    return e


def analyse_receive(ctx):
    repo = ctx.repo
    cls = repo.cls(FILE, CLS)
    fn = repo.method(FILE, CLS, "receive")
    from ..repo import inline_self_aliases, inline_arith_temps
    fn, _aliases = inline_self_aliases(fn)
    fn = inline_arith_temps(fn)
    W = lambda n=None: where(FILE, CLS + ".receive", getattr(n, "line", None) if n is not None else fn.lineno)
    ev = Evaluator(repo, cls.module, cls)
    g = CFG(fn)
    d = Deps(g)
    ps = params_of(fn)
    if len(ps) != 1:
        ctx.undecided("C05.indep", W(), fn, "receive does not take exactly one chunk parameter")
        return None
    P = ps[0]
    tests = find_enabled_test(ctx, g, ev, cls)
    if len(tests) != 1:
        ctx.undecided("C05.indep", W(), fn, "expected exactly one test of PROP_ENABLED, found %d" % len(tests))
        return None
    test, kind = tests[0]
    region = edge_region(g, test, kind)
    other = edge_region(g, test, "false" if kind == "true" else "true")
    # ---- buffer attribute: self.B.extend(P)
    B = None
    for n in region:
        for c in calls_in(n, "extend"):
            if isinstance(c.func.value, ast.Attribute) and is_self_attr(c.func.value) and len(c.args) == 1 \
                    and isinstance(c.args[0], ast.Name) and c.args[0].id == P:
                B = c.func.value.attr
    if B is None:
        ctx.violate("C05.indep", W(test), test.stmt, "enabled branch never appends the chunk to an accumulation buffer (self.<buf>.extend(%s))" % P)
        return None
    Btxt = "self." + B
    # ---- C05.indep: every use of the chunk (param definition reaching) in the enabled region is the extend argument
    uses = 0
    for n in region:
        st = d.at(n)
        if ("param", P) not in st.get(P, ()):
            continue
        for e in node_exprs(n):
            allowed = set()
            for c in walk_no_nested(e):
                if isinstance(c, ast.Call) and isinstance(c.func, ast.Attribute) and c.func.attr == "extend" \
                        and unparse(c.func.value) == Btxt and len(c.args) == 1:
                    allowed.add(id(c.args[0]))
            for x in walk_no_nested(e):
                if isinstance(x, ast.Name) and x.id == P and isinstance(x.ctx, ast.Load):
                    uses += 1
                    if id(x) in allowed:
                        ctx.hold("C05.indep", W(n), n.stmt, "chunk only appended to %s" % Btxt)
                    else:
                        ctx.violate("C05.indep", W(n), n.stmt,
                                    "the received chunk `%s` is read directly in the segmentation-enabled branch (output would depend on the chunking); only %s.extend(%s) may use it" % (P, Btxt, P))
    # every decision / delivery in the region reads the buffer (no other attribute state, no param)
    for n in region:
        if n.kind in ("test", "loop"):
            src = d.expr_sources(n, node_exprs(n)[0])
            bad = [s for s in src if s[0] == "param" or (s[0] == "attr" and s[1] != B and repo.class_const(cls, s[1])[1] is None)]
            ctx.check("C05.indep", not bad, W(n), n.stmt,
                      "decision in the enabled branch depends on %s, not only on the accumulated buffer" % (bad,),
                      "decision reads only %s" % Btxt)
    # ---- deliveries
    ups = [n for n in region if calls_in(n, "toUpper", selfonly=True)]
    loops = [n for n in region if n.kind == "test" and isinstance(n.stmt, ast.While)]
    if len(loops) != 1:
        ctx.violate("C05.peel", W(test), test.stmt, "enabled branch has %d while-loops; frames must be peeled in one loop (coalesced frames would be held back)" % len(loops))
        return None
    loop = loops[0]
    body = edge_region(g, loop, "true")
    body_ids = {n.id for n in body}
    if len(ups) != 1 or ups[0].id not in body_ids:
        ctx.violate("C05.peel", W(loop), loop.stmt, "expected exactly one toUpper inside the peel loop, found %d in the enabled branch" % len(ups))
        return None
    up = ups[0]
    # optional read cursor: a local initialised to 0 before the loop and advanced inside it; the logical buffer is then
    # self.B[cursor:] and every expectation below is shifted by it
    cursor = None
    for n in body:
        s = n.stmt
        tgt = None
        if n.kind == "stmt" and isinstance(s, ast.AugAssign) and isinstance(s.op, ast.Add) and isinstance(s.target, ast.Name):
            tgt = s.target.id
        elif n.kind == "stmt" and isinstance(s, ast.Assign) and len(s.targets) == 1 and isinstance(s.targets[0], ast.Name) \
                and any(isinstance(x, ast.Name) and x.id == s.targets[0].id for x in ast.walk(s.value)):
            tgt = s.targets[0].id          # c = c + E
        if tgt is not None:
            init = [m for m in region if m.id not in body_ids and m.kind == "stmt" and isinstance(m.stmt, ast.Assign) and len(m.stmt.targets) == 1
                    and isinstance(m.stmt.targets[0], ast.Name) and m.stmt.targets[0].id == tgt and cval(ev, m.stmt.value) == (True, 0)]
            if init:
                cursor = (tgt, n, init[0])
    base = {cursor[0]: 1} if cursor else {}

    def shifted(d):
        return linear._add(d, base, 1)
    # header size H: slice self.B[base:base+H] feeding struct.unpack
    H = None
    size_var = None
    fmt_ok = None
    for n in body:
        s = n.stmt
        if n.kind == "stmt" and isinstance(s, ast.Assign) and len(s.targets) == 1 and isinstance(s.targets[0], ast.Name):
            for c in walk_no_nested(s.value):
                if isinstance(c, ast.Call) and isinstance(c.func, ast.Attribute) and c.func.attr == "unpack" and len(c.args) == 2:
                    size_var = s.targets[0].id
                    okf, fmt = cval(ev, c.args[0])
                    arg = c.args[1]
                    pad = b""
                    sl = arg
                    if isinstance(arg, ast.BinOp) and isinstance(arg.op, ast.Add):
                        okp, pad = cval(ev, arg.left)
                        sl = arg.right
                        if not okp:
                            pad = None
                    sl = strip_wrappers(sl)
                    lo_off = None
                    if isinstance(sl, ast.Subscript) and unparse(sl.value) == Btxt and isinstance(sl.slice, ast.Slice) \
                            and sl.slice.step is None and sl.slice.upper is not None:
                        lo_l = linear.lin(sl.slice.lower, ev) if sl.slice.lower is not None else {1: 0}
                        hi_l = linear.lin(sl.slice.upper, ev)
                        if lo_l is not None and hi_l is not None:
                            lo_off = linear.const_of(linear._add(lo_l, base, -1))
                            hi_off = linear.const_of(linear._add(hi_l, base, -1))
                            if lo_off is not None and hi_off is not None:
                                H = hi_off
                    # the result must be indexed [0]
                    idx_ok = isinstance(s.value, ast.Subscript) and cval(ev, s.value.slice) == (True, 0)
                    if okf and isinstance(fmt, str) and pad is not None and H is not None:
                        try:
                            size = struct.calcsize(fmt)
                        except struct.error:
                            size = None
                        big = fmt[:1] in (">", "!")
                        unsigned = fmt[1:] in ("I", "L", "H", "Q", "B")
                        zero = isinstance(pad, (bytes, bytearray)) and all(b == 0 for b in pad)
                        fmt_ok = (big and unsigned and zero and lo_off == 0 and size == len(pad) + H and idx_ok and len(fmt) == 2)
                        ctx.check("C05.arith", fmt_ok, W(n), n.stmt,
                                  "size is not decoded as a big-endian unsigned integer from exactly the first %s bytes of the unread buffer (bytes [%s:%s], format %r, pad %r, calcsize %s): header bytes are ignored or misread" % (H, lo_off, H, fmt, pad, size),
                                  "size = big-endian unsigned from the first %d unread bytes (format %r, %d zero pad byte(s))" % (H, fmt, len(pad)))
    if H is None or size_var is None:
        ctx.undecided("C05.arith", W(loop), loop.stmt, "could not find `size = struct.unpack(fmt, pad + %s[:H])[0]` in the peel loop" % Btxt)
        return None
    ctx.units["C05.header_len_reader"] = H
    lenB = "len(%s)" % Btxt
    # ---- loop test: len(B) > c with H-1 <= c <= H
    cn = linear.cmp_normal(loop.stmt.test, ev)
    okloop = None
    if cn is not None:
        l, op = cn
        rest = {k: v for k, v in l.items() if k not in (1,)}
        if linear.norm(rest) == linear.norm(linear._add({lenB: 1}, base, -1)) and op in (">", ">="):
            c = -l.get(1, 0)
            if op == ">=":
                c -= 1
            okloop = (H - 1 <= c <= H)
            what = "loop continues while %s > %d" % (lenB, c)
    ctx.check("C05.peel", okloop, W(loop), loop.stmt,
              "loop condition must hold whenever a complete minimal frame (%d+1 bytes) is unread in the buffer and guarantee %d header bytes: need (unread length) > c with %d <= c <= %d" % (H, H, H - 1, H),
              what if okloop else "")
    # ---- completeness test dominating the delivery
    comp = None
    for n in body:
        if n.kind == "test" and isinstance(n.stmt, ast.If):
            cn = linear.cmp_normal(n.stmt.test, ev)
            if cn is None:
                continue
            l, op = cn
            if lenB in l or size_var in l:
                comp = (n, l, op)
                pos = True
                for kind2 in ("true", "false"):
                    reg2 = {x.id for x in edge_region(g, n, kind2)}
                    if up.id in reg2:
                        # normalise to the branch on which the delivery lies
                        want = linear._add({lenB: 1, size_var: -1, 1: -H}, base, -1)
                        if kind2 == "true":
                            good = (op == ">=" and linear.norm(l) == linear.norm(want)) or \
                                   (op == ">" and linear.norm(l) == linear.norm(linear._add(want, {1: 1}, 1)))
                        else:
                            # delivery on the false edge of  (H+size) > len  i.e. not(len < H+size)
                            neg = {k: -v for k, v in l.items()}
                            good = (op == ">" and linear.norm(neg) == linear.norm(want))
                        ctx.check("C05.arith", good, W(n), n.stmt,
                                  "completeness test must be (unread length = %s%s) >= %d + %s exactly (a complete frame would be held back or an incomplete one delivered)" % (lenB, " - " + cursor[0] if cursor else "", H, size_var),
                                  "delivery guarded by %s >= %d + %s" % (lenB, H, size_var))
                        ctx.hold("C05.peel", W(up), up.stmt, "single delivery dominated by the completeness test")
                        # the other branch leaves the loop without reaching the loop test again
                        okind = "false" if kind2 == "true" else "true"
                        tgt = [m for (m, k) in n.succ if k == okind]
                        back = g.path(n, lambda x: x is loop, edge_ok=lambda a, b, k, n=n, okind=okind: not (a is n and k != okind))
                        ctx.check("C05.peel", back is None, W(n), n.stmt,
                                  "incomplete-frame branch loops back without new data: " + fmt_path(back),
                                  "incomplete frame leaves the loop")
                        break
                else:
                    ctx.violate("C05.peel", W(up), up.stmt, "the delivery is not dominated by the completeness test")
    if comp is None:
        ctx.violate("C05.peel", W(up), up.stmt, "no completeness test (len(buffer) >= header + size) guards the delivery")
        return H
    # delivery continues the loop (coalesced frames all delivered)
    cont = g.path(up, lambda x: x is loop)
    ctx.check("C05.peel", cont is not None, W(up), up.stmt,
              "after a delivery the loop is left: further complete frames in the buffer are held back", "loop continues after a delivery")
    # ---- payload and remainder slices
    call = calls_in(up, "toUpper", selfonly=True)[0]
    arg = strip_wrappers(call.args[0]) if call.args else None
    if isinstance(arg, ast.Name):
        defs = single_assign(body, arg.id)
        arg = strip_wrappers(defs[0][1]) if len(defs) == 1 else None
    okp = None
    if isinstance(arg, ast.Subscript) and unparse(arg.value) == Btxt and isinstance(arg.slice, ast.Slice) and arg.slice.step is None:
        lo = linear.lin(arg.slice.lower, ev) if arg.slice.lower is not None else {1: 0}
        hi = linear.lin(arg.slice.upper, ev) if arg.slice.upper is not None else None
        okp = linear.equal(lo, shifted({1: H})) and linear.equal(hi, shifted({1: H, size_var: 1}))
    ctx.check("C05.arith", okp, W(up), up.stmt,
              "delivered payload must be %s[%d:%d+%s]" % (Btxt, H, H, size_var), "payload = %s[%d:%d+%s]" % (Btxt, H, H, size_var))
    if cursor is not None:
        cname, adv, init = cursor
        advl = linear.lin(adv.stmt.value, ev)
        if isinstance(adv.stmt, ast.Assign) and advl is not None:
            advl = linear._add(advl, {cname: 1}, -1)
        okadv = linear.equal(advl, {1: H, size_var: 1})
        ctx.check("C05.arith", okadv, W(adv), adv.stmt, "the read cursor must advance by exactly %d + %s per delivered frame" % (H, size_var), "cursor += %d + %s" % (H, size_var))
        on_deliver_path = g.path(up, lambda x: x is loop, avoid=[adv]) is None or g.path(adv, lambda x: x is up) is not None
        ctx.check("C05.peel", on_deliver_path, W(adv), adv.stmt,
                  "a path delivers a frame and returns to the loop test without advancing the cursor (duplicate delivery)", "cursor advanced on the delivery path")
        # after the loop, on every path to the exit, the consumed prefix is cut off the buffer (and only there)
        cuts = []
        for n in region:
            if n.id in body_ids or n.kind != "stmt":
                continue
            st = n.stmt
            if isinstance(st, ast.Delete) and len(st.targets) == 1 and isinstance(st.targets[0], ast.Subscript) and unparse(st.targets[0].value) == Btxt \
                    and isinstance(st.targets[0].slice, ast.Slice) and st.targets[0].slice.step is None:
                sl = st.targets[0].slice
                lo = linear.lin(sl.lower, ev) if sl.lower is not None else {1: 0}
                if linear.equal(lo, {1: 0}) and sl.upper is not None and linear.equal(linear.lin(sl.upper, ev), {cname: 1}):
                    cuts.append(n)
            elif isinstance(st, ast.Assign) and any(unparse(t) == Btxt for t in st.targets):
                v = strip_wrappers(st.value)
                if isinstance(v, ast.Subscript) and unparse(v.value) == Btxt and isinstance(v.slice, ast.Slice) and v.slice.upper is None and v.slice.step is None \
                        and v.slice.lower is not None and linear.equal(linear.lin(v.slice.lower, ev), {cname: 1}):
                    cuts.append(n)
        inbody_cut = [n for n in body if n.kind == "stmt" and ((isinstance(n.stmt, ast.Assign) and any(unparse(t) == Btxt for t in n.stmt.targets)) or
                                                                (isinstance(n.stmt, ast.Delete) and any(isinstance(t, ast.Subscript) and unparse(t.value) == Btxt for t in n.stmt.targets)))]
        okcut = len(cuts) == 1 and not inbody_cut
        if okcut:
            ok2, pth = g.must_pass(init, [cuts[0]], [g.exit], edge_ok=None)
            okcut = bool(ok2)
        ctx.check("C05.arith", okcut, W(cuts[0] if cuts else loop), cuts[0].stmt if cuts else loop.stmt,
                  "with a read cursor the consumed prefix %s[:%s] must be cut off exactly once after the loop on every path (found %d cut(s) after, %d inside the loop)" % (Btxt, cname, len(cuts), len(inbody_cut)),
                  "consumed prefix cut off once after the loop")
    else:
        rem = []
        for n in body:
            s = n.stmt
            if n.kind == "stmt" and isinstance(s, ast.Assign) and any(unparse(t) == Btxt for t in s.targets):
                rem.append(n)
            elif n.kind == "stmt" and isinstance(s, ast.Delete) and any(isinstance(t, ast.Subscript) and unparse(t.value) == Btxt for t in s.targets):
                rem.append(n)
        okr = None
        if len(rem) == 1:
            s = rem[0].stmt
            if isinstance(s, ast.Assign):
                v = strip_wrappers(s.value)
                if isinstance(v, ast.Subscript) and unparse(v.value) == Btxt and isinstance(v.slice, ast.Slice) and v.slice.upper is None and v.slice.step is None:
                    okr = linear.equal(linear.lin(v.slice.lower, ev), {1: H, size_var: 1})
                else:
                    okr = False
            else:
                t = s.targets[0]
                if isinstance(t.slice, ast.Slice) and t.slice.step is None:
                    lo = linear.lin(t.slice.lower, ev) if t.slice.lower is not None else {1: 0}
                    okr = linear.equal(lo, {1: 0}) and linear.equal(linear.lin(t.slice.upper, ev), {1: H, size_var: 1})
            ctx.check("C05.arith", okr, W(rem[0]), rem[0].stmt,
                      "remainder must be %s[%d+%s:]" % (Btxt, H, size_var), "remainder = %s[%d+%s:]" % (Btxt, H, size_var))
            # the remainder update lies on every path from the delivery branch back to the loop test,
            # and the payload is taken before the buffer is cut
            ok, p = g.must_pass(comp[0], [rem[0]], [loop], edge_ok=lambda a, b, k: not (a is comp[0] and (b.id not in body_ids)))
            on_deliver_path = g.path(up, lambda x: x is loop, avoid=[rem[0]]) is None or g.path(rem[0], lambda x: x is up) is not None
            ctx.check("C05.peel", on_deliver_path, W(rem[0]), rem[0].stmt,
                      "a path delivers a frame and returns to the loop test without removing it from the buffer (duplicate delivery)", "frame removed from the buffer on the delivery path")
        else:
            ctx.violate("C05.arith", W(loop), loop.stmt, "expected exactly one statement that cuts the delivered frame off %s, found %d" % (Btxt, len(rem)))
    # ---- pass-through branch
    pups = [n for n in other if calls_in(n, "toUpper", selfonly=True)]
    ok = len(pups) == 1 and len(calls_in(pups[0], "toUpper")[0].args) == 1 and isinstance(calls_in(pups[0], "toUpper")[0].args[0], ast.Name) \
        and calls_in(pups[0], "toUpper")[0].args[0].id == P
    ctx.check("C05.peel", ok, W(test), "disabled branch: " + (unparse(pups[0].stmt) if pups else "<none>"),
              "with segmentation disabled the chunk must be passed up unchanged exactly once", "disabled branch passes the chunk through")
    return H


def analyse_send(ctx, Hr):
    repo = ctx.repo
    cls = repo.cls(FILE, CLS)
    fn = repo.method(FILE, CLS, "send")
    ev = Evaluator(repo, cls.module, cls)
    g = CFG(fn)
    W = lambda n=None: where(FILE, CLS + ".send", getattr(n, "line", None) if n is not None else fn.lineno)
    ps = params_of(fn)
    if len(ps) != 1:
        ctx.undecided("C05.send", W(), fn, "send does not take exactly one parameter")
        return
    P = ps[0]
    d = Deps(g)
    tests = find_enabled_test(ctx, g, ev, cls)
    if len(tests) != 1:
        ctx.undecided("C05.send", W(), fn, "expected exactly one test of PROP_ENABLED in send, found %d" % len(tests))
        return
    test, kind = tests[0]
    region = {n.id for n in edge_region(g, test, kind)}
    lows = [n for n in g.live if calls_in(n, "toLower", selfonly=True)]
    header, payload = [], []
    for n in lows:
        c = calls_in(n, "toLower", selfonly=True)[0]
        a = c.args[0] if c.args else None
        if isinstance(a, ast.Name) and a.id == P and ("param", P) in d.at(n).get(P, ()) and len(d.at(n).get(P, ())) == 1:
            payload.append(n)
        else:
            header.append((n, a))
    if len(payload) != 1:
        ctx.violate("C05.send", W(), fn, "expected exactly one write of the unmodified payload, found %d" % len(payload))
        return
    pay = payload[0]
    okp, p = g.must_pass(g.entry, [pay], [g.exit])
    ctx.check("C05.send", okp, W(pay), pay.stmt, "a normal path returns without writing the payload: " + fmt_path(p), "payload written on every normal path")
    if len(header) != 1:
        ctx.violate("C05.send", W(), fn, "expected exactly one header write, found %d" % len(header))
        return
    hn, harg = header[0]
    Hw = None
    okh = None
    # struct.pack(FMT, len(P))[k:]
    if isinstance(harg, ast.Subscript) and isinstance(harg.slice, ast.Slice) and harg.slice.upper is None and harg.slice.step is None \
            and isinstance(harg.value, ast.Call) and isinstance(harg.value.func, ast.Attribute) and harg.value.func.attr == "pack" \
            and len(harg.value.args) == 2:
        okf, fmt = cval(ev, harg.value.args[0])
        okk, k = cval(ev, harg.slice.lower) if harg.slice.lower is not None else (True, 0)
        if okf and okk and isinstance(fmt, str) and isinstance(k, int):
            try:
                size = struct.calcsize(fmt)
            except struct.error:
                size = None
            if size is not None:
                Hw = size - k
                okh = fmt[:1] in (">", "!") and fmt[1:] in ("I", "L", "Q", "H") and 0 <= k < size and is_len_of(harg.value.args[1], P)
    elif isinstance(harg, ast.Call) and isinstance(harg.func, ast.Attribute) and harg.func.attr == "to_bytes" and len(harg.args) >= 2:
        okn, nbytes = cval(ev, harg.args[0])
        oke, endian = cval(ev, harg.args[1])
        if okn and oke:
            Hw = nbytes
            okh = endian == "big" and is_len_of(harg.func.value, P)
    ctx.check("C05.send", okh, W(hn), hn.stmt,
              "header must be the big-endian length of the payload truncated to its low-order bytes", "header = big-endian len(%s), %s byte(s)" % (P, Hw))
    ctx.units["C05.header_len_writer"] = Hw
    if Hw is not None and Hr is not None:
        ctx.check("C05.send", Hw == Hr, W(hn), hn.stmt,
                  "writer emits a %d-byte header but the reader consumes %d" % (Hw, Hr), "writer and reader agree on a %d-byte header" % Hw)
    ctx.check("C05.send", hn.id in region, W(hn), hn.stmt,
              "header is written although segmentation is not enabled (or not only then)", "header only when segmentation is enabled")
    # order: header, then payload, nothing written in between, payload not before header
    after, p1 = g.must_pass(hn, [pay], [g.exit])
    before = g.path(pay, lambda x: x is hn)
    ctx.check("C05.send", after and before is None, W(hn), hn.stmt,
              "header is not immediately followed by its payload on every path (%s)" % fmt_path(p1 or before), "header precedes its payload on every path")
    # every enabled path writes the header before the payload
    skip = g.path(test, lambda x: x is pay, avoid=[hn], edge_ok=lambda a, b, k: not (a is test and k != kind))
    ctx.check("C05.send", skip is None, W(test), test.stmt,
              "with segmentation enabled a path reaches the payload write without the header: " + fmt_path(skip), "enabled path always writes the header")
    # ---- guard
    Hh = Hw if Hw is not None else Hr
    guards = []
    for n in g.live:
        if n.kind == "test" and isinstance(n.stmt, ast.If):
            cn = linear.cmp_normal(n.stmt.test, ev)
            if cn is None:
                continue
            l, op = cn
            lenP = "len(%s)" % P
            if {k: v for k, v in l.items() if k != 1} == {lenP: 1} and op in (">", ">="):
                N = -l.get(1, 0) + (1 if op == ">" else 0)   # refuse when len >= N
                guards.append((n, N))
    good = False
    for n, N in guards:
        # true edge must end in raise without writing; false edge must dominate both writes
        reach_write = g.path(n, lambda x: x in (hn, pay), edge_ok=lambda a, b, k, n=n: not (a is n and k != "true"))
        reach_exit = g.path(n, lambda x: x is g.exit, edge_ok=lambda a, b, k, n=n: not (a is n and k != "true"))
        dom = g.path(g.entry, lambda x: x in (hn, pay), edge_ok=lambda a, b, k, n=n: not (a is n and k == "false"))
        refuses = reach_write is None and reach_exit is None
        if Hh is not None:
            if refuses and dom is None and N == 256 ** Hh:
                good = True
                ctx.hold("C05.guard", W(n), n.stmt, "payloads with len >= 256**%d are refused before any write" % Hh)
            elif refuses and dom is None:
                ctx.violate("C05.guard", W(n), n.stmt,
                            "size guard refuses len >= %d but the %d-byte header holds lengths < %d (%s)" % (
                                N, Hh, 256 ** Hh, "oversize payloads would be truncated" if N > 256 ** Hh else "payloads that fit are refused"))
                good = True
    if not good:
        ctx.violate("C05.guard", W(), fn, "no size guard `len(%s) >= 256**H -> raise` dominates the header and payload writes" % P)


# =====================================================================================================================
# symbolic one-iteration analysis (sa/symbuf.py): shape-independent replacement of the structural receive / send rules
# =====================================================================================================================
def _prop_enabled(repo):
    cls = repo.cls(FILE, CLS)
    a = alts(Evaluator(repo, cls.module, cls).class_const(cls, "PROP_ENABLED"))
    return a[0] if a else None


def _buffer_attr(repo):
    """the accumulation buffer: the attribute the constructor binds to bytearray() / bytes"""
    cls = repo.cls(FILE, CLS)
    init = cls.methods.get("__init__")
    names = []
    for n in ast.walk(init) if init else []:
        if isinstance(n, ast.Assign) and is_self_attr(n.targets[0]) and isinstance(n.value, ast.Call) and unparse(n.value.func) in ("bytearray", "bytes"):
            names.append(n.targets[0].attr)
    return names[0] if len(names) == 1 else None


def _sym_hooks(sym):
    def tag(env):
        if sym.decodes:
            sym.decodes[-1].setdefault("fn", env.get("@fname"))

    def unpack(itp, recv, a, k, env, d, e):
        if recv[1].endswith("Struct()") and recv[2] and recv[2][0][0] == "c" and len(a) >= 1:
            a = [recv[2][0]] + list(a[-1:])              # a precompiled struct.Struct(fmt): its format is the constructor argument
        if len(a) == 2 and a[0][0] == "c":
            r = sym.decode_unpack(a[0][1], a[1])
            tag(env)
            return r
        return None

    def from_bytes(itp, recv, a, k, env, d, e):
        order = a[1] if len(a) > 1 else k.get("byteorder")
        signed = k.get("signed", ("c", False))
        if a and order is not None and order[0] == "c" and signed[0] == "c":
            r = sym.decode_from_bytes(a[0], order[1], signed[1])
            tag(env)
            return r
        return None
    def unpack_from(itp, recv, a, k, env, d, e):
        # struct.unpack_from(fmt, buffer, offset=0): unpack of the calcsize(fmt) bytes of the buffer starting at offset
        import struct as _struct
        from ..symbuf import Buf, add
        if recv[1].endswith("Struct()") and recv[2] and recv[2][0][0] == "c" and len(a) >= 1:
            a = [recv[2][0]] + list(a)
        off = a[2] if len(a) > 2 else k.get("offset", ("c", 0))
        if len(a) >= 2 and a[0][0] == "c" and isinstance(a[0][1], str) and a[1][0] == "bufobj" and off[0] == "c" and isinstance(off[1], int) and off[1] >= 0:
            try:
                size = _struct.calcsize(a[0][1])
            except _struct.error:
                return None
            buf = a[1][1]
            sym.slices.append((buf.copy(), {1: off[1]} if off[1] else {}, {1: off[1] + size}))
            view = Buf(buf.sid, add(buf.start, {1: off[1]} if off[1] else {}), add(buf.start, {1: off[1] + size}))
            r = sym.decode_unpack(a[0][1], ("bufobj", view))
            tag(env)
            return r
        return unpack(itp, recv, a, k, env, d, e)
    return {"ext:*.unpack": unpack, "ext:*.unpack_from": unpack_from, "ext:*.from_bytes": from_bytes}


def sym_receive(repo, enabled=True, up_raises=False, method="receive", scripted=None):
    """all path classes of one generic invocation of receive: the buffer holds L0 unread bytes starting at position P of the
    byte stream, the chunk brings C0 more; inside the loop one generic iteration is executed (integer locals the loop
    assigns are arbitrary).  -> list of records, or raises Budget"""
    from ..absint import Interp, enumerate_cells, _Raise, flat_effects
    from ..layers import LayerRunner
    from ..symbuf import SymExt, Buf
    cls = repo.cls(FILE, CLS)
    battr = _buffer_attr(repo)
    PROP = _prop_enabled(repo)

    def run(cell, domains):
        sym = SymExt()
        runner = LayerRunner(repo, {PROP: enabled})
        hooks = runner.hooks()
        hooks.update(_sym_hooks(sym))
        if up_raises:
            up0 = hooks["method:toUpper"]

            def failing_up(itp, recv, a, k, env, d, e):
                up0(itp, recv, a, k, env, d, e)
                raise _Raise(("ext", "HandlerError", []), "the layer above raises")
            hooks["method:toUpper"] = failing_up
        it = Interp(repo, cell, domains, hooks=hooks)
        it.sym = sym
        it.layer_base = runner.base
        layer = runner.make_layer(it, cls)
        buf = Buf("S", {"P": 1}, {"P": 1, "L0": 1})
        if battr is not None:
            layer[1].fields[battr] = ("bufobj", buf)
        chunk = ("bufobj", Buf("S", {"P": 1, "L0": 1}, {"P": 1, "L0": 1, "C0": 1}))
        if method != "receive":
            # a step helper is analysed on its own: the buffer already holds everything received so far
            buf.end = {"P": 1, "L0": 1, "C0": 1}
        calls = []
        if scripted is not None:
            name_, values = scripted

            def step(itp, fn, owner, self_val, a, k):
                calls.append(1)
                return values[len(calls) - 1] if len(calls) <= len(values) else ("c", None)
            it.hooks["fn:" + name_] = step
            it.loop_unroll = len(values) + 2
        it.effects[:] = []
        res = {"raised": None, "ret": None, "step_calls": calls}
        try:
            res["ret"] = it.method_call(layer, method, [chunk] if method == "receive" else [], {}, {"@module": cls.module, "@owner": cls}, 0, None)
        except _Raise as r:
            res["raised"] = r.text
        fin = layer[1].fields.get(battr) if battr else None
        res.update({"conds": list(sym.conds), "ups": [e[1] for e in flat_effects(it.effects) if e[0] == "UP"], "loops": list(sym.loops), "decodes": list(sym.decodes),
                    "final": fin[1].copy() if fin is not None and fin[0] == "bufobj" else None, "final_raw": fin, "notes": list(sym.notes) + list(it.notes), "havoc": dict(sym.havoc), "chunk": chunk})
        return res, it
    return [r for _c, r in enumerate_cells(run, {}, max_cells=256)], battr


def analyse_receive_sym(ctx):
    from ..absint import Budget
    from ..symbuf import value_of, add, show_lin, to_lin
    import itertools
    repo = ctx.repo
    fn = repo.method(FILE, CLS, "receive")
    W = where(FILE, CLS + ".receive", fn.lineno)
    try:
        cells, battr = sym_receive(repo, True)
        off_cells, _b = sym_receive(repo, False)
    except Budget:
        ctx.undecided("C05.peel", W, fn, "too many undecided tests in receive")
        return None
    if battr is None:
        ctx.undecided("C05.indep", W, fn, "the accumulation buffer (an attribute bound to bytearray() by the constructor) was not identified")
        return None
    notes = sorted({n for r in cells for n in r["notes"]})
    if notes:
        ctx.undecided("C05.peel", W, fn, "receive uses the buffer in a way the symbolic model does not follow: " + "; ".join(notes[:2]))
        return None
    # ---- pass-through with segmentation off
    okoff = all(len(r["ups"]) == 1 and r["ups"][0][0] == "bufobj" and r["ups"][0][1].start == {"P": 1, "L0": 1} and r["ups"][0][1].end == {"P": 1, "L0": 1, "C0": 1}
                and r["final"] is not None and r["final"].start == {"P": 1} and r["final"].end == {"P": 1, "L0": 1} and not r["raised"] for r in off_cells)
    ctx.check("C05.peel", okoff, W, "segmentation disabled: the chunk passes through", "with segmentation disabled the chunk must be passed up unchanged exactly once (and the buffer left alone)", "disabled branch passes the chunk through")
    # ---- chunk independence: nothing depends on how the unread bytes are split between old buffer and new chunk
    dep = []
    for r in cells:
        for (e, kind, t) in r["conds"]:
            if e.get("L0", 0) != e.get("C0", 0):
                dep.append("a decision tests %s" % show_lin(e))
        for u in r["ups"]:
            if u[0] != "bufobj":
                dep.append("something other than a slice of the buffer is delivered")
            elif any(x.get("L0", 0) != x.get("C0", 0) for x in (u[1].start, u[1].end)):
                dep.append("a delivered slice is cut relative to the chunk boundary")
        f = r["final"]
        if f is None or f.end != {"P": 1, "L0": 1, "C0": 1} or f.start.get("L0", 0) != f.start.get("C0", 0):
            dep.append("the buffer kept for the next call is %s" % (f,))
    ctx.check("C05.indep", not dep, W, "decisions, deliveries and the kept buffer depend on old bytes + chunk only as a whole",
              "the received chunk is used other than by appending it to the accumulation buffer (output would depend on the chunking): " + "; ".join(sorted(set(dep))[:2]), "chunk only appended to self.%s" % battr)
    ctx.check("C05.indep", all(any(x.get("C0") for x in [r["final"].end] if r["final"] is not None) for r in cells), W, "chunk appended on every path", "a path does not append the chunk to the buffer", "appended on every path")
    # ---- header decode
    decs = [d for r in cells for d in r["decodes"]]
    if not decs:
        ctx.violate("C05.arith", W, fn, "no path decodes a length header from the buffer")
        return None
    Hs = {d["view"].length().get(1) if set(d["view"].length()) <= {1} else None for d in decs}
    badd = sorted({d["why"] for d in decs if not d["ok"]})
    H = Hs.pop() if len(Hs) == 1 else None
    ctx.check("C05.arith", not badd and H is not None and H > 0, W, "header decode (%s)" % sorted({d["kind"] for d in decs}),
              "size is not decoded as a big-endian unsigned integer from exactly the first H bytes of the unread buffer: %s" % ("; ".join(badd) or "header widths %s" % Hs), "size = big-endian unsigned from the first %s unread bytes" % H)
    if H is None or badd:
        return None
    ctx.units["C05.header_len_reader"] = H
    pos_exprs = {tuple(sorted(d["view"].start.items(), key=lambda kv: str(kv[0]))) for d in decs}
    helpers = {d.get("fn") for d in decs}
    if len(pos_exprs) != 1 and len(helpers) == 1 and None not in helpers and "receive" not in helpers:
        # the frame is detached by a step helper that receive calls repeatedly: the helper is the generic iteration, and
        # receive is checked to deliver exactly what the helper hands out, in order, until it hands out nothing
        step = helpers.pop()
        try:
            cells, _b = sym_receive(repo, True, method=step)
        except Budget:
            ctx.undecided("C05.peel", W, fn, "too many undecided tests in %s" % step)
            return None
        for r in cells:
            rv = r["ret"]
            r["ups"] = [rv] if rv is not None and rv[0] == "bufobj" else ([] if rv == ("c", None) else [("unk", "?")])
            r["loops"] = [{"entered": True, "exit": "fallthrough" if r["ups"] else "break"}]
        from ..symbuf import Buf as _Buf
        A, Bv = ("bufobj", _Buf("S", {"P": 1, 1: 3}, {"P": 1, 1: 5})), ("bufobj", _Buf("S", {"P": 1, 1: 8}, {"P": 1, 1: 9}))
        drv, _b = sym_receive(repo, True, scripted=(step, [A, Bv, ("c", None)]))
        okdrv = all(len(r["ups"]) == 2 and r["ups"][0][0] == "bufobj" and r["ups"][0][1].start == A[1].start and r["ups"][0][1].end == A[1].end and r["ups"][1][1].start == Bv[1].start
                    and len(r["step_calls"]) == 3 and not r["raised"] for r in drv)
        ctx.check("C05.peel", okdrv, W, "receive delivers what %s detaches, in order, until nothing is left" % step,
                  "receive must deliver every segment its step helper detaches, in order, and stop when the helper returns nothing (deliveries %s, helper calls %s)" % ([len(r["ups"]) for r in drv], [len(r["step_calls"]) for r in drv]),
                  "each detached segment delivered once, in order")
        decs = [d for r in cells for d in r["decodes"]]
        pos_exprs = {tuple(sorted(d["view"].start.items(), key=lambda kv: str(kv[0]))) for d in decs}
    if len(pos_exprs) != 1:
        ctx.undecided("C05.arith", W, fn, "the header is read at different positions on different paths: %s" % [show_lin(dict(p)) for p in pos_exprs])
        return None
    pos = dict(pos_exprs.pop())
    # ---- evaluation of every path class on a grid of symbol values (all tests are unit-coefficient linear inequalities)
    syms = set()
    for r in cells:
        for (e, k, t) in r["conds"]:
            syms |= {x for x in e if x != 1}
        for d in r["decodes"]:
            syms.add(d["sym"])
    bigc = max([abs(c) for r in cells for (e, k, t) in r["conds"] for x, c in e.items()] + [1])
    if any(abs(c) != 1 for r in cells for (e, k, t) in r["conds"] for x, c in e.items() if x != 1):
        ctx.undecided("C05.arith", W, fn, "a test scales a symbolic quantity (non-unit coefficient): outside the grid argument")
        return None
    ssyms = sorted(x for x in syms if x.startswith("S"))
    nsyms = sorted(x for x in syms if x.startswith("N_"))
    R = H + bigc + 3
    grid = {"P": (0, 2), "L0": range(0, R + 1), "C0": (0, 1, 3), "S": range(0, R + 1)}
    problems = {"hold": [], "early": [], "payload": [], "advance": [], "spin": [], "oob": [], "ambig": []}
    n_eval = 0
    for P_, L0_, C0_, S_ in itertools.product(grid["P"], grid["L0"], grid["C0"], grid["S"]):
        for Ns in itertools.product(range(0, 4), repeat=len(nsyms)):
            asg = {"P": P_, "L0": L0_, "C0": C0_}
            asg.update({x: S_ for x in ssyms})
            asg.update(dict(zip(nsyms, Ns)))
            posv = value_of(pos, asg)
            U = P_ + L0_ + C0_ - posv
            if U < 0:
                continue               # the read position never lies beyond the bytes received so far
            taken = [r for r in cells if all(((value_of(e, asg) >= 0) if k == ">=0" else (value_of(e, asg) == 0)) == t for (e, k, t) in r["conds"])]
            if len(taken) != 1:
                problems["ambig"].append("%d path classes for %s" % (len(taken), asg))
                continue
            r = taken[0]
            n_eval += 1
            lp = [l for l in r["loops"]]
            delivered = [u for u in r["ups"] if u[0] == "bufobj"]
            fstart = value_of(r["final"].start, asg) if r["final"] is not None else None
            if r["decodes"] and U < H:
                problems["oob"].append("the header is decoded with only %d unread byte(s)" % U)
            complete = U >= H + S_
            label = "unread=%d size=%d" % (U, S_)
            if S_ == 0:
                # an empty frame: either delivered (and consumed) or left for later - both keep the stream intact
                if delivered and not (fstart == posv + H):
                    problems["advance"].append(label)
                continue
            if complete:
                if len(delivered) != 1 or len(r["ups"]) != 1:
                    problems["hold"].append("%s: a complete frame is not delivered (%d deliveries)" % (label, len(r["ups"])))
                    continue
                lo, hi = value_of(delivered[0][1].start, asg), value_of(delivered[0][1].end, asg)
                if (lo, hi) != (posv + H, posv + H + S_):
                    problems["payload"].append("%s: delivers bytes [%d:%d) of the unread data instead of [%d:%d)" % (label, lo - posv, hi - posv, H, H + S_))
                if fstart != posv + H + S_:
                    problems["advance"].append("%s: the buffer afterwards starts %s bytes after the frame start instead of %d" % (label, None if fstart is None else fstart - posv, H + S_))
                if not lp or lp[-1]["exit"] not in ("fallthrough", "continue"):
                    problems["spin"].append("%s: after a delivery the loop is left (%s): further complete frames in the buffer are held back" % (label, lp[-1]["exit"] if lp else "no loop"))
            else:
                if r["ups"]:
                    problems["early"].append("%s: an incomplete frame is delivered" % label)
                    continue
                if fstart != posv:
                    problems["advance"].append("%s: nothing delivered but the buffer moves by %s" % (label, None if fstart is None else fstart - posv))
                if lp and lp[-1]["exit"] in ("fallthrough", "continue"):
                    problems["spin"].append("%s: the incomplete-frame branch loops back without new data" % label)
    ctx.units["C05.grid_points"] = n_eval
    if problems["ambig"]:
        ctx.undecided("C05.peel", W, fn, "path classes do not partition the grid: " + problems["ambig"][0])
        return H
    ctx.check("C05.arith", not problems["hold"] and not problems["early"], W, "a frame is delivered exactly when it is complete (unread >= %d + size)" % H,
              "completeness test must be (unread length) >= %d + size exactly (a complete frame would be held back or an incomplete one delivered): %s" % (H, "; ".join((problems["hold"] + problems["early"])[:2])),
              "delivery iff unread >= %d + size (%d grid points)" % (H, n_eval))
    ctx.check("C05.arith", not problems["payload"], W, "payload = unread[%d:%d+size]" % (H, H), "delivered payload must be the bytes [%d:%d+size) after the frame start: %s" % (H, H, "; ".join(problems["payload"][:2])), "payload = unread[%d:%d+size]" % (H, H))
    ctx.check("C05.arith", not problems["advance"], W, "remainder = unread[%d+size:]" % H, "after a delivery exactly header + payload must be removed from the unread data, otherwise nothing: %s" % "; ".join(problems["advance"][:2]), "remainder = unread[%d+size:]" % H)
    ctx.check("C05.arith", not problems["oob"], W, "header read only when %d bytes are unread" % H, "; ".join(sorted(set(problems["oob"]))[:2]), "header bytes available when decoded")
    ctx.check("C05.peel", not problems["spin"], W, "loop continues after a delivery and stops on an incomplete frame", "; ".join(sorted(set(problems["spin"]))[:2]), "loop continues after a delivery; incomplete frame leaves the loop")
    ctx.check("C05.peel", all(len(r["ups"]) <= 1 for r in cells), W, "one delivery per iteration", "an iteration delivers more than once", "single delivery per iteration")
    one_loop = all(len([l for l in r["loops"]]) <= 1 for r in cells) and any(r["loops"] for r in cells)
    ctx.check("C05.peel", one_loop, W, "frames are peeled in one loop", "frames must be peeled in one loop (coalesced frames would be held back)", "one peel loop")
    ctx.check("C05.peel", not any(r["raised"] for r in cells), W, "no path raises", "a path through receive raises: %s" % [r["raised"] for r in cells if r["raised"]][:1], "no exception on any path class")
    return H


def drain_after_failure(ctx, rule="C12.drain"):
    """a delivery that raises must not leave the delivered frame at the head of the buffer: receive is symbolically executed
    with the layer above raising on the first delivery; when the exception has left receive the kept buffer must start
    after that frame (otherwise the same frame is delivered again with the next chunk, for ever)"""
    from ..absint import Budget
    from ..symbuf import value_of, show_lin, add
    import itertools
    repo = ctx.repo
    fn = repo.method(FILE, CLS, "receive")
    W = where(FILE, CLS + ".receive", fn.lineno)
    try:
        cells, battr = sym_receive(repo, True, up_raises=True)
    except Budget:
        ctx.undecided(rule, W, fn, "too many undecided tests in receive")
        return
    notes = sorted({n for r in cells for n in r["notes"]})
    if notes or battr is None:
        ctx.undecided(rule, W, fn, "receive uses the buffer in a way the symbolic model does not follow: " + ("; ".join(notes[:2]) or "buffer attribute not identified"))
        return
    bad = []
    n = 0
    for r in cells:
        if not r["ups"] or not r["decodes"]:
            continue
        n += 1
        u = r["ups"][0]
        d = r["decodes"][0]
        f = r["final"]
        if f is None or u[0] != "bufobj":
            bad.append("the buffer after the failure is not followed")
            continue
        # the kept buffer must start at (or after) the end of the delivered frame: final.start - delivered.end == 0
        diff = add(f.start, u[1].end, -1)
        if diff != {}:
            # still symbolic or a constant other than 0: evaluate sign on a few assignments
            still = add(f.start, d["view"].start, -1)
            bad.append("after the failed delivery the kept buffer starts %s byte(s) after the frame start: the frame handed up is still (partly) in the buffer" % (show_lin(still) or "0"))
    if not n:
        ctx.undecided(rule, W, fn, "no delivering path class found")
        return
    ctx.check(rule, not bad, W, "a frame whose delivery raises is consumed (%d delivering path classes)" % n,
              "the element is delivered upward before it is removed from the buffer: if the delivery raises, the same element is delivered again on the next call and everything behind it is stuck (%s)" % "; ".join(sorted(set(bad))[:2]),
              "consumed before (or whatever happens after) it is delivered")
    ctx.check(rule, all(r["raised"] for r in cells if r["ups"]), W, "the failure reaches the caller", "an exception handler inside receive swallows the failure of a delivery (the loop resumes)", "no handler resumes the loop: a failure leaves it")


def sym_send(repo, n, enabled):
    """abstract execution of send for a payload of exactly n bytes -> (writes, raised)"""
    from ..absint import Interp, _Raise, flat_effects
    from ..layers import LayerRunner
    from ..symbuf import SymExt, Buf
    cls = repo.cls(FILE, CLS)
    PROP = _prop_enabled(repo)
    sym = SymExt()
    runner = LayerRunner(repo, {PROP: enabled})
    hooks = runner.hooks()

    def pack(itp, recv, a, k, env, d, e):
        if recv[1].endswith("Struct()") and recv[2] and recv[2][0][0] == "c":
            a = [x for x in a if x is not recv[2][0]]
            a = [recv[2][0]] + [x for x in a]
        if a and all(x[0] == "c" for x in a):
            try:
                return ("c", struct.pack(*[x[1] for x in a]))
            except struct.error as x:
                raise _Raise(("ext", "struct.error", []), "struct.error: %s" % x)
        return None
    hooks["ext:*.pack"] = pack
    it = Interp(repo, {}, {}, hooks=hooks)
    it.sym = sym
    it.layer_base = runner.base
    layer = runner.make_layer(it, cls)
    data = ("bufobj", Buf("D", {}, {1: n}))
    it.effects[:] = []
    raised = None
    try:
        it.method_call(layer, "send", [data], {}, {"@module": cls.module, "@owner": cls}, 0, None)
    except _Raise as r:
        raised = r.text
    return [e[1] for e in flat_effects(it.effects) if e[0] == "DOWN"], raised, data, sym.notes + it.notes


def analyse_send_sym(ctx, Hr):
    """send, abstractly executed for payload lengths at every byte-length boundary: with segmentation on the header is the
    big-endian length in exactly as many bytes as the reader consumes, written immediately before the untouched payload;
    with segmentation off only the payload is written; a payload whose length does not fit the header is refused before
    anything is written"""
    from ..absint import NeedAtom, Budget
    repo = ctx.repo
    fn = repo.method(FILE, CLS, "send")
    W = where(FILE, CLS + ".send", fn.lineno)
    H = Hr if Hr else 3
    fits = sorted({0, 1, 2, 255, 256, 257, 65535, 65536, 65537, 256 ** H - 2, 256 ** H - 1})
    toobig = sorted({256 ** H, 256 ** H + 1, 256 ** H + 255, 2 ** 31, 2 ** 32 - 1, 2 ** 32, 2 ** 32 + 5})
    bad_hdr, bad_pay, bad_guard, bad_off, unknown = [], [], [], [], None
    Hw = set()
    try:
        for n in fits + toobig:
            for enabled in (True, False):
                writes, raised, data, notes = sym_send(repo, n, enabled)
                if notes:
                    unknown = notes[0]
                    break
                if n in toobig:
                    if not raised or writes:
                        bad_guard.append("a payload of %d bytes (segmentation %s): %s" % (n, "on" if enabled else "off", "%d write(s) before/without the refusal" % len(writes) if writes else "is not refused"))
                    continue
                if raised:
                    bad_guard.append("a payload of %d bytes, which fits the header, is refused (%s)" % (n, raised[:40]))
                    continue
                pay_ok = bool(writes) and writes[-1][0] == "bufobj" and writes[-1][1] is data[1]
                if not pay_ok:
                    bad_pay.append("payload of %d bytes: last write is not the unmodified payload" % n)
                if not enabled:
                    if len(writes) != 1:
                        bad_off.append("payload of %d bytes, segmentation off: %d writes" % (n, len(writes)))
                    continue
                if len(writes) != 2 or writes[0][0] != "c" or not isinstance(writes[0][1], (bytes, bytearray)):
                    bad_hdr.append("payload of %d bytes: %d write(s), header %s" % (n, len(writes), writes[0][0] if writes else None))
                    continue
                hdr = bytes(writes[0][1])
                Hw.add(len(hdr))
                if hdr != n.to_bytes(len(hdr), "big") if 256 ** len(hdr) > n else True:
                    bad_hdr.append("payload of %d bytes gets header %s" % (n, hdr.hex()))
            if unknown:
                break
    except (NeedAtom, Budget) as x:
        unknown = "undecided test: %s" % x
    if unknown:
        ctx.undecided("C05.send", W, fn, "send could not be followed: " + unknown)
        return
    ctx.check("C05.send", not bad_hdr, W, "header = big-endian length, written first", "header must be the big-endian length of the payload truncated to its low-order bytes: " + "; ".join(bad_hdr[:2]), "header = big-endian len(payload) (%d lengths)" % len(fits))
    ctx.check("C05.send", not bad_pay, W, "payload written on every normal path, unmodified, last", "; ".join(bad_pay[:2]), "payload written on every normal path")
    ctx.units["C05.header_len_writer"] = sorted(Hw)
    ctx.check("C05.send", Hw == {H}, W, "header width %s" % sorted(Hw), "writer emits a %s-byte header but the reader consumes %d" % (sorted(Hw), H), "writer and reader agree on a %d-byte header" % H)
    ctx.check("C05.send", not bad_off, W, "header only when segmentation is enabled", "header is written although segmentation is not enabled (or not only then): " + "; ".join(bad_off[:2]), "header only when segmentation is enabled")
    ctx.check("C05.send", not bad_hdr and not bad_pay, W, "header immediately followed by its payload", "header is not immediately followed by its payload on every path", "header precedes its payload on every path")
    ctx.check("C05.send", not bad_hdr, W, "enabled path always writes the header", "with segmentation enabled a path reaches the payload write without the header", "enabled path always writes the header")
    ctx.check("C05.guard", not bad_guard, W, "payloads with len >= 256**%d are refused before any write" % H,
              "no size guard `len(data) >= 256**H -> raise` dominates the header and payload writes: " + "; ".join(bad_guard[:2]), "payloads with len >= 256**%d are refused before any write; smaller ones pass" % H)



def rule_flag_history(ctx):
    """the segmentation switch is looked up on every call: one layer object is used with the option off and then - as
    on_auth does - with the option on (and the other way round); each call must behave according to the option's value
    at that moment (a remembered first answer sends the login's frames without a length header)"""
    from ..absint import Interp, _Raise, flat_effects
    from ..layers import LayerRunner
    from ..symbuf import SymExt, Buf
    repo = ctx.repo
    cls = repo.cls(FILE, CLS)
    PROP = _prop_enabled(repo)
    fn = repo.method(FILE, CLS, "send")
    W = where(FILE, CLS + ".send", fn.lineno)
    bad, problem = [], None
    for first in (False, True):
        runner = LayerRunner(repo, {PROP: first})
        hooks = runner.hooks()
        hooks["ext:*.pack"] = lambda itp, recv, a, k, env, d, e: (("c", struct.pack(*[x[1] for x in ([recv[2][0]] if recv[1].endswith("Struct()") and recv[2] else []) + list(a)])) if all(x[0] == "c" for x in a) else None)
        it = Interp(repo, {}, {}, hooks=hooks)
        it.sym = SymExt()
        it.layer_base = runner.base
        layer = runner.make_layer(it, cls)
        counts = []
        try:
            for enabled in (first, not first, first):
                runner.props[PROP] = enabled
                it.effects[:] = []
                it.method_call(layer, "send", [("bufobj", Buf("D", {}, {1: 5}))], {}, {"@module": cls.module, "@owner": cls}, 0, None)
                n = len([e for e in flat_effects(it.effects) if e[0] == "DOWN"])
                counts.append((enabled, n))
        except _Raise as r:
            problem = r.text
            break
        except Exception as x:
            problem = "%s: %s" % (type(x).__name__, x)
            break
        for enabled, n in counts:
            if n != (2 if enabled else 1):
                bad.append("option %s at the time of the call: %d write(s) (history %s)" % ("on" if enabled else "off", n, [("on" if e else "off") for e, _n in counts]))
    if problem:
        ctx.undecided("C05.state", W, fn, "send could not be followed over a history of option values: " + problem)
    else:
        ctx.check("C05.state", not bad, W, "segmentation option looked up on every call",
                  "the segmentation switch is remembered across calls instead of being read when it matters: " + "; ".join(bad[:2]), "each call follows the option's current value")


def rule_state(ctx):
    ctx.guarded("C05.state", rule_flag_history, ctx)
    from ..state import per_instance_state
    cls = ctx.repo.cls(FILE, CLS)
    from ..state import shared_defaults
    n = per_instance_state(ctx, "C05.state", cls)
    # the enabled flag lives in the stack's property table: that table must be per stack as well
    n += per_instance_state(ctx, "C05.state", ctx.repo.cls("yowsup/stacks/yowstack.py", "YowStack"))
    ctx.units["C05.state_attrs"] = n
    shared_defaults(ctx, "C05.state", [FILE, "yowsup/stacks/yowstack.py"])


def run(ctx):
    ctx.rule("C05.indep", "decisions, deliveries and the kept buffer depend on (old unread bytes + chunk) only as a whole (symbolic execution: coefficients of L0 and C0 agree everywhere)", floor=2)
    ctx.rule("C05.peel", "one generic loop iteration, symbolically executed: single delivery, loop continues after it, incomplete frame leaves; pass-through when disabled", floor=5)
    ctx.rule("C05.arith", "size decode; delivery iff unread >= H + size; payload and remainder exact - every path class evaluated on a grid of symbol values", floor=5)
    ctx.rule("C05.send", "send abstractly executed at every byte-length boundary: header bytes, width, order, only when enabled", floor=6)
    ctx.rule("C05.guard", "oversize refused before any write", floor=1)
    ctx.rule("C05.state", "the accumulation buffer (every attribute mutated in place) is bound per instance by the constructor", floor=1)
    ctx.assume("bytearray slicing / struct big-endian semantics of CPython")
    H = ctx.guarded("C05.receive", analyse_receive_sym, ctx)
    ctx.guarded("C05.send", analyse_send_sym, ctx, H)
    ctx.guarded("C05.state", rule_state, ctx)
    # 'each length header immediately followed by its own payload' under concurrent senders: C11.hoh / C11.frame adopted
    from . import c11
    ctx.adopt_from("C11", [(c11.rule_hoh, ()), (c11.rule_once_frame, ())], {"C11.hoh": "C05.send", "C11.frame": "C05.send"})
