"""C05 - frame segmentation: any chunking of the byte stream yields the original frames.

C05.indep  the received chunk flows only into the accumulation buffer
C05.peel   frames are peeled in a loop; one delivery per iteration dominated by the completeness test
C05.arith  header / payload / remainder slice arithmetic is exact (linear-expression equality)
C05.send   header = big-endian length truncated to H bytes, written right before the payload, only when enabled
C05.guard  oversize payloads are refused on a path dominating both writes
C05.state  attributes the layer mutates in place (the accumulation buffer) are bound per instance by the constructor
"""
import ast
import struct

from ..cfg import CFG, edge_region, calls_in, fmt_path, walk_no_nested
from ..consts import Evaluator, alts
from ..deps import Deps, node_exprs
from .. import linear
from ..report import where
from ..repo import unparse, is_self_attr, params_of, AnalysisError

FILE = "yowsup/layers/noise/layer_noise_segments.py"
CLS = "YowNoiseSegmentsLayer"


def cval(ev, e):
    a = alts(ev.ev(e))
    if a is not None and len(a) == 1:
        return True, a[0]
    return False, None


def find_enabled_test(ctx, g, ev, cls):
    """-> (test node, edge kind that means 'segmentation enabled')"""
    ok, prop = cval(ev, ast.parse("self.PROP_ENABLED", mode="eval").body)
    found = []
    for n in g.live:
        if n.kind != "test" or not isinstance(n.stmt, ast.If):
            continue
        t = n.stmt.test
        neg = False
        while isinstance(t, ast.UnaryOp) and isinstance(t.op, ast.Not):
            neg = not neg
            t = t.operand
        if isinstance(t, ast.Call) and isinstance(t.func, ast.Attribute) and t.func.attr == "getProp" and t.args:
            k, v = cval(ev, t.args[0])
            if k and ok and v == prop:
                # default must be falsy or absent so that "unset" means disabled, as in the reader
                found.append((n, "false" if neg else "true"))
    return found


def is_len_of(e, text):
    return (isinstance(e, ast.Call) and isinstance(e.func, ast.Name) and e.func.id == "len"
            and len(e.args) == 1 and unparse(e.args[0]) == text)


def single_assign(nodes, name):
    """the unique `name = value` among nodes"""
    vals = []
    for n in nodes:
        s = n.stmt
        if n.kind == "stmt" and isinstance(s, ast.Assign):
            for t in s.targets:
                if isinstance(t, ast.Name) and t.id == name:
                    vals.append((n, s.value))
    return vals


def strip_wrappers(e):
    """bytes(x) / bytearray(x) -> x"""
    while isinstance(e, ast.Call) and isinstance(e.func, ast.Name) and e.func.id in ("bytes", "bytearray") and len(e.args) == 1:
        e = e.args[0]
    return e


def analyse_receive(ctx):
    repo = ctx.repo
    cls = repo.cls(FILE, CLS)
    fn = repo.method(FILE, CLS, "receive")
    from ..repo import inline_self_aliases, inline_arith_temps
    fn, _aliases = inline_self_aliases(fn)
    fn = inline_arith_temps(fn)
    W = lambda n=None: where(FILE, CLS + ".receive", getattr(n, "line", None) if n is not None else fn.lineno)
    ev = Evaluator(repo, cls.module, cls)
    g = CFG(fn)
    d = Deps(g)
    ps = params_of(fn)
    if len(ps) != 1:
        ctx.undecided("C05.indep", W(), fn, "receive does not take exactly one chunk parameter")
        return None
    P = ps[0]
    tests = find_enabled_test(ctx, g, ev, cls)
    if len(tests) != 1:
        ctx.undecided("C05.indep", W(), fn, "expected exactly one test of PROP_ENABLED, found %d" % len(tests))
        return None
    test, kind = tests[0]
    region = edge_region(g, test, kind)
    other = edge_region(g, test, "false" if kind == "true" else "true")
    # ---- buffer attribute: self.B.extend(P)
    B = None
    for n in region:
        for c in calls_in(n, "extend"):
            if isinstance(c.func.value, ast.Attribute) and is_self_attr(c.func.value) and len(c.args) == 1 \
                    and isinstance(c.args[0], ast.Name) and c.args[0].id == P:
                B = c.func.value.attr
    if B is None:
        ctx.violate("C05.indep", W(test), test.stmt, "enabled branch never appends the chunk to an accumulation buffer (self.<buf>.extend(%s))" % P)
        return None
    Btxt = "self." + B
    # ---- C05.indep: every use of the chunk (param definition reaching) in the enabled region is the extend argument
    uses = 0
    for n in region:
        st = d.at(n)
        if ("param", P) not in st.get(P, ()):
            continue
        for e in node_exprs(n):
            allowed = set()
            for c in walk_no_nested(e):
                if isinstance(c, ast.Call) and isinstance(c.func, ast.Attribute) and c.func.attr == "extend" \
                        and unparse(c.func.value) == Btxt and len(c.args) == 1:
                    allowed.add(id(c.args[0]))
            for x in walk_no_nested(e):
                if isinstance(x, ast.Name) and x.id == P and isinstance(x.ctx, ast.Load):
                    uses += 1
                    if id(x) in allowed:
                        ctx.hold("C05.indep", W(n), n.stmt, "chunk only appended to %s" % Btxt)
                    else:
                        ctx.violate("C05.indep", W(n), n.stmt,
                                    "the received chunk `%s` is read directly in the segmentation-enabled branch (output would depend on the chunking); only %s.extend(%s) may use it" % (P, Btxt, P))
    # every decision / delivery in the region reads the buffer (no other attribute state, no param)
    for n in region:
        if n.kind in ("test", "loop"):
            src = d.expr_sources(n, node_exprs(n)[0])
            bad = [s for s in src if s[0] == "param" or (s[0] == "attr" and s[1] != B and repo.class_const(cls, s[1])[1] is None)]
            ctx.check("C05.indep", not bad, W(n), n.stmt,
                      "decision in the enabled branch depends on %s, not only on the accumulated buffer" % (bad,),
                      "decision reads only %s" % Btxt)
    # ---- deliveries
    ups = [n for n in region if calls_in(n, "toUpper", selfonly=True)]
    loops = [n for n in region if n.kind == "test" and isinstance(n.stmt, ast.While)]
    if len(loops) != 1:
        ctx.violate("C05.peel", W(test), test.stmt, "enabled branch has %d while-loops; frames must be peeled in one loop (coalesced frames would be held back)" % len(loops))
        return None
    loop = loops[0]
    body = edge_region(g, loop, "true")
    body_ids = {n.id for n in body}
    if len(ups) != 1 or ups[0].id not in body_ids:
        ctx.violate("C05.peel", W(loop), loop.stmt, "expected exactly one toUpper inside the peel loop, found %d in the enabled branch" % len(ups))
        return None
    up = ups[0]
    # optional read cursor: a local initialised to 0 before the loop and advanced inside it; the logical buffer is then
    # self.B[cursor:] and every expectation below is shifted by it
    cursor = None
    for n in body:
        s = n.stmt
        tgt = None
        if n.kind == "stmt" and isinstance(s, ast.AugAssign) and isinstance(s.op, ast.Add) and isinstance(s.target, ast.Name):
            tgt = s.target.id
        elif n.kind == "stmt" and isinstance(s, ast.Assign) and len(s.targets) == 1 and isinstance(s.targets[0], ast.Name) \
                and any(isinstance(x, ast.Name) and x.id == s.targets[0].id for x in ast.walk(s.value)):
            tgt = s.targets[0].id          # c = c + E
        if tgt is not None:
            init = [m for m in region if m.id not in body_ids and m.kind == "stmt" and isinstance(m.stmt, ast.Assign) and len(m.stmt.targets) == 1
                    and isinstance(m.stmt.targets[0], ast.Name) and m.stmt.targets[0].id == tgt and cval(ev, m.stmt.value) == (True, 0)]
            if init:
                cursor = (tgt, n, init[0])
    base = {cursor[0]: 1} if cursor else {}

    def shifted(d):
        return linear._add(d, base, 1)
    # header size H: slice self.B[base:base+H] feeding struct.unpack
    H = None
    size_var = None
    fmt_ok = None
    for n in body:
        s = n.stmt
        if n.kind == "stmt" and isinstance(s, ast.Assign) and len(s.targets) == 1 and isinstance(s.targets[0], ast.Name):
            for c in walk_no_nested(s.value):
                if isinstance(c, ast.Call) and isinstance(c.func, ast.Attribute) and c.func.attr == "unpack" and len(c.args) == 2:
                    size_var = s.targets[0].id
                    okf, fmt = cval(ev, c.args[0])
                    arg = c.args[1]
                    pad = b""
                    sl = arg
                    if isinstance(arg, ast.BinOp) and isinstance(arg.op, ast.Add):
                        okp, pad = cval(ev, arg.left)
                        sl = arg.right
                        if not okp:
                            pad = None
                    sl = strip_wrappers(sl)
                    lo_off = None
                    if isinstance(sl, ast.Subscript) and unparse(sl.value) == Btxt and isinstance(sl.slice, ast.Slice) \
                            and sl.slice.step is None and sl.slice.upper is not None:
                        lo_l = linear.lin(sl.slice.lower, ev) if sl.slice.lower is not None else {1: 0}
                        hi_l = linear.lin(sl.slice.upper, ev)
                        if lo_l is not None and hi_l is not None:
                            lo_off = linear.const_of(linear._add(lo_l, base, -1))
                            hi_off = linear.const_of(linear._add(hi_l, base, -1))
                            if lo_off is not None and hi_off is not None:
                                H = hi_off
                    # the result must be indexed [0]
                    idx_ok = isinstance(s.value, ast.Subscript) and cval(ev, s.value.slice) == (True, 0)
                    if okf and isinstance(fmt, str) and pad is not None and H is not None:
                        try:
                            size = struct.calcsize(fmt)
                        except struct.error:
                            size = None
                        big = fmt[:1] in (">", "!")
                        unsigned = fmt[1:] in ("I", "L", "H", "Q", "B")
                        zero = isinstance(pad, (bytes, bytearray)) and all(b == 0 for b in pad)
                        fmt_ok = (big and unsigned and zero and lo_off == 0 and size == len(pad) + H and idx_ok and len(fmt) == 2)
                        ctx.check("C05.arith", fmt_ok, W(n), n.stmt,
                                  "size is not decoded as a big-endian unsigned integer from exactly the first %s bytes of the unread buffer (bytes [%s:%s], format %r, pad %r, calcsize %s): header bytes are ignored or misread" % (H, lo_off, H, fmt, pad, size),
                                  "size = big-endian unsigned from the first %d unread bytes (format %r, %d zero pad byte(s))" % (H, fmt, len(pad)))
    if H is None or size_var is None:
        ctx.undecided("C05.arith", W(loop), loop.stmt, "could not find `size = struct.unpack(fmt, pad + %s[:H])[0]` in the peel loop" % Btxt)
        return None
    ctx.units["C05.header_len_reader"] = H
    lenB = "len(%s)" % Btxt
    # ---- loop test: len(B) > c with H-1 <= c <= H
    cn = linear.cmp_normal(loop.stmt.test, ev)
    okloop = None
    if cn is not None:
        l, op = cn
        rest = {k: v for k, v in l.items() if k not in (1,)}
        if linear.norm(rest) == linear.norm(linear._add({lenB: 1}, base, -1)) and op in (">", ">="):
            c = -l.get(1, 0)
            if op == ">=":
                c -= 1
            okloop = (H - 1 <= c <= H)
            what = "loop continues while %s > %d" % (lenB, c)
    ctx.check("C05.peel", okloop, W(loop), loop.stmt,
              "loop condition must hold whenever a complete minimal frame (%d+1 bytes) is unread in the buffer and guarantee %d header bytes: need (unread length) > c with %d <= c <= %d" % (H, H, H - 1, H),
              what if okloop else "")
    # ---- completeness test dominating the delivery
    comp = None
    for n in body:
        if n.kind == "test" and isinstance(n.stmt, ast.If):
            cn = linear.cmp_normal(n.stmt.test, ev)
            if cn is None:
                continue
            l, op = cn
            if lenB in l or size_var in l:
                comp = (n, l, op)
                pos = True
                for kind2 in ("true", "false"):
                    reg2 = {x.id for x in edge_region(g, n, kind2)}
                    if up.id in reg2:
                        # normalise to the branch on which the delivery lies
                        want = linear._add({lenB: 1, size_var: -1, 1: -H}, base, -1)
                        if kind2 == "true":
                            good = (op == ">=" and linear.norm(l) == linear.norm(want)) or \
                                   (op == ">" and linear.norm(l) == linear.norm(linear._add(want, {1: 1}, 1)))
                        else:
                            # delivery on the false edge of  (H+size) > len  i.e. not(len < H+size)
                            neg = {k: -v for k, v in l.items()}
                            good = (op == ">" and linear.norm(neg) == linear.norm(want))
                        ctx.check("C05.arith", good, W(n), n.stmt,
                                  "completeness test must be (unread length = %s%s) >= %d + %s exactly (a complete frame would be held back or an incomplete one delivered)" % (lenB, " - " + cursor[0] if cursor else "", H, size_var),
                                  "delivery guarded by %s >= %d + %s" % (lenB, H, size_var))
                        ctx.hold("C05.peel", W(up), up.stmt, "single delivery dominated by the completeness test")
                        # the other branch leaves the loop without reaching the loop test again
                        okind = "false" if kind2 == "true" else "true"
                        tgt = [m for (m, k) in n.succ if k == okind]
                        back = g.path(n, lambda x: x is loop, edge_ok=lambda a, b, k, n=n, okind=okind: not (a is n and k != okind))
                        ctx.check("C05.peel", back is None, W(n), n.stmt,
                                  "incomplete-frame branch loops back without new data: " + fmt_path(back),
                                  "incomplete frame leaves the loop")
                        break
                else:
                    ctx.violate("C05.peel", W(up), up.stmt, "the delivery is not dominated by the completeness test")
    if comp is None:
        ctx.violate("C05.peel", W(up), up.stmt, "no completeness test (len(buffer) >= header + size) guards the delivery")
        return H
    # delivery continues the loop (coalesced frames all delivered)
    cont = g.path(up, lambda x: x is loop)
    ctx.check("C05.peel", cont is not None, W(up), up.stmt,
              "after a delivery the loop is left: further complete frames in the buffer are held back", "loop continues after a delivery")
    # ---- payload and remainder slices
    call = calls_in(up, "toUpper", selfonly=True)[0]
    arg = strip_wrappers(call.args[0]) if call.args else None
    if isinstance(arg, ast.Name):
        defs = single_assign(body, arg.id)
        arg = strip_wrappers(defs[0][1]) if len(defs) == 1 else None
    okp = None
    if isinstance(arg, ast.Subscript) and unparse(arg.value) == Btxt and isinstance(arg.slice, ast.Slice) and arg.slice.step is None:
        lo = linear.lin(arg.slice.lower, ev) if arg.slice.lower is not None else {1: 0}
        hi = linear.lin(arg.slice.upper, ev) if arg.slice.upper is not None else None
        okp = linear.equal(lo, shifted({1: H})) and linear.equal(hi, shifted({1: H, size_var: 1}))
    ctx.check("C05.arith", okp, W(up), up.stmt,
              "delivered payload must be %s[%d:%d+%s]" % (Btxt, H, H, size_var), "payload = %s[%d:%d+%s]" % (Btxt, H, H, size_var))
    if cursor is not None:
        cname, adv, init = cursor
        advl = linear.lin(adv.stmt.value, ev)
        if isinstance(adv.stmt, ast.Assign) and advl is not None:
            advl = linear._add(advl, {cname: 1}, -1)
        okadv = linear.equal(advl, {1: H, size_var: 1})
        ctx.check("C05.arith", okadv, W(adv), adv.stmt, "the read cursor must advance by exactly %d + %s per delivered frame" % (H, size_var), "cursor += %d + %s" % (H, size_var))
        on_deliver_path = g.path(up, lambda x: x is loop, avoid=[adv]) is None or g.path(adv, lambda x: x is up) is not None
        ctx.check("C05.peel", on_deliver_path, W(adv), adv.stmt,
                  "a path delivers a frame and returns to the loop test without advancing the cursor (duplicate delivery)", "cursor advanced on the delivery path")
        # after the loop, on every path to the exit, the consumed prefix is cut off the buffer (and only there)
        cuts = []
        for n in region:
            if n.id in body_ids or n.kind != "stmt":
                continue
            st = n.stmt
            if isinstance(st, ast.Delete) and len(st.targets) == 1 and isinstance(st.targets[0], ast.Subscript) and unparse(st.targets[0].value) == Btxt \
                    and isinstance(st.targets[0].slice, ast.Slice) and st.targets[0].slice.step is None:
                sl = st.targets[0].slice
                lo = linear.lin(sl.lower, ev) if sl.lower is not None else {1: 0}
                if linear.equal(lo, {1: 0}) and sl.upper is not None and linear.equal(linear.lin(sl.upper, ev), {cname: 1}):
                    cuts.append(n)
            elif isinstance(st, ast.Assign) and any(unparse(t) == Btxt for t in st.targets):
                v = strip_wrappers(st.value)
                if isinstance(v, ast.Subscript) and unparse(v.value) == Btxt and isinstance(v.slice, ast.Slice) and v.slice.upper is None and v.slice.step is None \
                        and v.slice.lower is not None and linear.equal(linear.lin(v.slice.lower, ev), {cname: 1}):
                    cuts.append(n)
        inbody_cut = [n for n in body if n.kind == "stmt" and ((isinstance(n.stmt, ast.Assign) and any(unparse(t) == Btxt for t in n.stmt.targets)) or
                                                                (isinstance(n.stmt, ast.Delete) and any(isinstance(t, ast.Subscript) and unparse(t.value) == Btxt for t in n.stmt.targets)))]
        okcut = len(cuts) == 1 and not inbody_cut
        if okcut:
            ok2, pth = g.must_pass(init, [cuts[0]], [g.exit], edge_ok=None)
            okcut = bool(ok2)
        ctx.check("C05.arith", okcut, W(cuts[0] if cuts else loop), cuts[0].stmt if cuts else loop.stmt,
                  "with a read cursor the consumed prefix %s[:%s] must be cut off exactly once after the loop on every path (found %d cut(s) after, %d inside the loop)" % (Btxt, cname, len(cuts), len(inbody_cut)),
                  "consumed prefix cut off once after the loop")
    else:
        rem = []
        for n in body:
            s = n.stmt
            if n.kind == "stmt" and isinstance(s, ast.Assign) and any(unparse(t) == Btxt for t in s.targets):
                rem.append(n)
            elif n.kind == "stmt" and isinstance(s, ast.Delete) and any(isinstance(t, ast.Subscript) and unparse(t.value) == Btxt for t in s.targets):
                rem.append(n)
        okr = None
        if len(rem) == 1:
            s = rem[0].stmt
            if isinstance(s, ast.Assign):
                v = strip_wrappers(s.value)
                if isinstance(v, ast.Subscript) and unparse(v.value) == Btxt and isinstance(v.slice, ast.Slice) and v.slice.upper is None and v.slice.step is None:
                    okr = linear.equal(linear.lin(v.slice.lower, ev), {1: H, size_var: 1})
                else:
                    okr = False
            else:
                t = s.targets[0]
                if isinstance(t.slice, ast.Slice) and t.slice.step is None:
                    lo = linear.lin(t.slice.lower, ev) if t.slice.lower is not None else {1: 0}
                    okr = linear.equal(lo, {1: 0}) and linear.equal(linear.lin(t.slice.upper, ev), {1: H, size_var: 1})
            ctx.check("C05.arith", okr, W(rem[0]), rem[0].stmt,
                      "remainder must be %s[%d+%s:]" % (Btxt, H, size_var), "remainder = %s[%d+%s:]" % (Btxt, H, size_var))
            # the remainder update lies on every path from the delivery branch back to the loop test,
            # and the payload is taken before the buffer is cut
            ok, p = g.must_pass(comp[0], [rem[0]], [loop], edge_ok=lambda a, b, k: not (a is comp[0] and (b.id not in body_ids)))
            on_deliver_path = g.path(up, lambda x: x is loop, avoid=[rem[0]]) is None or g.path(rem[0], lambda x: x is up) is not None
            ctx.check("C05.peel", on_deliver_path, W(rem[0]), rem[0].stmt,
                      "a path delivers a frame and returns to the loop test without removing it from the buffer (duplicate delivery)", "frame removed from the buffer on the delivery path")
        else:
            ctx.violate("C05.arith", W(loop), loop.stmt, "expected exactly one statement that cuts the delivered frame off %s, found %d" % (Btxt, len(rem)))
    # ---- pass-through branch
    pups = [n for n in other if calls_in(n, "toUpper", selfonly=True)]
    ok = len(pups) == 1 and len(calls_in(pups[0], "toUpper")[0].args) == 1 and isinstance(calls_in(pups[0], "toUpper")[0].args[0], ast.Name) \
        and calls_in(pups[0], "toUpper")[0].args[0].id == P
    ctx.check("C05.peel", ok, W(test), "disabled branch: " + (unparse(pups[0].stmt) if pups else "<none>"),
              "with segmentation disabled the chunk must be passed up unchanged exactly once", "disabled branch passes the chunk through")
    return H


def analyse_send(ctx, Hr):
    repo = ctx.repo
    cls = repo.cls(FILE, CLS)
    fn = repo.method(FILE, CLS, "send")
    ev = Evaluator(repo, cls.module, cls)
    g = CFG(fn)
    W = lambda n=None: where(FILE, CLS + ".send", getattr(n, "line", None) if n is not None else fn.lineno)
    ps = params_of(fn)
    if len(ps) != 1:
        ctx.undecided("C05.send", W(), fn, "send does not take exactly one parameter")
        return
    P = ps[0]
    d = Deps(g)
    tests = find_enabled_test(ctx, g, ev, cls)
    if len(tests) != 1:
        ctx.undecided("C05.send", W(), fn, "expected exactly one test of PROP_ENABLED in send, found %d" % len(tests))
        return
    test, kind = tests[0]
    region = {n.id for n in edge_region(g, test, kind)}
    lows = [n for n in g.live if calls_in(n, "toLower", selfonly=True)]
    header, payload = [], []
    for n in lows:
        c = calls_in(n, "toLower", selfonly=True)[0]
        a = c.args[0] if c.args else None
        if isinstance(a, ast.Name) and a.id == P and ("param", P) in d.at(n).get(P, ()) and len(d.at(n).get(P, ())) == 1:
            payload.append(n)
        else:
            header.append((n, a))
    if len(payload) != 1:
        ctx.violate("C05.send", W(), fn, "expected exactly one write of the unmodified payload, found %d" % len(payload))
        return
    pay = payload[0]
    okp, p = g.must_pass(g.entry, [pay], [g.exit])
    ctx.check("C05.send", okp, W(pay), pay.stmt, "a normal path returns without writing the payload: " + fmt_path(p), "payload written on every normal path")
    if len(header) != 1:
        ctx.violate("C05.send", W(), fn, "expected exactly one header write, found %d" % len(header))
        return
    hn, harg = header[0]
    Hw = None
    okh = None
    # struct.pack(FMT, len(P))[k:]
    if isinstance(harg, ast.Subscript) and isinstance(harg.slice, ast.Slice) and harg.slice.upper is None and harg.slice.step is None \
            and isinstance(harg.value, ast.Call) and isinstance(harg.value.func, ast.Attribute) and harg.value.func.attr == "pack" \
            and len(harg.value.args) == 2:
        okf, fmt = cval(ev, harg.value.args[0])
        okk, k = cval(ev, harg.slice.lower) if harg.slice.lower is not None else (True, 0)
        if okf and okk and isinstance(fmt, str) and isinstance(k, int):
            try:
                size = struct.calcsize(fmt)
            except struct.error:
                size = None
            if size is not None:
                Hw = size - k
                okh = fmt[:1] in (">", "!") and fmt[1:] in ("I", "L", "Q", "H") and 0 <= k < size and is_len_of(harg.value.args[1], P)
    elif isinstance(harg, ast.Call) and isinstance(harg.func, ast.Attribute) and harg.func.attr == "to_bytes" and len(harg.args) >= 2:
        okn, nbytes = cval(ev, harg.args[0])
        oke, endian = cval(ev, harg.args[1])
        if okn and oke:
            Hw = nbytes
            okh = endian == "big" and is_len_of(harg.func.value, P)
    ctx.check("C05.send", okh, W(hn), hn.stmt,
              "header must be the big-endian length of the payload truncated to its low-order bytes", "header = big-endian len(%s), %s byte(s)" % (P, Hw))
    ctx.units["C05.header_len_writer"] = Hw
    if Hw is not None and Hr is not None:
        ctx.check("C05.send", Hw == Hr, W(hn), hn.stmt,
                  "writer emits a %d-byte header but the reader consumes %d" % (Hw, Hr), "writer and reader agree on a %d-byte header" % Hw)
    ctx.check("C05.send", hn.id in region, W(hn), hn.stmt,
              "header is written although segmentation is not enabled (or not only then)", "header only when segmentation is enabled")
    # order: header, then payload, nothing written in between, payload not before header
    after, p1 = g.must_pass(hn, [pay], [g.exit])
    before = g.path(pay, lambda x: x is hn)
    ctx.check("C05.send", after and before is None, W(hn), hn.stmt,
              "header is not immediately followed by its payload on every path (%s)" % fmt_path(p1 or before), "header precedes its payload on every path")
    # every enabled path writes the header before the payload
    skip = g.path(test, lambda x: x is pay, avoid=[hn], edge_ok=lambda a, b, k: not (a is test and k != kind))
    ctx.check("C05.send", skip is None, W(test), test.stmt,
              "with segmentation enabled a path reaches the payload write without the header: " + fmt_path(skip), "enabled path always writes the header")
    # ---- guard
    Hh = Hw if Hw is not None else Hr
    guards = []
    for n in g.live:
        if n.kind == "test" and isinstance(n.stmt, ast.If):
            cn = linear.cmp_normal(n.stmt.test, ev)
            if cn is None:
                continue
            l, op = cn
            lenP = "len(%s)" % P
            if {k: v for k, v in l.items() if k != 1} == {lenP: 1} and op in (">", ">="):
                N = -l.get(1, 0) + (1 if op == ">" else 0)   # refuse when len >= N
                guards.append((n, N))
    good = False
    for n, N in guards:
        # true edge must end in raise without writing; false edge must dominate both writes
        reach_write = g.path(n, lambda x: x in (hn, pay), edge_ok=lambda a, b, k, n=n: not (a is n and k != "true"))
        reach_exit = g.path(n, lambda x: x is g.exit, edge_ok=lambda a, b, k, n=n: not (a is n and k != "true"))
        dom = g.path(g.entry, lambda x: x in (hn, pay), edge_ok=lambda a, b, k, n=n: not (a is n and k == "false"))
        refuses = reach_write is None and reach_exit is None
        if Hh is not None:
            if refuses and dom is None and N == 256 ** Hh:
                good = True
                ctx.hold("C05.guard", W(n), n.stmt, "payloads with len >= 256**%d are refused before any write" % Hh)
            elif refuses and dom is None:
                ctx.violate("C05.guard", W(n), n.stmt,
                            "size guard refuses len >= %d but the %d-byte header holds lengths < %d (%s)" % (
                                N, Hh, 256 ** Hh, "oversize payloads would be truncated" if N > 256 ** Hh else "payloads that fit are refused"))
                good = True
    if not good:
        ctx.violate("C05.guard", W(), fn, "no size guard `len(%s) >= 256**H -> raise` dominates the header and payload writes" % P)


def rule_state(ctx):
    from ..state import per_instance_state
    cls = ctx.repo.cls(FILE, CLS)
    from ..state import shared_defaults
    n = per_instance_state(ctx, "C05.state", cls)
    # the enabled flag lives in the stack's property table: that table must be per stack as well
    n += per_instance_state(ctx, "C05.state", ctx.repo.cls("yowsup/stacks/yowstack.py", "YowStack"))
    ctx.units["C05.state_attrs"] = n
    shared_defaults(ctx, "C05.state", [FILE, "yowsup/stacks/yowstack.py"])


def run(ctx):
    ctx.rule("C05.indep", "chunk parameter flows only into the accumulation buffer; decisions read the buffer", floor=3)
    ctx.rule("C05.peel", "peel loop shape: single dominated delivery, loop continues, incomplete frame leaves", floor=5)
    ctx.rule("C05.arith", "size decode, completeness test, payload and remainder slices are exact", floor=4)
    ctx.rule("C05.send", "header format/width/order/conditions", floor=6)
    ctx.rule("C05.guard", "oversize refused before any write", floor=1)
    ctx.rule("C05.state", "the accumulation buffer (every attribute mutated in place) is bound per instance by the constructor", floor=1)
    ctx.assume("bytearray slicing / struct big-endian semantics of CPython")
    H = ctx.guarded("C05.receive", analyse_receive, ctx)
    ctx.guarded("C05.send", analyse_send, ctx, H)
    ctx.guarded("C05.state", rule_state, ctx)
    # 'each length header immediately followed by its own payload' under concurrent senders: C11.hoh / C11.frame adopted
    from . import c11
    ctx.adopt_from("C11", [(c11.rule_hoh, ()), (c11.rule_once_frame, ())], {"C11.hoh": "C05.send", "C11.frame": "C05.send"})
