"""C10 - message payload mapping: the hand-written converter is a bijection on the modelled fields.

C10.bij   X_to_proto / proto_to_X composed through the attribute class constructor is the identity on attributes
C10.desc  every proto field named exists in the descriptor of its message type (from the pb2 module AST)
C10.has   in `v if proto.HasField(S) else d`, v reads field S; forward guards test the attribute they assign
C10.top   the top-level payload kinds map 1:1 in both directions, constructor order respected
C10.ser   the payload-carrying entity serialises message_to_protobytes(current attributes) on every path and parses the <proto> data
C10.acc   media entity accessors address the attribute object the constructor populated
"""
import ast

from ..report import where
from ..repo import unparse, is_self_attr, params_of

CONV = "yowsup/layers/protocol_messages/protocolentities/attributes/converter.py"
E2E = "yowsup/layers/protocol_messages/proto/e2e_pb2.py"
PROTO = "yowsup/layers/protocol_messages/proto/protocol_pb2.py"
ATTR_DIR = "yowsup/layers/protocol_messages/protocolentities/attributes/"
MEDIA_DIR = "yowsup/layers/protocol_media/protocolentities/"


# ------------------------------------------------------------------ descriptors from the generated modules
def parse_descriptors(ctx):
    """-> {full_name: {field: message type full_name or None}} , var -> full_name"""
    descs, var2name, links = {}, {}, []
    for rel in (PROTO, E2E):
        m = ctx.repo.module(rel)
        for s in m.tree.body:
            if isinstance(s, ast.Assign) and isinstance(s.value, ast.Call) and unparse(s.value.func) == "_descriptor.Descriptor" and isinstance(s.targets[0], ast.Name):
                kw = {k.arg: k.value for k in s.value.keywords}
                full = kw["full_name"].value if isinstance(kw.get("full_name"), ast.Constant) else None
                fields = {}
                if isinstance(kw.get("fields"), ast.List):
                    for f in kw["fields"].elts:
                        if isinstance(f, ast.Call):
                            fk = {k.arg: k.value for k in f.keywords}
                            if isinstance(fk.get("name"), ast.Constant):
                                lab = fk.get("label")
                                fields[fk["name"].value] = {"msg": None, "label": lab.value if isinstance(lab, ast.Constant) else None}
                if full is not None:
                    descs[full] = fields
                    var2name[s.targets[0].id] = full
            elif isinstance(s, ast.Assign) and isinstance(s.targets[0], ast.Attribute) and s.targets[0].attr == "message_type":
                t = s.targets[0].value      # _X.fields_by_name['f']
                if isinstance(t, ast.Subscript) and isinstance(t.value, ast.Attribute) and t.value.attr == "fields_by_name":
                    owner = unparse(t.value.value)
                    fld = t.slice.value if isinstance(t.slice, ast.Constant) else None
                    target = unparse(s.value).split(".")[-1]
                    links.append((owner, fld, target))
    for owner, fld, target in links:
        o, t = var2name.get(owner), var2name.get(target)
        if o and fld in descs.get(o, {}):
            descs[o][fld]["msg"] = t
    return descs


def type_of_ctor(expr):
    """Message.ImageMessage() -> 'Message.ImageMessage' ; ContextInfo() -> 'ContextInfo'"""
    if isinstance(expr, ast.Call) and not expr.args and not expr.keywords:
        return unparse(expr.func)
    return None


# ------------------------------------------------------------------ converter model
class Conv:
    def __init__(self, ctx):
        self.ctx = ctx
        self.repo = ctx.repo
        self.cls = ctx.repo.cls(CONV, "AttributesConverter")
        self.mod = self.cls.module
        self.descs = parse_descriptors(ctx)
        self.fwd = {}
        self.rev = {}
        from ..normalize import normalize_method
        for name, fn in self.cls.methods.items():
            if name.endswith("_to_proto") or name.startswith("proto_to_"):
                # table-driven loops, getattr/setattr by name, extracted helpers and single-use temporaries are undone first
                fn = normalize_method(self.repo, self.cls, fn)
            if name.endswith("_to_proto"):
                self.fwd[name[:-len("_to_proto")]] = fn
            elif name.startswith("proto_to_"):
                self.rev[name[len("proto_to_"):]] = fn
        self.guard_kind = {}   # id(forward statement) -> ("presence" | "truth" | "other", test) of the `if` directly around it
        self.excluded_by = {}  # id(forward statement) -> attributes whose guard must have failed for the statement to run
        self.ptypes_fwd = {}   # kind -> set of proto type names of the object being filled
        self.ptypes_rev = {}   # kind -> set of proto type names of the `proto` parameter
        self._types()

    # --- proto types by propagation over the converter's own call sites
    def _types(self):
        for kind, fn in self.fwd.items():
            for n in ast.walk(fn):
                if isinstance(n, ast.Assign) and isinstance(n.targets[0], ast.Name):
                    t = type_of_ctor(n.value)
                    if t in self.descs:
                        self.ptypes_fwd.setdefault(kind, set()).add(t)
        changed = True
        while changed:
            changed = False
            for kind, fn in self.fwd.items():
                for c in ast.walk(fn):
                    if isinstance(c, ast.Call) and is_self_attr(c.func) and c.func.attr.endswith("_to_proto") and len(c.args) == 2:
                        callee = c.func.attr[:-len("_to_proto")]
                        src = self.ptypes_fwd.get(kind, set())
                        dst = self.ptypes_fwd.setdefault(callee, set())
                        if not src <= dst:
                            dst |= src
                            changed = True
        # reverse: roots
        self.ptypes_rev["message"] = {"Message"}
        changed = True
        while changed:
            changed = False
            for kind, fn in self.rev.items():
                p = params_of(fn)[0] if params_of(fn) else None
                for c in ast.walk(fn):
                    if isinstance(c, ast.Call) and is_self_attr(c.func) and c.func.attr.startswith("proto_to_") and len(c.args) == 1:
                        callee = c.func.attr[len("proto_to_"):]
                        a = c.args[0]
                        new = set()
                        if isinstance(a, ast.Name) and a.id == p:
                            new = set(self.ptypes_rev.get(kind, set()))
                        elif isinstance(a, ast.Attribute) and isinstance(a.value, ast.Name) and a.value.id == p:
                            for t in self.ptypes_rev.get(kind, set()):
                                f = self.descs.get(t, {}).get(a.attr)
                                if f and f["msg"]:
                                    new.add(f["msg"])
                        dst = self.ptypes_rev.setdefault(callee, set())
                        if not new <= dst:
                            dst |= new
                            changed = True

    # --- forward side
    def forward(self, kind):
        """-> (A param, P name, entries [(p, a, stmt, guard attr or None, nested kind or None)], chains [(callee kind, a)])"""
        fn = self.fwd[kind]
        ps = params_of(fn)
        A = ps[0]
        P = ps[1] if len(ps) > 1 else None
        for n in ast.walk(fn):
            if isinstance(n, ast.Assign) and isinstance(n.targets[0], ast.Name) and type_of_ctor(n.value) in self.descs:
                P = n.targets[0].id
        entries, chains = [], []

        def attr_of(e):
            """a for `A.a` occurring in e (single), else None"""
            found = [n.attr for n in ast.walk(e) if isinstance(n, ast.Attribute) and isinstance(n.value, ast.Name) and n.value.id == A]
            return found[0] if len(set(found)) == 1 else None

        def walk(stmts, guard, neg=()):
            for s in stmts:
                if isinstance(s, (ast.Assign, ast.Expr, ast.Return)):
                    self.excluded_by[id(s)] = neg
                if isinstance(s, ast.If):
                    t_ = s.test
                    kind_ = "other"
                    if isinstance(t_, (ast.Attribute, ast.Name)):
                        kind_ = "truth"
                    elif any(isinstance(c_, ast.Compare) and len(c_.ops) == 1 and isinstance(c_.ops[0], ast.IsNot) and isinstance(c_.comparators[0], ast.Constant) and c_.comparators[0].value is None
                             for c_ in ast.walk(t_)):
                        kind_ = "presence"
                    for b_ in s.body:
                        self.guard_kind[id(b_)] = (kind_, t_)
                    walk(s.body, attr_of(s.test), neg)
                    walk(s.orelse, guard, neg + ((attr_of(s.test) or unparse(s.test)),))
                elif isinstance(s, ast.Assign) and len(s.targets) == 1:
                    t = s.targets[0]
                    if isinstance(t, ast.Subscript):
                        t = t.value
                    if isinstance(t, ast.Attribute) and isinstance(t.value, ast.Name) and t.value.id == P:
                        entries.append((t.attr, attr_of(s.value), s, guard, None))
                elif isinstance(s, ast.Expr) and isinstance(s.value, ast.Call) and isinstance(s.value.func, ast.Attribute) and s.value.func.attr in ("MergeFrom", "CopyFrom"):
                    t = s.value.func.value
                    if isinstance(t, ast.Attribute) and isinstance(t.value, ast.Name) and t.value.id == P and s.value.args:
                        inner = s.value.args[0]
                        nested = None
                        if isinstance(inner, ast.Call) and is_self_attr(inner.func) and inner.func.attr.endswith("_to_proto"):
                            nested = inner.func.attr[:-len("_to_proto")]
                        entries.append((t.attr, attr_of(inner), s, guard, nested))
                elif isinstance(s, ast.Return) and isinstance(s.value, ast.Call) and is_self_attr(s.value.func) and s.value.func.attr.endswith("_to_proto") and len(s.value.args) == 2:
                    a0 = s.value.args[0]
                    sub = attr_of(a0) if not (isinstance(a0, ast.Name) and a0.id == A) else "<self>"
                    chains.append((s.value.func.attr[:-len("_to_proto")], sub, s))
        walk(fn.body, None)
        # a chain that hands the same attribute object on (e.g. downloadablemedia -> media) continues this mapping
        for (callee, sub, stmt) in list(chains):
            if sub == "<self>" and callee in self.fwd and callee != kind:
                _, _, e2, c2 = self.forward(callee)
                entries += e2
                chains += c2
        return A, P, entries, chains

    # --- reverse side
    def reverse(self, kind):
        """-> (ctor ClassInfo, [(slot, expr, reads set, hasfield set, chained kind or None, nested kind or None)])"""
        fn = self.rev[kind]
        p = params_of(fn)[0]
        locals_ = {}
        for s in fn.body:
            if isinstance(s, ast.Assign) and isinstance(s.targets[0], ast.Name):
                locals_[s.targets[0].id] = s.value
        ret = [s for s in fn.body if isinstance(s, ast.Return)]
        if len(ret) != 1 or not isinstance(ret[0].value, ast.Call):
            return None, []
        call = ret[0].value
        ctor = self.repo.resolve_expr_class(self.mod, call.func)
        out = []
        items = [(i, a) for i, a in enumerate(call.args)] + [(k.arg, k.value) for k in call.keywords]
        for slot, e in items:
            if isinstance(e, ast.Name) and e.id in locals_:
                e = locals_[e.id]
            reads = {n.attr for n in ast.walk(e) if isinstance(n, ast.Attribute) and isinstance(n.value, ast.Name) and n.value.id == p and n.attr not in ("HasField",)}
            has = {c.args[0].value for c in ast.walk(e) if isinstance(c, ast.Call) and isinstance(c.func, ast.Attribute) and c.func.attr == "HasField"
                   and c.args and isinstance(c.args[0], ast.Constant)}
            chained = nested = None
            for c in ast.walk(e):
                if isinstance(c, ast.Call) and is_self_attr(c.func) and c.func.attr.startswith("proto_to_") and c.args:
                    if isinstance(c.args[0], ast.Name) and c.args[0].id == p:
                        chained = c.func.attr[len("proto_to_"):]
                    else:
                        nested = c.func.attr[len("proto_to_"):]
            out.append((slot, e, reads, has, chained, nested))
        return ctor, out

    def ctor_map(self, ctor):
        """slot (index or keyword) -> attribute name, from the attribute class constructor"""
        k, init = self.repo.find_method(ctor, "__init__")
        if init is None:
            return {}, []
        self.repo.consulted.add(k.relpath)
        ps = params_of(init)
        p2a = {}
        for s in ast.walk(init):
            if isinstance(s, ast.Assign) and len(s.targets) == 1 and is_self_attr(s.targets[0]):
                names = [n.id for n in ast.walk(s.value) if isinstance(n, ast.Name) and n.id in ps]
                if len(set(names)) == 1:
                    p2a.setdefault(names[0], s.targets[0].attr.lstrip("_"))
            # super().__init__(param...) forwards to the parent constructor
            if isinstance(s, ast.Call) and isinstance(s.func, ast.Attribute) and s.func.attr == "__init__" and isinstance(s.func.value, ast.Call) \
                    and unparse(s.func.value.func) == "super":
                pk, pinit = self.repo.find_method(ctor, "__init__", after=k)
                if pinit is not None:
                    pps = params_of(pinit)
                    pm, _ = self.ctor_map_of(pk, pinit)
                    for i, a in enumerate(s.args):
                        if isinstance(a, ast.Name) and a.id in ps and i < len(pps) and pps[i] in pm:
                            p2a.setdefault(a.id, pm[pps[i]])
                    for kw in s.keywords:
                        if isinstance(kw.value, ast.Name) and kw.value.id in ps and kw.arg in pm:
                            p2a.setdefault(kw.value.id, pm[kw.arg])
        slots = {}
        for i, p in enumerate(ps):
            if p in p2a:
                slots[i] = p2a[p]
                slots[p] = p2a[p]
        return slots, ps

    def ctor_map_of(self, k, init):
        ps = params_of(init)
        p2a = {}
        for s in ast.walk(init):
            if isinstance(s, ast.Assign) and len(s.targets) == 1 and is_self_attr(s.targets[0]):
                names = [n.id for n in ast.walk(s.value) if isinstance(n, ast.Name) and n.id in ps]
                if len(set(names)) == 1:
                    p2a.setdefault(names[0], s.targets[0].attr.lstrip("_"))
        return p2a, ps


def rule_bij_desc_has(ctx, cv, decided=()):
    kinds = sorted(set(cv.fwd) & set(cv.rev))
    # pairs the abstract execution (c10_rt) decided clean are not looked at structurally: the structural model is kept as
    # the explanation of a failure (it names the statement), not as a second judge of how the converter is written
    kinds = [k for k in kinds if k not in decided]
    # a reverse converter nobody calls is dead code (its forward twin is a chain helper): not part of the mapping
    called = {c.func.attr[len("proto_to_"):] for fn in cv.cls.methods.values() for c in ast.walk(fn)
              if isinstance(c, ast.Call) and is_self_attr(c.func) and c.func.attr.startswith("proto_to_")}
    dead = [k for k in kinds if k not in called and k != "message"]
    for k in dead:
        ctx.note("proto_to_%s has no caller in the converter; pair skipped (forward side is analysed where it is chained)" % k)
    kinds = [k for k in kinds if k not in dead]
    ctx.units["C10.pairs"] = kinds
    for kind in kinds:
        ffn, rfn = cv.fwd[kind], cv.rev[kind]
        wf = where(CONV, "AttributesConverter.%s_to_proto" % kind, ffn.lineno)
        wr = where(CONV, "AttributesConverter.proto_to_%s" % kind, rfn.lineno)
        A, P, entries, chains = cv.forward(kind)
        ctor, rargs = cv.reverse(kind)
        ftypes = cv.ptypes_fwd.get(kind, set())
        rtypes = cv.ptypes_rev.get(kind, set())
        # ---- C10.desc (forward)
        for (p, a, stmt, guard, nested) in entries:
            w = where(CONV, "AttributesConverter.%s_to_proto" % kind, stmt.lineno)
            if not ftypes:
                ctx.undecided("C10.desc", w, stmt, "proto type of `%s` unknown" % P)
                continue
            missing = [t for t in sorted(ftypes) if p not in cv.descs.get(t, {})]
            ctx.check("C10.desc", not missing, w, stmt, "field %r does not exist in %s (assignment raises AttributeError whenever it runs)" % (p, ", ".join(missing)), "field exists in %s" % ", ".join(sorted(ftypes)))
            if guard is not None and a is not None:
                ctx.check("C10.has", guard == a, w, stmt, "the guard tests attribute %r but the statement copies %r" % (guard, a), "guard and copy use the same attribute")
            gk = cv.guard_kind.get(id(stmt))
            if gk is not None and gk[0] == "truth" and nested is None and isinstance(stmt, ast.Assign) and a is not None:
                # a scalar copied only when it is truthy: 0, 0.0, "", b"" and False are values the sender set
                ctx.violate("C10.has", w, stmt, "attribute %r is copied only when it is truthy (`if %s:`): a value of 0, an empty string or empty bytes the sender set is dropped and parsed back as None" % (a, unparse(gk[1])[:50]))
            others = [x for x in cv.excluded_by.get(id(stmt), ()) if x != a]
            if others:
                ctx.violate("C10.has", w, stmt, "attribute %r is only copied when %s %s absent (else / elif branch): a payload that carries both loses %r" % (a, ", ".join(repr(o) for o in others[:3]), "is" if len(others) == 1 else "are", a))
        # ---- C10.desc / C10.has (reverse)
        for (slot, e, reads, has, chained, nested) in rargs:
            w = where(CONV, "AttributesConverter.proto_to_%s" % kind, getattr(e, "lineno", rfn.lineno))
            for f in sorted(reads | has):
                if not rtypes:
                    ctx.undecided("C10.desc", w, e, "proto type of the parameter unknown")
                    continue
                missing = [t for t in sorted(rtypes) if f not in cv.descs.get(t, {})]
                ctx.check("C10.desc", not missing, w, "proto.%s in %s" % (f, unparse(e)[:60]), "field %r does not exist in %s" % (f, ", ".join(missing)), "field exists in %s" % ", ".join(sorted(rtypes)))
            for ie in [x for x in ast.walk(e) if isinstance(x, ast.IfExp)]:
                t_ = ie.test
                if isinstance(t_, ast.Attribute) and isinstance(t_.value, ast.Name) and t_.value.id == params_of(rfn)[0] \
                        and isinstance(ie.orelse, ast.Constant) and ie.orelse.value is None:
                    ctx.violate("C10.has", w, e, "field %r is read back only when its value is truthy (`%s`): a present field holding 0, an empty string or empty bytes is parsed as absent (None); presence is HasField(%r)" % (t_.attr, unparse(ie)[:60], t_.attr))
            if has:
                ctx.check("C10.has", reads == has and len(has) == 1, w, e, "HasField(%s) guards a read of %s" % (sorted(has), sorted(reads)), "HasField names the field it guards")
        if ctor is None:
            ctx.undecided("C10.bij", wr, rfn, "reverse side does not return a constructor call of an attribute class")
            continue
        slots, ctor_params = cv.ctor_map(ctor)
        # ---- C10.bij
        rev_by_field = {}
        for (slot, e, reads, has, chained, nested) in rargs:
            attr = slots.get(slot)
            if chained:
                # forward must chain to the same callee with the same attribute object
                fch = [c for c in chains if c[0] == chained]
                ok = bool(fch) and fch[0][1] == attr
                ctx.check("C10.bij", ok, where(CONV, "AttributesConverter.proto_to_%s" % kind, getattr(e, "lineno", rfn.lineno)), "chained %s" % chained,
                          "reverse side builds %r from proto_to_%s(proto) but the forward side %s" % (attr, chained, "hands %r to %s_to_proto" % (fch[0][1], chained) if fch else "never calls %s_to_proto" % chained),
                          "sub-attributes %r handled by %s both ways" % (attr, chained))
                continue
            for f in reads:
                rev_by_field[f] = (attr, slot, e, nested)
        fwd_fields = {}
        for (p, a, stmt, guard, nested) in entries:
            if p in fwd_fields and fwd_fields[p][1] is not stmt:
                first = fwd_fields[p][1]
                merge = any(isinstance(x, ast.Call) and isinstance(x.func, ast.Attribute) and x.func.attr == "MergeFrom" for st_ in (first, stmt) for x in ast.walk(st_))
                ctx.violate("C10.bij", where(CONV, "AttributesConverter.%s_to_proto" % kind, stmt.lineno), stmt,
                            "proto field %r is written twice on the way to the wire (also by `%s`)%s" % (p, unparse(first)[:70], ": MergeFrom appends repeated sub-fields, so lists inside it (mentions) come back doubled" if merge else ""))
            fwd_fields[p] = (a, stmt, nested)
        for p, (a, stmt, nested) in sorted(fwd_fields.items()):
            w = where(CONV, "AttributesConverter.%s_to_proto" % kind, stmt.lineno)
            if p not in rev_by_field:
                ctx.violate("C10.bij", w, stmt, "attribute %r is written to proto field %r but proto_to_%s never reads that field back: the value is lost on parsing" % (a, p, kind))
                continue
            attr, slot, e, rnested = rev_by_field[p]
            ok = attr == a
            if ok and (nested or rnested):
                ok = nested == rnested
            ctx.check("C10.bij", ok, w, "%s.%s <- %s ; read back into %r (constructor slot %r)" % (P, p, a, attr, slot),
                      "attribute %r goes to proto field %r, which proto_to_%s feeds into constructor slot %r = attribute %r%s" % (a, p, kind, slot, attr, "" if nested == rnested else " (nested converters %s vs %s)" % (nested, rnested)),
                      "round trip attribute -> proto -> attribute is the identity")
        for f, (attr, slot, e, rnested) in sorted(rev_by_field.items()):
            if f not in fwd_fields:
                ctx.violate("C10.bij", where(CONV, "AttributesConverter.proto_to_%s" % kind, getattr(e, "lineno", rfn.lineno)), "proto.%s -> %r" % (f, attr),
                            "proto field %r is parsed into attribute %r but %s_to_proto never writes it: the sender's value is dropped" % (f, attr, kind))
        # every constructor parameter is supplied
        supplied = {s for (s, *_r) in rargs}
        unfed = [p for i, p in enumerate(ctor_params) if i not in supplied and p not in supplied]
        k_, init_ = cv.repo.find_method(ctor, "__init__")
        nreq = len(ctor_params) - len(init_.args.defaults)
        missing_req = [p for i, p in enumerate(ctor_params[:nreq]) if i not in supplied and p not in supplied]
        ctx.check("C10.bij", not missing_req, wr, "constructor slots of %s" % ctor.name, "required constructor parameter(s) %s are not supplied" % missing_req, "%d of %d constructor parameters supplied" % (len(ctor_params) - len(unfed), len(ctor_params)))


def rule_top(ctx, cv):
    """structural reading of the top-level pair: only when the abstract execution could not decide it clean"""
    A, P, entries, chains = cv.forward("message")
    ctor, rargs = cv.reverse("message")
    w = where(CONV, "AttributesConverter.proto_to_message", cv.rev["message"].lineno)
    if ctor is None:
        ctx.undecided("C10.top", w, cv.rev["message"], "MessageAttributes(...) call not found")
        return
    slots, ps = cv.ctor_map(ctor)
    pos = [(s, e) for (s, e, *_r) in rargs if isinstance(s, int)]
    # arguments in constructor order: local variable names equal the parameter they feed
    fn = cv.rev["message"]
    call = [s for s in fn.body if isinstance(s, ast.Return)][0].value
    names = [a.id if isinstance(a, ast.Name) else None for a in call.args]
    ok = names == ps[:len(names)] and len(names) == len(ps)
    ctx.check("C10.top", ok, w, "MessageAttributes(%s)" % ", ".join(str(n) for n in names), "arguments must be passed in constructor order %s" % ps, "constructor order respected (%d kinds)" % len(ps))
    kinds_f = {a for (p, a, s, g, n) in entries}
    ctx.check("C10.top", kinds_f == set(ps), where(CONV, "AttributesConverter.message_to_proto", cv.fwd["message"].lineno), "top-level kinds written: %d" % len(kinds_f),
              "message_to_proto handles %s but MessageAttributes has %s" % (sorted(kinds_f ^ set(ps)), len(ps)), "all %d kinds serialised" % len(ps))
    # distinct proto fields
    fields = [p for (p, a, s, g, n) in entries]
    ctx.check("C10.top", len(set(fields)) == len(fields), where(CONV, "AttributesConverter.message_to_proto", cv.fwd["message"].lineno), "distinct payload fields", "two kinds are written to the same proto field", "one proto field per kind")
    # bytes <-> message
    for name, must in (("protobytes_to_message", ("ParseFromString", "proto_to_message")), ("message_to_protobytes", ("message_to_proto", "SerializeToString"))):
        fn = cv.cls.methods.get(name)
        ok = fn is not None and all(any(isinstance(c, ast.Call) and isinstance(c.func, ast.Attribute) and c.func.attr == m for c in ast.walk(fn)) for m in must)
        ctx.check("C10.top", ok, where(CONV, "AttributesConverter." + name, getattr(fn, "lineno", None)), name, "%s must go through %s" % (name, " and ".join(must)), "bytes <-> Message <-> attributes")


PROTOMSG = "yowsup/layers/protocol_messages/protocolentities/protomessage.py"


def rule_ser(ctx):
    """the entity that carries the payload: on every path of toProtocolTreeNode the <proto> data is
    message_to_protobytes(<the entity's current attribute object>) - not a stored copy of received bytes, which goes
    stale when the application edits the entity through its accessors; fromProtocolTreeNode feeds the attribute object
    from the <proto> child's data."""
    from ..cfg import CFG
    from ..consts import Evaluator
    from ..terms import PathEval, all_path_results, subterms, show
    repo = ctx.repo
    cls = repo.cls(PROTOMSG, "ProtomessageProtocolEntity")
    fn = cls.methods.get("toProtocolTreeNode")
    w = where(PROTOMSG, "ProtomessageProtocolEntity.toProtocolTreeNode", getattr(fn, "lineno", None))
    if fn is None:
        ctx.undecided("C10.ser", w, "toProtocolTreeNode", "method vanished")
        return
    pe = PathEval(fn, Evaluator(repo, cls.module, cls))
    res = [r for r in all_path_results(CFG(fn), pe) if r["terminal"] == "exit"]
    bad = []
    n = 0
    for r in res:
        protos = [e for e in r["events"] if e["func"] == "ProtoProtocolEntity"]
        if len(protos) != 1 or not protos[0]["args"]:
            bad.append("a path builds %d <proto> entities" % len(protos))
            continue
        n += 1
        a = protos[0]["args"][0]
        ok = isinstance(a, tuple) and a[0] == "call" and a[1] == "message_to_protobytes" and len(a[3]) == 1 and \
            a[3][0] in (("self", "_message_attributes"), ("self", "message_attributes"))
        if not ok:
            src = [t for t in subterms(a) if isinstance(t, tuple) and t[0] == "self"]
            bad.append("on some path the payload is %s%s" % (show(a)[:70], " (a stored field: stale after the entity is edited through its accessors)" if src and not (isinstance(a, tuple) and a[0] == "call") else ""))
    ctx.check("C10.ser", not bad and n > 0, w, "payload = message_to_protobytes(current attributes) on every path (%d)" % n,
              "; ".join(sorted(set(bad))[:2]), "serialised from the current attribute object on %d path(s)" % n)
    pf = cls.methods.get("fromProtocolTreeNode")
    wp = where(PROTOMSG, "ProtomessageProtocolEntity.fromProtocolTreeNode", getattr(pf, "lineno", None))
    if pf is None:
        ctx.undecided("C10.ser", wp, "fromProtocolTreeNode", "method vanished")
        return
    pe = PathEval(pf, Evaluator(repo, cls.module, cls), selfname="cls")
    res = [r for r in all_path_results(CFG(pf), pe) if r["terminal"] == "exit"]
    okp = bool(res)
    for r in res:
        parse = [e for e in r["events"] if e["func"] == "ParseFromString"]
        conv = [e for e in r["events"] if e["func"] in ("proto_to_message", "protobytes_to_message")]
        from_proto = any(isinstance(t, tuple) and t[0] == "call" and t[1] == "getChild" and t[3] and t[3][0] == ("const", "proto") for e in parse + conv for a_ in e["args"] for t in subterms(a_))
        if len(conv) != 1 or not from_proto:
            okp = False
    ctx.check("C10.ser", okp, wp, "attributes = proto_to_message(parse(<proto> data)) on every path", "the attribute object must be parsed from the <proto> child's data on every path", "parsed from the <proto> child")


def rule_state(ctx):
    """payload objects are built per message: no shared default Message() / attribute object that later calls merge into"""
    from ..state import shared_defaults
    ctx.units["C10.defaults_examined"] = shared_defaults(ctx, "C10.state", ["yowsup/layers/protocol_messages/", "yowsup/layers/protocol_media/", "yowsup/layers/axolotl/layer_send.py", "yowsup/layers/axolotl/layer_receive.py"])


def rule_forward(ctx):
    """forwarding a message yields an independent entity: forward() deep-copies (the copy shares no attribute object with
    the original, so editing one does not change what the other serialises)"""
    repo = ctx.repo
    rel = "yowsup/layers/protocol_messages/protocolentities/message.py"
    cls = repo.cls(rel, "MessageProtocolEntity")
    fn = cls.methods.get("forward")
    w = where(rel, "MessageProtocolEntity.forward", getattr(fn, "lineno", None))
    if fn is None:
        ctx.undecided("C10.ser", w, "forward", "method vanished")
        return
    m = repo.module(rel)
    copies = []
    for c in ast.walk(fn):
        if isinstance(c, ast.Call) and c.args and isinstance(c.args[0], ast.Name) and c.args[0].id == "self":
            name = unparse(c.func)
            r = repo.resolve_name(m, name.split(".")[0])
            target = name.split(".")[-1]
            if r and r[0] in ("ext", "module") and "copy" in (str(r[1]) + name):
                # `from copy import deepcopy` / `import copy; copy.deepcopy`
                imported = str(r[1]).split(".")[-1] if r[0] == "ext" else target
                copies.append(imported if "." not in name else target)
    ctx.check("C10.ser", copies == ["deepcopy"], w, "forward() copies with %s" % (copies or "?"),
              "forward() must deep-copy the entity: with %s the forwarded entity shares its attribute objects (caption, url, mentions, thumbnails) with the original, and editing one changes what the other puts on the wire" % (copies or "no copy"),
              "deepcopy(self)")


def rule_acc(ctx):
    repo = ctx.repo
    n = 0
    for m in repo.modules.values():
        if not m.relpath.startswith(MEDIA_DIR) or not m.relpath.split("/")[-1].startswith("message_media"):
            continue
        repo.consulted.add(m.relpath)
        for c in m.classes.values():
            init = c.methods.get("__init__")
            msa = c.methods.get("media_specific_attributes")
            kw = None
            if init is not None:
                for call in ast.walk(init):
                    if isinstance(call, ast.Call) and unparse(call.func) == "MessageAttributes" and call.keywords:
                        kw = call.keywords[0].arg
            if msa is not None and kw is not None:
                rets = [r for r in ast.walk(msa) if isinstance(r, ast.Return)]
                got = unparse(rets[0].value) if rets else None
                ctx.check("C10.acc", got == "self.message_attributes." + kw, where(m.relpath, c.name + ".media_specific_attributes", msa.lineno), "returns " + str(got),
                          "the constructor stores the payload as MessageAttributes(%s=...) but media_specific_attributes returns %s (always None for this entity, every accessor raises)" % (kw, got), "returns the populated attribute object")
                n += 1
            members = set()
            for k in repo.mro(c):
                members |= set(k.methods) | set(k.consts) | repo.instance_assigned(k)
            for fn in c.all_defs:
                name = fn.name
                decs = [unparse(d) for d in fn.decorator_list]
                is_get = "property" in decs
                is_set = any(d.endswith(".setter") for d in decs)
                if not (is_get or is_set) or name in ("media_specific_attributes", "downloadablemedia_specific_attributes", "media_type", "message_attributes"):
                    continue
                w = where(m.relpath, c.name + "." + name, fn.lineno)
                if is_get:
                    rets = [r for r in ast.walk(fn) if isinstance(r, ast.Return) and r.value is not None]
                    chain = unparse(rets[0].value) if len(rets) == 1 else None
                else:
                    tg = [t for s in ast.walk(fn) if isinstance(s, ast.Assign) for t in s.targets]
                    chain = unparse(tg[0]) if len(tg) == 1 else None
                if chain is None or not chain.startswith("self."):
                    continue
                parts = chain.split(".")
                root_ok = parts[1] in members
                leaf_ok = parts[-1].lstrip("_") == name
                ctx.check("C10.acc", root_ok and leaf_ok, w, ("getter " if is_get else "setter ") + name + ": " + chain,
                          ("`self.%s` is not a member of %s or its bases (AttributeError)" % (parts[1], c.name)) if not root_ok else "accessor `%s` addresses `%s`" % (name, parts[-1]),
                          "addresses its own attribute")
                n += 1
    return n


def rule_truth(ctx):
    """the converter and the attribute classes test attribute OBJECTS for presence by their truth (`if x.context_info:`).
    An attribute class that defines its own truth (__bool__ / __nonzero__ / __len__) makes presence depend on content: its
    truth is executed on an instance whose every constructor argument is a set-but-falsy value (0): it must be true."""
    from ..absint import Interp, _Raise, NeedAtom, Budget, DomainGrew
    repo = ctx.repo
    adir = "yowsup/layers/protocol_messages/protocolentities/attributes/"
    n = 0
    for m in sorted(repo.modules.values(), key=lambda m_: m_.relpath):
        if not m.relpath.startswith(adir) or m.relpath.endswith("converter.py"):
            continue
        for c in m.classes.values():
            n += 1
            own = [nm for nm in ("__bool__", "__nonzero__", "__len__") if repo.find_method(c, nm)[1] is not None or any(nm in k.consts for k in repo.mro(c))]
            w = where(m.relpath, c.name, None)
            if not own:
                ctx.hold("C10.has", w, "%s objects are true whatever they hold" % c.name, "no __bool__ / __len__: presence tests by truth see the object")
                continue
            it = Interp(repo, {}, {})
            k, init = repo.find_method(c, "__init__")
            nargs = len(init.args.args) - 1 if init is not None else 0
            try:
                o = it.construct(c, [("c", 0)] * nargs, {}, {"@module": c.module, "@owner": None}, 0, None)
                t = it.truth(o, c.name)
            except (_Raise, NeedAtom, Budget, DomainGrew) as x:
                ctx.undecided("C10.has", w, "%s defines %s" % (c.name, own[0]), "its truth could not be executed: %s" % (getattr(x, "text", x),))
                continue
            ctx.check("C10.has", bool(t), w, "%s defines %s" % (c.name, own[0]),
                      "an object whose fields are all set to falsy values (0 / False / '') is itself falsy: the converter's presence tests (`if attributes.x:`) then drop it, and every field the sender set is lost",
                      "true also when every field holds a falsy value")
    ctx.units["C10.attribute_classes"] = n


def rule_converter(ctx, cv=None):
    """the converter judged by abstract execution (c10_rt); the structural reading (rule_bij_desc_has / rule_top) only for
    the pairs the execution did not decide clean, where it names the statement at fault"""
    from . import c10_rt
    cv = cv if cv is not None else Conv(ctx)
    clean = ctx.guarded("C10.bij", c10_rt.rule_roundtrip, ctx, cv) or set()
    ctx.units["C10.rt_clean"] = sorted(clean)
    rt_kinds = set(ctx.units.get("C10.rt_pairs", []))
    all_clean = bool(rt_kinds) and rt_kinds <= clean and "<bytes>" in clean
    if not all_clean:
        # helper converters (two-argument forward side) are reached through the pairs that chain to them
        ctx.guarded("C10.bij_desc_has", rule_bij_desc_has, ctx, cv, clean)
        if "message" not in clean or "<bytes>" not in clean:
            ctx.guarded("C10.top", rule_top, ctx, cv)


def run(ctx):
    ctx.rule("C10.bij", "attribute -> proto -> attribute is the identity for every converter pair", floor=80)
    ctx.rule("C10.desc", "every proto field named exists in the message descriptor", floor=80)
    ctx.rule("C10.has", "optional attributes: None and falsy values survive (HasField / None guards name the field they guard)", floor=50)
    ctx.rule("C10.top", "top-level kinds 1:1, constructor order", floor=5)
    ctx.rule("C10.acc", "media entity accessors", floor=80)
    ctx.rule("C10.pad", "payload padding removed exactly (C03.map adopted)", floor=8)
    ctx.rule("C10.state", "no shared default payload object is mutated", floor=1)
    ctx.rule("C10.ser", "the payload entity serialises its current attributes and parses the <proto> data", floor=2)
    ctx.assume("google.protobuf's own encoding is trusted; descriptors are read from the generated modules' Descriptor(...) calls")
    cv = Conv(ctx)
    ctx.units["C10.descriptors"] = len(cv.descs)
    rule_converter(ctx, cv)
    ctx.guarded("C10.has", rule_truth, ctx)
    ctx.guarded("C10.ser", rule_ser, ctx)
    ctx.guarded("C10.ser", rule_forward, ctx)
    ctx.guarded("C10.acc", rule_acc, ctx)
    ctx.guarded("C10.state", rule_state, ctx)
    # the serialised payload is padded before and unpadded after the session cipher: exact unpadding (C03.map), adopted
    from . import c03
    ctx.adopt_from("C03", [(c03.rule_map, ())], {"C03.map": "C10.pad"})
