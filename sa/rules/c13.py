"""C13 - key store durability and atomicity.

C13.commit   every write statement is followed by a commit on every normal path of the API call
C13.replace  no commit between the DELETE and the INSERT that replace one record in one API call
C13.schema   columns / placeholder counts agree with CREATE TABLE; DELETE/UPDATE are keyed; loaders
             select what writers insert; key columns are bound consistently across sibling methods
C13.blob     the connection stores blobs as bytes; no autocommit / isolation_level games
"""
import ast

from ..cfg import CFG, enum_paths, walk_no_nested
from ..consts import Evaluator, alts
from ..deps import Deps, node_exprs
from .. import sql
from ..report import where
from ..repo import unparse, is_self_attr, params_of

DIR = "yowsup/axolotl/store/sqlite/"
FACADE = ("yowsup/axolotl/store/sqlite/liteaxolotlstore.py", "LiteAxolotlStore")


class StoreModel:
    """SQL effects of every method of the store classes."""

    def __init__(self, ctx):
        self.ctx = ctx
        self.repo = ctx.repo
        self.classes = []
        for m in self.repo.modules.values():
            if m.relpath.startswith(DIR):
                self.repo.consulted.add(m.relpath)
                for c in m.classes.values():
                    self.classes.append(c)
        self.tables = {}      # table -> CREATE Stmt
        self.indexes = []
        self.stmts = []       # (cls, method name, cfg node, Stmt, params expr or None)
        self._node_eff = {}   # (cls.qname, method) -> {node.id: [effects]}
        self._cfg = {}
        self._seq_cache = {}
        self.field_types = {}  # cls.qname -> {field: ClassInfo}
        for c in self.classes:
            self._fields(c)
        # private helpers (`_x`, called through self only) are inlined into the API methods that use them and are not
        # judged on their own: a helper that deletes a row with the caller's cursor and lets the caller commit is part
        # of the caller's transaction
        from ..repo import inline_private_calls
        self.fns = {}
        self.internal = set()
        for c in self.classes:
            called_inside = {x.func.attr for fn in c.methods.values() for x in ast.walk(fn) if isinstance(x, ast.Call) and is_self_attr(x.func)}
            referenced_elsewhere = set()
            for m in self.repo.modules.values():
                for k in m.classes.values():
                    if k is c:
                        continue
                    for fn in k.methods.values():
                        for x in ast.walk(fn):
                            if isinstance(x, ast.Attribute) and x.attr.startswith("_") and not x.attr.startswith("__") and x.attr in c.methods:
                                if is_self_attr(x) and self.repo.find_method(k, x.attr)[1] is not None:
                                    continue        # that class's own helper of the same name
                                referenced_elsewhere.add(x.attr)
            from ..repo import inline_attr_chain_aliases
            for name, fn in c.methods.items():
                new = inline_private_calls(self.repo, c, fn)
                # `execute = self.dbConn.execute; execute(sql, params)` is `self.dbConn.execute(sql, params)`
                new = inline_attr_chain_aliases(new)
                # statements handed to a helper as data (`self._write([(sql, params), ...])`, a local generator of
                # (sql, params) pairs): once the helper is inlined the loop over them is known iteration by iteration
                from ..repo import unroll_static_loops
                new = unroll_static_loops(new)
                self.fns[(c.qname, name)] = new
            for name in c.methods:
                if name.startswith("_") and not name.startswith("__") and name in called_inside and name not in referenced_elsewhere:
                    still = any(isinstance(x, ast.Call) and is_self_attr(x.func, name) for (q, n_), f_ in self.fns.items() if q == c.qname and n_ != name for x in ast.walk(f_))
                    if not still:
                        self.internal.add((c.qname, name))
        for c in self.classes:
            for name in c.methods:
                if (c.qname, name) in self.internal:
                    continue
                self._scan(c, name, self.fns[(c.qname, name)])

    def _fields(self, c):
        ft = {}
        init = c.methods.get("__init__")
        if init:
            for n in ast.walk(init):
                if isinstance(n, ast.Assign) and len(n.targets) == 1 and is_self_attr(n.targets[0]) and isinstance(n.value, ast.Call):
                    k = self.repo.resolve_expr_class(c.module, n.value.func)
                    if k is not None:
                        ft[n.targets[0].attr] = k
        self.field_types[c.qname] = ft

    def cfg(self, c, name):
        key = (c.qname, name)
        if key not in self._cfg:
            self._cfg[key] = CFG(self.fns.get(key, c.methods[name]))
        return self._cfg[key]

    def _const_str(self, c, fn, g, node, expr, strconsts):
        if isinstance(expr, ast.Constant) and isinstance(expr.value, str):
            return expr.value
        if isinstance(expr, ast.Name):
            vals = strconsts.get(node.id, {}).get(expr.id)
            if vals and len(vals) == 1:
                return list(vals)[0]
        ev = Evaluator(self.repo, c.module, c)
        a = alts(ev.ev(expr))
        if a and len(a) == 1 and isinstance(a[0], str):
            return a[0]
        return None

    def _strconsts(self, g, c=None):
        """var -> set of constant strings reaching each node (None = unknown)"""
        ev = Evaluator(self.repo, c.module, c) if c is not None else None

        def value_of(v, st):
            """set of constant strings an expression may evaluate to (concatenations of literals, class constants and
            locals already known), or None"""
            if isinstance(v, ast.Constant) and isinstance(v.value, str):
                return frozenset([v.value])
            if isinstance(v, ast.Name):
                return st.get(v.id)
            if isinstance(v, ast.BinOp) and isinstance(v.op, ast.Add):
                l, r = value_of(v.left, st), value_of(v.right, st)
                if l is None or r is None or len(l) * len(r) > 8:
                    return None
                return frozenset(a + b for a in l for b in r)
            if isinstance(v, ast.BinOp) and isinstance(v.op, ast.Mod) and isinstance(v.right, (ast.Constant, ast.Tuple)):
                l = value_of(v.left, st)
                parts = v.right.elts if isinstance(v.right, ast.Tuple) else [v.right]
                rs = [value_of(x, st) for x in parts]
                if l is not None and len(l) == 1 and all(x is not None and len(x) == 1 for x in rs):
                    try:
                        return frozenset([list(l)[0] % tuple(list(x)[0] for x in rs)])
                    except Exception:
                        return None
                return None
            if ev is not None:
                a = alts(ev.ev(v))
                if a and len(a) == 1 and isinstance(a[0], str):
                    return frozenset([a[0]])
            return None

        def transfer(node, st, kind):
            s = node.stmt
            if node.kind == "stmt" and isinstance(s, ast.Assign) and kind != "exc":
                new = dict(st)
                for t in s.targets:
                    if isinstance(t, ast.Name):
                        new[t.id] = value_of(s.value, st)
                return new
            return st

        def join(a, b):
            if a == b:
                return a
            out = {}
            for k in set(a) | set(b):
                x, y = a.get(k, frozenset()), b.get(k, frozenset())
                out[k] = None if (x is None or y is None) else (x | y)
            return out
        return g.dataflow({}, transfer, join)

    def _scan(self, c, name, fn):
        g = self.cfg(c, name)
        sc = self._strconsts(g, c)
        effs = {}
        # the connection as a context manager: leaving `with <connection>:` normally commits (sqlite3), an exception rolls back
        conns = {unparse(x.func.value) for m_ in c.methods.values() for x in ast.walk(m_)
                 if isinstance(x, ast.Call) and isinstance(x.func, ast.Attribute) and (x.func.attr in ("commit", "rollback", "cursor") or (x.func.attr.startswith("execute") and is_self_attr(x.func.value)))}
        for n in g.live:
            lst = []
            if n.kind == "with_exit" and any(unparse(i.context_expr) in conns for i in n.stmt.items):
                lst.append(("COMMIT", n))
            for e in node_exprs(n):
                calls = [x for x in walk_no_nested(e) if isinstance(x, ast.Call)]
                calls.sort(key=lambda x: (x.end_lineno or 0, x.end_col_offset or 0))  # inner calls complete first
                for call in calls:
                    f = call.func
                    if not isinstance(f, ast.Attribute):
                        continue
                    if f.attr in ("execute", "executemany", "executescript") and call.args:
                        text = self._const_str(c, fn, g, n, call.args[0], sc)
                        if text is None:
                            lst.append(("SQL?", n, call))
                            continue
                        st = sql.parse(text)
                        params = call.args[1] if len(call.args) > 1 else None
                        if isinstance(params, ast.Name):
                            # a local bound once (a helper's parameter after inlining): the tuple it was bound to
                            defs = [a_.value for a_ in ast.walk(fn) if isinstance(a_, ast.Assign) and len(a_.targets) == 1 and isinstance(a_.targets[0], ast.Name) and a_.targets[0].id == params.id]
                            if len(defs) == 1 and params.id not in params_of(fn):
                                params = defs[0]
                        if isinstance(params, ast.Call) and isinstance(params.func, ast.Name) and params.func.id == "tuple" and len(params.args) == 1 and isinstance(params.args[0], (ast.Tuple, ast.List)):
                            params = params.args[0]
                        if f.attr == "executemany" and params is not None:
                            # one execution per element: the parameters are the element expression
                            if isinstance(params, (ast.GeneratorExp, ast.ListComp)):
                                params = params.elt
                            elif isinstance(params, (ast.List, ast.Tuple)) and params.elts:
                                params = params.elts[0]
                        self.stmts.append((c, name, n, st, params))
                        if st.verb == "CREATE_TABLE":
                            self.tables[st.table] = st
                        elif st.verb == "CREATE_INDEX":
                            self.indexes.append(st)
                        lst.append(("SQL", st, n, c, name))
                    elif f.attr == "commit":
                        lst.append(("COMMIT", n))
                    elif f.attr == "rollback":
                        lst.append(("ROLLBACK", n))
                    elif is_self_attr(f):
                        lst.append(("CALL", c, f.attr, n))
                    elif isinstance(f.value, ast.Attribute) and is_self_attr(f.value):
                        k = self.field_types.get(c.qname, {}).get(f.value.attr)
                        if k is not None:
                            lst.append(("CALL", k, f.attr, n))
            if lst:
                effs[n.id] = lst
        self._node_eff[(c.qname, name)] = effs

    def sequences(self, c, name, depth=0):
        """set of effect tuples over all normal-terminating paths (loops <= 2 iterations)."""
        k, fn = self.repo.find_method(c, name)
        if fn is None or k.qname + ":" not in "".join(x.qname + ":" for x in self.classes) or depth > 4:
            return {()}
        key = (k.qname, name)
        if key in self._seq_cache:
            return self._seq_cache[key]
        self._seq_cache[key] = {()}
        g = self.cfg(k, name)
        effs = self._node_eff.get(key, {})
        out = set()
        for path, term in enum_paths(g, max_visits=2):
            if term is not g.exit:
                continue
            seqs = [()]
            for (n, kind) in path:
                if kind == "exc":
                    continue  # the statement raised: its effect did not happen
                for e in effs.get(n.id, ()):
                    if e[0] == "CALL":
                        sub = self.sequences(e[1], e[2], depth + 1)
                        seqs = [s + t for s in seqs for t in sub]
                    else:
                        seqs = [s + (e,) for s in seqs]
                    if len(seqs) > 2000:
                        seqs = seqs[:2000]
            out.update(seqs)
        self._seq_cache[key] = out
        return out


def fmt_seq(seq):
    out = []
    for e in seq:
        if e[0] == "SQL":
            out.append("%s %s" % (e[1].verb, e[1].table))
        else:
            out.append(e[0])
    return " ; ".join(out)


WRITE = ("INSERT", "UPDATE", "DELETE")


def api_methods(model):
    for c in model.classes:
        for name in c.methods:
            if name.startswith("__") or (c.qname, name) in model.internal:
                continue
            yield c, name


def rule_commit_replace(ctx, model):
    for c, name in api_methods(model):
        own = [e for l in model._node_eff.get((c.qname, name), {}).values() for e in l]
        if len(own) == 1 and own[0][0] == "CALL":
            continue   # pure delegation (facade): decided at the delegate
        seqs = model.sequences(c, name)
        fn = c.methods[name]
        w = where(c.relpath, c.name + "." + name, fn.lineno)
        writes = False
        bad_commit = None
        bad_replace = None
        for s in seqs:
            last_commit = max([i for i, e in enumerate(s) if e[0] == "COMMIT"], default=-1)
            for i, e in enumerate(s):
                if e[0] == "SQL" and e[1].verb in WRITE:
                    writes = True
                    if i > last_commit:
                        bad_commit = (s, e)
            # replace pattern: DELETE t ... COMMIT ... INSERT t  (same table, same call)
            for i, e in enumerate(s):
                if e[0] == "SQL" and e[1].verb == "DELETE":
                    committed = False
                    for e2 in s[i + 1:]:
                        if e2[0] == "COMMIT":
                            committed = True
                        elif e2[0] == "SQL" and e2[1].verb == "INSERT" and e2[1].table == e[1].table and committed:
                            bad_replace = (s, e, e2)
        if not writes:
            continue
        if bad_commit:
            ctx.violate("C13.commit", w, "%s %s" % (bad_commit[1][1].verb, bad_commit[1][1].table),
                        "a normal path returns with an uncommitted write: " + fmt_seq(bad_commit[0]))
        else:
            ctx.hold("C13.commit", w, "writes of " + name, "every write is followed by a commit on all %d effect sequence(s)" % len(seqs))
        has_replace = any(any(e[0] == "SQL" and e[1].verb == "DELETE" for e in s) and any(e[0] == "SQL" and e[1].verb == "INSERT" for e in s) for s in seqs)
        if bad_replace:
            ctx.violate("C13.replace", w, "DELETE %s ; COMMIT ; INSERT %s" % (bad_replace[1][1].table, bad_replace[2][1].table),
                        "the old row is deleted and committed before the new row is inserted: a crash in between loses the record (%s)" % fmt_seq(bad_replace[0]))
        elif has_replace:
            ctx.hold("C13.replace", w, "replace in " + name, "delete and insert are in one transaction")
    # single-statement replaces
    for (c, name, n, st, params) in model.stmts:
        if st.verb == "INSERT" and st.or_replace:
            ctx.hold("C13.replace", where(c.relpath, c.name + "." + name, n.line), n.stmt, "single INSERT OR REPLACE statement")


def tuple_len(params):
    if params is None:
        return 0
    if isinstance(params, (ast.Tuple, ast.List)):
        return len(params.elts)
    return None


SQL_WORDS = {"max", "min", "count", "coalesce", "ifnull", "sum", "avg", "length", "abs", "distinct", "as", "null", "total", "nullif", "cast", "integer", "text"}


def sql_columns(expr, table_cols):
    """(columns of the table named in a select expression, identifiers that are neither columns nor SQL words)"""
    import re
    toks = re.findall(r"[A-Za-z_][A-Za-z_0-9]*", expr)
    cols = [t for t in toks if t in table_cols]
    unknown = [t for t in toks if t not in table_cols and t.lower() not in SQL_WORDS]
    return cols, unknown


def rule_schema(ctx, model):
    inserted = {}   # table -> set(cols)
    for (c, name, n, st, params) in model.stmts:
        w = where(c.relpath, c.name + "." + name, n.line)
        if st.verb is None:
            ctx.undecided("C13.schema", w, n.stmt, "SQL statement not understood: %s" % st.text[:80])
            continue
        if st.verb in ("CREATE_TABLE", "CREATE_INDEX"):
            if st.verb == "CREATE_INDEX":
                t = model.tables.get(st.table)
                ok = t is not None and all(col in t.columns for col in st.columns)
                ctx.check("C13.schema", ok, w, n.stmt, "index on unknown table/column", "index columns exist")
            continue
        t = model.tables.get(st.table)
        if t is None and st.table.lower().startswith("sqlite_"):
            # SQLite's own bookkeeping tables (sqlite_sequence, sqlite_master): reading them is fine, writing is not
            ctx.check("C13.schema", st.verb == "SELECT", w, n.stmt, "an internal SQLite table (%s) is modified" % st.table, "reads SQLite's own %s" % st.table)
            continue
        if t is None:
            ctx.violate("C13.schema", w, n.stmt, "statement addresses table %r which no store creates" % st.table)
            continue
        probs = []
        cols = list(st.columns) if st.verb in ("INSERT", "UPDATE") else []
        if st.verb == "SELECT":
            for col in st.columns:
                if col.strip() == "*":
                    continue
                _cs, unknown = sql_columns(col, t.columns)
                if unknown:
                    probs.append("selected column %r not in table" % col)
        for col in cols:
            if col not in t.columns:
                probs.append("column %r not in table %s" % (col, st.table))
        for (col, op, rhs) in st.where:
            if col is None or col not in t.columns:
                probs.append("WHERE term %r does not name a column of %s" % (rhs if col is None else col, st.table))
        if st.verb == "INSERT":
            if len(st.values) != len(st.columns):
                probs.append("%d columns but %d VALUES entries" % (len(st.columns), len(st.values)))
            inserted.setdefault(st.table, set()).update(st.columns)
        if st.verb == "UPDATE":
            inserted.setdefault(st.table, set()).update(st.columns)
        n_params = tuple_len(params)
        if n_params is not None and n_params != st.placeholders:
            probs.append("%d placeholder(s) but %d parameter(s) bound" % (st.placeholders, n_params))
        if st.verb in ("DELETE", "UPDATE"):
            if not st.where:
                probs.append("%s without WHERE touches every row of %s" % (st.verb, st.table))
            elif not any(rhs == "?" for (_, _, rhs) in st.where):
                probs.append("%s is not keyed by a bound parameter" % st.verb)
        if probs:
            ctx.violate("C13.schema", w, st.text, "; ".join(probs))
        else:
            ctx.hold("C13.schema", w, st.text, "columns, placeholders and key agree with the schema")
    # single-record lookups, deletes and updates are keyed by a column the schema makes unique
    uniq = {}
    for t, cst in model.tables.items():
        uniq[t] = set(cst.unique)
    for ix in model.indexes:
        if ix.unique:
            uniq.setdefault(ix.table, set()).update(ix.columns)
    for (c, name, n, st, params) in model.stmts:
        if st.table not in uniq or not st.where:
            continue
        single = st.verb in ("DELETE", "UPDATE")
        if st.verb == "SELECT":
            fn = model.fns.get((c.qname, name), c.methods[name])
            single = any(isinstance(x, ast.Call) and isinstance(x.func, ast.Attribute) and x.func.attr == "fetchone" for x in ast.walk(fn))
        if not single:
            continue
        cols = {col for (col, op, rhs) in st.where if col is not None}
        w = where(c.relpath, c.name + "." + name, n.line)
        ctx.check("C13.schema", bool(cols & uniq[st.table]), w, "key of " + st.text,
                  "record is addressed by %s, none of which the schema makes unique (unique: %s): a different record can be returned or replaced" % (sorted(cols), sorted(uniq[st.table])),
                  "addressed through unique column(s) %s" % sorted(cols & uniq[st.table]))
    # loaders select what writers insert
    for (c, name, n, st, params) in model.stmts:
        if st.verb == "SELECT" and st.table in inserted:
            w = where(c.relpath, c.name + "." + name, n.line)
            bad = []
            tcols = model.tables[st.table].columns if st.table in model.tables else []
            for col in st.columns:
                if col.strip() == "*":
                    continue
                for base in sql_columns(col, tcols)[0]:
                    if base not in inserted[st.table]:
                        bad.append(base)
            for (col, op, rhs) in st.where:
                if col is not None and col not in inserted[st.table]:
                    bad.append(col)
            ctx.check("C13.schema", not bad, w, "loader " + st.text,
                      "loader reads column(s) %s that no writer of table %s ever sets" % (bad, st.table),
                      "loader columns are written by the table's writers")


def binding_of(d, node, expr, fn, ev=None):
    """normalised description of what a bound SQL parameter is fed by"""
    ps = params_of(fn)
    if isinstance(expr, ast.Constant):
        return ("const", repr(expr.value))
    if isinstance(expr, ast.UnaryOp) and isinstance(expr.operand, ast.Constant):
        return ("const", unparse(expr))
    if ev is not None and isinstance(expr, ast.Attribute) and isinstance(expr.value, ast.Name):
        # a named constant of the class / module (`self.LOCAL_ID`) is the constant
        a = alts(ev.ev(expr))
        if a and len(a) == 1 and isinstance(a[0], (int, str, bytes, float)):
            return ("const", repr(a[0]))
    if isinstance(expr, ast.IfExp):
        # python2 compatibility idiom `buffer(x) if sys.version_info < (2,7) else x`
        return binding_of(d, node, expr.orelse, fn, ev)
    # a variable of a comprehension / generator (`((1, k) for k in keys)`) stands for an element of what it iterates over
    comp = {}
    other_stores = set()
    for x in ast.walk(fn):
        if isinstance(x, ast.comprehension):
            for t in ast.walk(x.target):
                if isinstance(t, ast.Name):
                    comp[t.id] = x.iter
        elif isinstance(x, (ast.Assign, ast.AugAssign, ast.For, ast.With)):
            for t in (x.targets if isinstance(x, ast.Assign) else [x.target] if isinstance(x, (ast.AugAssign, ast.For)) else [i.optional_vars for i in x.items if i.optional_vars is not None]):
                other_stores |= {y.id for y in ast.walk(t) if isinstance(y, ast.Name)}
    comp = {k_: v_ for k_, v_ in comp.items() if k_ not in other_stores and k_ not in ps}
    if comp and any(isinstance(y, ast.Name) and y.id in comp for y in ast.walk(expr)):
        import copy as _copy

        class _S(ast.NodeTransformer):
            def visit_Name(self, nd):
                if nd.id in comp and isinstance(nd.ctx, ast.Load):
                    return ast.copy_location(_copy.deepcopy(comp[nd.id]), nd)
                return nd
        expr = _S().visit(_copy.deepcopy(expr))
    src = d.expr_sources(node, expr)
    idx = tuple(sorted(ps.index(s[1]) for s in src if s[0] == "param" and s[1] in ps))
    chain = []
    e = expr
    seen = 0
    while isinstance(e, ast.Name) and e.id not in ps and seen < 4:
        # a local bound exactly once (`groupId = name.getGroupId()`): described by what it was bound to
        defs = [a.value for a in ast.walk(fn) if isinstance(a, ast.Assign) and len(a.targets) == 1 and isinstance(a.targets[0], ast.Name) and a.targets[0].id == e.id]
        if len(defs) != 1:
            break
        e = defs[0]
        seen += 1
        if isinstance(e, ast.IfExp):
            e = e.orelse
    while isinstance(e, ast.Call) and isinstance(e.func, ast.Attribute):
        chain.append(e.func.attr)
        e = e.func.value
    return ("param", idx, tuple(reversed(chain)))


def rule_bind(ctx, model):
    """key columns (those used in WHERE clauses) are bound to the same API parameter by every
    sibling method of the store class; replace pairs agree on their key"""
    per = {}   # (cls.qname, table, col) -> {binding: [(where, text)]}
    for (c, name, n, st, params) in model.stmts:
        if st.verb not in ("INSERT", "UPDATE", "DELETE", "SELECT") or not isinstance(params, (ast.Tuple, ast.List)):
            continue
        fn = model.fns.get((c.qname, name), c.methods[name])
        g = model.cfg(c, name)
        d = Deps(g)
        # order of placeholders: INSERT values, UPDATE set values, then WHERE terms
        slots = []
        if st.verb == "INSERT":
            for col, v in zip(st.columns, st.values):
                if v == "?":
                    slots.append(col)
        if st.verb == "UPDATE":
            for col, v in zip(st.columns, st.set_values):
                if v == "?":
                    slots.append(col)
        for (col, op, rhs) in st.where:
            if rhs == "?":
                slots.append(col)
        if len(slots) != len(params.elts):
            continue
        for col, e in zip(slots, params.elts):
            b = binding_of(d, n, e, fn, Evaluator(model.repo, c.module, c))
            per.setdefault((c.qname, c, st.table, col), {}).setdefault(b, []).append((name, n, st))
    keycols = set()
    for (c, name, n, st, params) in model.stmts:
        for (col, op, rhs) in st.where:
            keycols.add((st.table, col))
    for (qn, c, table, col), bs in sorted(per.items(), key=lambda kv: (kv[0][0], kv[0][2], kv[0][3])):
        if (table, col) not in keycols:
            continue
        pb = {b: v for b, v in bs.items() if b[0] == "param"}
        w = where(c.relpath, c.name, None)
        if len(pb) <= 1:
            ctx.hold("C13.schema", w, "key column %s.%s" % (table, col),
                     "bound to the same API parameter in %d statement(s)" % sum(len(v) for v in pb.values()))
        else:
            # report the minority binding
            items = sorted(pb.items(), key=lambda kv: len(kv[1]))
            b, sites = items[0]
            name, n, st = sites[0]
            ctx.violate("C13.schema", where(c.relpath, c.name + "." + name, n.line), st.text,
                        "key column %s.%s is bound to parameter %s here but to %s in the sibling methods (%s): records are stored and looked up under different keys" % (
                            table, col, b[1:], items[-1][0][1:], ", ".join(sorted({s[0] for s in items[-1][1]}))))


def rule_blob(ctx, model):
    f, cn = FACADE
    c = ctx.repo.cls(f, cn)
    init = ctx.repo.method(f, cn, "__init__")
    w = where(f, cn + ".__init__", init.lineno)
    conn = None
    for n in ast.walk(init):
        if isinstance(n, ast.Assign) and isinstance(n.value, ast.Call) and unparse(n.value.func).endswith("sqlite3.connect") \
                and isinstance(n.targets[0], ast.Name):
            conn = n.targets[0].id
            iso = [k for k in n.value.keywords if k.arg in ("isolation_level", "autocommit")]
            ctx.check("C13.blob", not iso, w, n, "connection opened with %s: implicit transactions no longer group the writes" % [k.arg for k in iso],
                      "default transaction handling (implicit transaction on DML)")
    if conn is None:
        ctx.undecided("C13.blob", w, init, "sqlite3.connect(...) not found")
        return
    tf = None
    for n in ast.walk(init):
        if isinstance(n, ast.Assign) and isinstance(n.targets[0], ast.Attribute) and n.targets[0].attr == "text_factory" \
                and unparse(n.targets[0].value) == conn:
            tf = n
    ctx.check("C13.blob", tf is not None and unparse(tf.value) == "bytes", w, tf or init,
              "connection must use text_factory = bytes so that serialized records are read back unchanged", "text_factory = bytes")
    # every sub-store gets this same connection
    shared = 0
    for n in ast.walk(init):
        if isinstance(n, ast.Assign) and is_self_attr(n.targets[0]) and isinstance(n.value, ast.Call):
            k = ctx.repo.resolve_expr_class(c.module, n.value.func)
            if k is not None and k.relpath.startswith(DIR):
                ok = len(n.value.args) == 1 and unparse(n.value.args[0]) == conn
                shared += 1
                ctx.check("C13.blob", ok, w, n, "sub-store is not given the configured connection", "sub-store shares the configured connection")
    # nobody assigns isolation_level anywhere
    for m in ctx.repo.modules.values():
        for n in ast.walk(m.tree):
            if isinstance(n, ast.Assign):
                for t in n.targets:
                    if isinstance(t, ast.Attribute) and t.attr in ("isolation_level", "autocommit"):
                        ctx.violate("C13.blob", where(m.relpath, "", n.lineno), n, "transaction mode of the connection is changed")


DELETERS = ("deleteSession", "deleteAllSessions", "removePreKey", "removeSignedPreKey")


def rule_above(ctx):
    """all-or-nothing one level above the store: the record-removing store calls are made by python-axolotl inside its
    own update sequences; yowsup code outside the store package must not call them - a 'delete, then rebuild' written
    in the manager or a layer is two committed steps with a window (or a failing rebuild) in which the record is gone"""
    repo = ctx.repo
    n = 0
    for m in sorted(repo.modules.values(), key=lambda m: m.relpath):
        if "/demos/" in m.relpath or m.relpath.startswith("yowsup/axolotl/store/") or "/test_" in m.relpath:
            continue
        for c in list(m.classes.values()):
            for name, fn in sorted(c.methods.items()):
                n += 1
                for x in ast.walk(fn):
                    if isinstance(x, ast.Call) and isinstance(x.func, ast.Attribute) and x.func.attr in DELETERS:
                        # only the replace shape: something later in the same function puts a record back
                        rebuild = [y for y in ast.walk(fn) if isinstance(y, ast.Call) and isinstance(y.func, ast.Attribute) and getattr(y, "lineno", 0) > x.lineno
                                   and (y.func.attr.startswith(("store", "process", "save")) or y.func.attr in ("create_session", "encrypt", "group_encrypt"))]
                        if not rebuild:
                            continue
                        ctx.violate("C13.replace", where(m.relpath, "%s.%s" % (c.name, name), x.lineno), x,
                                    "code above the store removes a record itself (%s) and relies on later calls to put a new one back: the removal is committed on its own, so a crash - or an exception in the rebuild - in between leaves the contact without that record" % x.func.attr)
    ctx.hold("C13.replace", where("yowsup/axolotl/manager.py", "AxolotlManager", None), "record removal is left to the store's callers inside python-axolotl", "%d methods above the store examined: none removes sessions / prekeys itself" % n)


def run(ctx):
    ctx.rule("C13.commit", "every write statement is followed by a commit on every normal path", floor=9)
    ctx.rule("C13.replace", "no commit between DELETE and INSERT replacing one record; or single INSERT OR REPLACE", floor=3)
    ctx.rule("C13.schema", "columns/placeholders/keys agree with the schema; loaders read what writers write; consistent key binding", floor=30)
    ctx.rule("C13.blob", "text_factory=bytes on the shared connection, default transaction mode", floor=7)
    ctx.assume("SQLite journalled transactions; sqlite3 opens an implicit transaction before INSERT/UPDATE/DELETE and commit() ends it")
    model = StoreModel(ctx)
    unknown = [e for effs in model._node_eff.values() for l in effs.values() for e in l if e[0] == "SQL?"]
    for e in unknown:
        ctx.undecided("C13.schema", where("", "", e[1].line), e[1].stmt, "SQL text of this execute() is not a constant")
    ctx.guarded("C13.commit_replace", rule_commit_replace, ctx, model)
    ctx.guarded("C13.schema", rule_schema, ctx, model)
    ctx.guarded("C13.bind", rule_bind, ctx, model)
    ctx.guarded("C13.blob", rule_blob, ctx, model)
    ctx.guarded("C13.replace", rule_above, ctx)
    ctx.units["C13.tables"] = sorted(model.tables)
    ctx.units["C13.sql_statements"] = len(model.stmts)
