"""C08 - request/response correlation.

C08.owner  who-may-write: registries are bound by constructors only, entries removed by processIqRegistry only
C08.stack  the composition rule (no registry-owning layer twice in a stack)

C08.state  the registries (and every attribute the two registry-owning classes mutate in place) are bound per instance

C08.reg    in both _sendIq the registry write dominates the send
C08.pop    in both processIqRegistry: lookup by the reply's id, entry deleted before any callback runs,
           result -> success callback, error -> error callback, called with (reply, original request), True iff found
C08.first  every receive override consults the registry first and dispatches only when it returned False
C08.cb     every callback registered through _sendIq binds (reply, original request)
C08.id     ids come from the process-wide counter unless given
C08.hist   abstract execution of the repository's own _sendIq / receive over all histories (bounded) of sends and
           replies with concrete ids: each reply reaches its request's callback exactly once
"""
import ast
import itertools

from ..absint import Interp, Obj, Node, _Raise, C_NONE, show, clone_value
from ..calls import bind_problems
from ..cfg import CFG, edge_region, fmt_path, walk_no_nested
from ..consts import Evaluator, alts
from ..deps import node_exprs
from ..layers import LayerRunner, LAYERS
from ..report import where
from ..repo import unparse, is_self_attr, params_of, func_is_static

IFACE = "yowsup/layers/interface/interface.py"
PENT = "yowsup/structs/protocolentity.py"

REGISTRIES = [(LAYERS, "YowProtocolLayer"), (IFACE, "YowInterfaceLayer")]


def find_nodes(g, pred):
    out = []
    for n in g.live:
        for e in node_exprs(n):
            for x in walk_no_nested(e):
                if pred(x):
                    out.append((n, x))
    return out


def rule_reg(ctx):
    """a request is registered - under its own id, with (request, success callback, error callback) - at the moment it
    leaves the layer: _sendIq is abstractly executed and the registry is inspected when the stanza goes down (a reply
    may arrive on another thread right after)"""
    for rel, cn in REGISTRIES:
        fn = ctx.repo.method(rel, cn, "_sendIq")
        w = where(rel, cn + "._sendIq", fn.lineno)
        sim = HistSim(ctx.repo, rel, cn)
        r = sim.run([("send", "r1")])
        snap = sim.sent
        if r and r[0][1] == "raise":
            ctx.violate("C08.reg", w, fn, "_sendIq raises for a plain iq request: %s" % r[0][2][:60])
            continue
        if len(snap) != 1:
            ctx.violate("C08.reg", w, fn, "expected the request to be sent exactly once by _sendIq, found %d send(s)" % len(snap))
            continue
        down, registered = snap[0]
        ent = registered.get("r1")
        from ..layers import registry_entries
        trip = registry_entries(("dict", {"r1": ent}))[:1] if ent is not None else []
        ctx.check("C08.reg", ent is not None, w, "registered before the send",
                  "the request is sent before (or without) being registered under its id: a fast reply finds no entry (registry at send time: %s)" % sorted(map(str, registered)),
                  "the registry holds the request's id when the stanza goes down")
        req = sim.reqs["r1"]
        val_ok = bool(trip) and trip[0][0][0] == "obj" and trip[0][0][1] is req[1] \
            and [x[0] == "closure" and "%r" % k in unparse(x[1]) for x, k in zip(trip[0][1:], ("ok", "err"))] == [True, True]
        ctx.check("C08.reg", bool(val_ok), w, "registry[id] = (request, success, error)",
                  "the entry must be keyed by the request's id and hold (request, success callback, error callback)", "keyed by request id; (request, success, error)")
        same = (down[0] == "obj" and down[1] is req[1]) or (down[0] == "node" and getattr(down[1], "made_by", (None, None))[0] is req[1])
        ctx.check("C08.reg", bool(same), w, "the registered request is what is sent", "something other than the registered request is sent", "the registered request is sent")


def rule_pop(ctx):
    """the reply side, by abstract execution with a re-entrant environment: the callback of a consumed reply is invoked
    once even when the same reply is delivered again *from inside the callback* (the entry is gone before the callback
    runs); result selects the success callback and error the error callback, each called with (reply, original request);
    the registry reports True exactly for a consumed reply; only <iq> stanzas are matched"""
    for rel, cn in REGISTRIES:
        fn = ctx.repo.method(rel, cn, "processIqRegistry")
        w = where(rel, cn + ".processIqRegistry", fn.lineno)
        sim = HistSim(ctx.repo, rel, cn)
        for rtype, cbname in (("result", "ok"), ("error", "err")):
            got = sim.run([("send", "r1"), ("reply", "r1", rtype, "iq")], reenter=True)
            rep = [g for g in got if g[0][0] == "reply"]
            if not rep or rep[0][1] == "raise":
                ctx.violate("C08.pop", w, "%s reply" % rtype, "a %s reply raises: %s" % (rtype, rep[0][2][:60] if rep else "not run"))
                continue
            step, ncb, nup, detail = rep[0]
            ctx.check("C08.pop", ncb == 1, w, "%s reply delivered again from inside its callback" % rtype,
                      "the callback can run while the entry is still registered: a reply arriving during the callback (or a replay) invokes it again (%d invocations)" % ncb if ncb > 1 else "the %s callback must be called exactly once (found %d)" % ("success" if rtype == "result" else "error", ncb),
                      "entry removed before the callback runs: one invocation")
            ctx.check("C08.pop", [d[0] for d in detail[:1]] == [cbname], w, "%s reply selects the %s callback" % (rtype, "success" if cbname == "ok" else "error"),
                      "a %s reply invokes %s" % (rtype, [d[0] for d in detail] or "no callback"), "type %r selects this callback" % rtype)
            ctx.check("C08.pop", bool(detail) and all(d[2] and d[3] for d in detail), w, "%s callback arguments" % rtype,
                      "the callback must receive (reply, original request)", "called with (reply, original request)")
        # return value of processIqRegistry itself: True iff an entry was found; only <iq> is looked up
        vals = {}
        for label, hist, probe in (("found", [("send", "r1")], ("r1", "result", "iq")), ("unknown id", [("send", "r1")], ("zz", "result", "iq")),
                                   ("not an iq", [("send", "r1")], ("r1", "result", "message")), ("other iq type", [("send", "r1")], ("r1", "set", "iq"))):
            vals[label] = sim.probe_registry(hist, probe)
            if label == "not an iq":
                kept = sim.last_registry_has("r1")
            if label == "other iq type":
                kept_req = sim.last_registry_has("r1")
        # an iq that is not a reply (a server request - get / set - that happens to carry a pending id: own ids are "1",
        # "2", ...) is an ordinary stanza: not consumed, and the pending entry stays for the real reply
        want = {"found": ("c", True), "unknown id": ("c", False), "not an iq": ("c", False), "other iq type": ("c", False)}
        ok = all(vals[k] == want[k] for k in want)
        ctx.check("C08.pop", ok, w, "return value", "processIqRegistry must return True exactly when an entry was found (a consumed reply would otherwise also be dispatched as an ordinary stanza, or an ordinary stanza swallowed); got %s" % {k: show(v)[:12] for k, v in vals.items()}, "True iff an entry was found")
        ctx.check("C08.pop", vals["other iq type"] == ("c", False) and kept_req, w, "only replies are matched",
                  "an incoming iq request (type get / set) whose id equals a pending request's id %s: %s" % (
                      "is consumed as if it were the reply" if vals["other iq type"] == ("c", True) else "is not handled as an ordinary stanza",
                      "the pending entry is deleted without any callback, so the real reply never reaches its callback - and a server ping with that id gets no pong" if not kept_req else "the request is swallowed"),
                  "a non-reply iq with a pending id is an ordinary stanza and leaves the entry alone")
        ctx.check("C08.pop", vals["not an iq"] == ("c", False) and kept, w, "only <iq> is looked up", "non-iq stanzas must not be matched against the registry", "a non-iq stanza with a pending id leaves the entry alone")


def receive_overrides(repo):
    out = []
    for rel, cn in REGISTRIES:
        base = repo.cls(rel, cn)
        for c in [base] + repo.all_subclasses(base):
            if "receive" in c.methods and not c.name.endswith("Test") and "/demos/" not in c.relpath:
                out.append(c)
    return out


def rule_first(ctx):
    """every receive() of a registry-owning layer consults the registry first and, when the registry consumed the
    stanza, does nothing else - by abstract execution of receive with processIqRegistry answering True (for each
    stanza kind, over all cells of the stanza's attributes): no delivery, no send, no registration, no callback"""
    from ..absint import enumerate_cells, Budget, flat_effects
    from ..layers import symbolic_node
    repo = ctx.repo
    for c in receive_overrides(repo):
        fn = c.methods["receive"]
        repo.consulted.add(c.relpath)
        w = where(c.relpath, c.name + ".receive", fn.lineno)
        entity_based = any(k.name == "YowInterfaceLayer" for k in repo.mro(c))
        iqcls = [k for k in repo.by_simple.get("IqProtocolEntity", []) if "protocol_iq" in k.relpath][0]
        bad, asked_total, problem = [], 0, None
        for tag in ("iq", "message", "receipt", "notification"):
            def run(cell, domains, tag=tag):
                runner = LayerRunner(repo)
                hooks = runner.hooks()
                asked = []

                def registry(itp, recv, a, k, env, d, e):
                    asked.append(list(a))
                    return ("c", True)
                hooks["method:processIqRegistry"] = registry
                it = Interp(repo, cell, domains, hooks=hooks)
                it.layer_base = runner.base
                layer = runner.make_layer(it, c)
                if entity_based and "entity_callbacks" in layer[1].fields:
                    # an application that subscribed to every kind of entity (@ProtocolEntityCallback("iq") ...): its handler
                    # must not see - and must not pre-empt - a reply the registry consumes
                    lam = ast.parse("lambda entity: __app__(entity)", mode="eval").body
                    appcb = ("closure", lam, {"@module": c.module, "@owner": None}, None, None)
                    layer[1].fields["entity_callbacks"] = ("dict", {t: appcb for t in ("iq", "message", "receipt", "notification")})
                    it.hooks["builtin:__app__"] = lambda itp, e, a, k, env, d: (itp.emit("UP", ("ext", "application callback", [])), C_NONE)[1]
                if entity_based:
                    o = Obj(iqcls)
                    o.fields.update({"tag": ("c", tag), "_id": ("c", "r1"), "_type": ("c", "result"), "xmlns": C_NONE, "to": C_NONE, "_from": C_NONE})
                    arg = ("obj", o)
                else:
                    arg = symbolic_node(tag)
                it.effects[:] = []
                res = {"raised": None, "asked": asked, "arg": arg}
                try:
                    it.method_call(layer, "receive", [arg], {}, {"@module": c.module, "@owner": c}, 0, None)
                except _Raise as r:
                    res["raised"] = r.text
                res["effects"] = [e for e in flat_effects(it.effects) if e[0] in ("UP", "DOWN", "REG", "EMIT", "BCAST")]
                return res, it
            try:
                cells = enumerate_cells(run, {}, max_cells=400)
            except Budget:
                problem = "cell budget exceeded for <%s>" % tag
                break
            for cell, r in cells:
                if not r["asked"]:
                    continue                 # this kind of stanza never reaches the registry in this layer (nothing consumed)
                asked_total += 1
                a0 = r["asked"][0]
                same = len(r["asked"]) == 1 and len(a0) == 1 and a0[0][0] == r["arg"][0] and a0[0][1] is r["arg"][1]
                if not same:
                    bad.append("<%s>: the registry is consulted %d time(s), not once with the received stanza" % (tag, len(r["asked"])))
                if r["effects"] or r["raised"]:
                    bad.append("<%s>: although the registry consumed the stanza it is %s" % (tag, "also " + "/".join(sorted({e[0] for e in r["effects"]})) if r["effects"] else "followed by " + str(r["raised"])[:40]))
        if problem:
            ctx.undecided("C08.first", w, fn, problem)
        elif not asked_total:
            ctx.violate("C08.first", w, fn, "receive never consults processIqRegistry: replies to this layer's requests are dispatched as ordinary stanzas")
        else:
            ctx.check("C08.first", not bad, w, "registry consulted first; a consumed stanza is not dispatched",
                      "dispatch is reachable although the registry consumed the stanza (or before it was consulted): " + "; ".join(sorted(set(bad))[:2]),
                      "consulted once with the received stanza in %d path classes; nothing else happens when it answers True" % asked_total)


def semantic_registrations(repo):
    """what each protocol layer actually registers, found by sending every concrete entity class through the default
    protocol group (all optional modules present) and reading the layers' registries afterwards:
    layer class name -> [(entity class, success callback value, error callback value)]"""
    from ..absint import enumerate_cells, Budget
    from ..routing import GroupSim, concrete_entity_classes
    from ..stackmodel import FLAGS
    out = {}
    sim = GroupSim(repo, {f: True for f in FLAGS})
    for c in concrete_entity_classes(repo):
        try:
            res = enumerate_cells(lambda cell, d: sim.send(c, cell, d), {}, max_cells=400)
        except Budget:
            continue
        for _cell, rs in res:
            for (lc, _ent, okcb, errcb) in rs.get("registrations", []) or []:
                out.setdefault(lc.name, {})[c.name] = (c, okcb, errcb)
    return {k: list(v.values()) for k, v in out.items()}


def callback_value_problems(repo, cb):
    """why a registered callback value cannot be called with (reply, original request); [] when it can"""
    if cb[0] == "c" and cb[1] is None:
        return []
    if cb[0] == "bound" and cb[1][0] == "obj" and cb[1][1].cls is not None:
        k, target = repo.find_method(cb[1][1].cls, cb[2])
        if target is None:
            return ["%s has no method %s" % (cb[1][1].cls.name, cb[2])]
        return bind_problems(target, None, not func_is_static(target), extra_positional=2)
    if cb[0] == "closure":
        fn = cb[1]
        if isinstance(fn, ast.Lambda):
            return [] if len(fn.args.args) == 2 or fn.args.vararg else ["lambda takes %d parameter(s)" % len(fn.args.args)]
        return bind_problems(fn, None, False, extra_positional=2)
    return ["not a callable the analysis knows (%s)" % show(cb)[:40]]


def rule_cb(ctx):
    repo = ctx.repo
    n = 0
    sem_cache = []

    def by_execution(c, w, what):
        """the callbacks of a registration the source does not name directly (taken from a table, a tuple, a helper): the
        registrations this layer makes when every entity class is sent through it, each checked as a value"""
        if not sem_cache:
            try:
                sem_cache.append(semantic_registrations(repo))
            except Exception as x:      # noqa: the execution is an aid; without it the callback stays unresolved
                sem_cache.append({})
        regs = sem_cache[0].get(c.name) or []
        if not regs:
            ctx.undecided("C08.cb", w, what, "callback could not be resolved")
            return 0
        for ec, okcb, errcb in regs:
            for role, cb in (("result", okcb), ("error", errcb)):
                probs = callback_value_problems(repo, cb)
                ctx.check("C08.cb", not probs, w, "%s callback registered for %s" % (role, ec.name), "registered callback cannot be called with (reply, original request): %s" % "; ".join(probs), "binds (reply, original request)")
        return 2 * len(regs)
    executed = set()
    for m in repo.modules.values():
        if "/demos/" in m.relpath:
            continue
        for c in m.classes.values():
            for fname, fn in c.methods.items():
                for call in ast.walk(fn):
                    if not (isinstance(call, ast.Call) and is_self_attr(call.func, "_sendIq")):
                        continue
                    repo.consulted.add(m.relpath)
                    cbs = list(call.args[1:3]) + [k.value for k in call.keywords if k.arg in ("onSuccess", "onError")]
                    starred = [x for x in cbs if isinstance(x, ast.Starred)]
                    if starred:
                        # callbacks taken from a table of method names (`*[getattr(self, name) for name in names]`): every
                        # method the class's constant tables name must bind (reply, original request)
                        cbs = [x for x in cbs if not isinstance(x, ast.Starred)]
                        names = set()
                        for kk in repo.mro(c):
                            for ce in kk.consts.values():
                                for x in ast.walk(ce):
                                    if isinstance(x, ast.Constant) and isinstance(x.value, str) and repo.find_method(c, x.value)[1] is not None:
                                        names.add(x.value)
                        if not names and (c.name, fname) not in executed:
                            executed.add((c.name, fname))
                            n += by_execution(c, where(m.relpath, c.name + "." + fname, call.lineno), starred[0])
                        for nm in sorted(names):
                            n += 1
                            k_, target = repo.find_method(c, nm)
                            probs = bind_problems(target, None, not func_is_static(target), extra_positional=2)
                            ctx.check("C08.cb", not probs, where(m.relpath, c.name + "." + fname, call.lineno), "callback %s (from a table of names)" % nm, "registered callback cannot be called with (reply, original request): %s" % "; ".join(probs), "binds (reply, original request)")
                    for cb in cbs:
                        n += 1
                        w = where(m.relpath, c.name + "." + fname, call.lineno)
                        target = None
                        implicit = False
                        if is_self_attr(cb):
                            k, target = repo.find_method(c, cb.attr)
                            implicit = target is not None and not func_is_static(target)
                        elif isinstance(cb, ast.Lambda):
                            target = cb
                        elif isinstance(cb, ast.Name):
                            for x in ast.walk(fn):
                                if isinstance(x, ast.FunctionDef) and x.name == cb.id:
                                    target = x
                                elif isinstance(x, ast.Assign) and isinstance(x.targets[0], ast.Name) and x.targets[0].id == cb.id and isinstance(x.value, ast.Lambda):
                                    target = x.value
                            if target is None and cb.id in params_of(fn):
                                ctx.hold("C08.cb", w, "callback %s" % cb.id, "caller-supplied callback passed through")
                                continue
                        elif isinstance(cb, ast.Constant) and cb.value is None:
                            continue
                        if target is None:
                            # fetched by name from a table (`ok, err = [getattr(self, n) for n in names]`): every method the
                            # class's constant tables name must bind (reply, original request)
                            dyn = isinstance(cb, ast.Name) and any(isinstance(x, ast.Call) and isinstance(x.func, ast.Name) and x.func.id == "getattr" for st in ast.walk(fn)
                                                                   if isinstance(st, ast.Assign) and any(isinstance(t, ast.Name) and t.id == cb.id for tt in st.targets for t in ast.walk(tt)) for x in ast.walk(st.value))
                            names = set()
                            if dyn:
                                for kk in repo.mro(c):
                                    for ce in kk.consts.values():
                                        for x in ast.walk(ce):
                                            if isinstance(x, ast.Constant) and isinstance(x.value, str) and repo.find_method(c, x.value)[1] is not None:
                                                names.add(x.value)
                            if not names:
                                if (c.name, fname) not in executed:
                                    executed.add((c.name, fname))
                                    n += by_execution(c, w, cb)
                                continue
                            for nm in sorted(names):
                                k_, tgt = repo.find_method(c, nm)
                                probs = bind_problems(tgt, None, not func_is_static(tgt), extra_positional=2)
                                ctx.check("C08.cb", not probs, w, "callback %s (from a table of names)" % nm, "registered callback cannot be called with (reply, original request): %s" % "; ".join(probs), "binds (reply, original request)")
                            continue
                        probs = bind_problems(target, None, implicit, extra_positional=2) if not isinstance(target, ast.Lambda) else \
                            ([] if len(target.args.args) == 2 or target.args.vararg else ["lambda takes %d parameter(s)" % len(target.args.args)])
                        ctx.check("C08.cb", not probs, w, "callback %s" % unparse(cb)[:50], "registered callback cannot be called with (reply, original request): %s" % "; ".join(probs), "binds (reply, original request)")
    return n


def generated_ids(repo, n=3, short=False, classes=None, clock="1700000000"):
    """abstract execution of ProtocolEntity._generateId, n times in a row on instances of different entity classes, the
    clock frozen (all ids fall into the same second): -> list of abstract id values"""
    base = repo.cls(PENT, "ProtocolEntity")
    subs = classes or [base]
    frozen = lambda itp, recv, a, k, env, d, e: ("c", float(clock))
    it = Interp(repo, {}, {}, hooks={"ext:time.time": frozen, "ext:module time.time": frozen})
    out = []
    for i in range(n):
        o = ("obj", Obj(subs[i % len(subs)]))
        try:
            v = it.method_call(o, "_generateId", [("c", True)] if short else [], {}, {"@module": base.module, "@owner": base}, 0, None)
        except _Raise as r:
            v = ("unk", "raises " + r.text)
        out.append(v)
    return out


def rule_id(ctx):
    """ids are unique within the process: _generateId is abstractly executed several times in a row - on instances of
    different entity classes, inside one clock second - and the values must be pairwise different constants, in the
    long and the short form (a per-class or per-instance counter, or an id without the counter, repeats)"""
    repo = ctx.repo
    fn = repo.method(PENT, "ProtocolEntity", "_generateId")
    w = where(PENT, "ProtocolEntity._generateId", fn.lineno)
    base = repo.cls(PENT, "ProtocolEntity")
    subs = [base]
    for name in ("IqProtocolEntity", "MessageProtocolEntity", "ReceiptProtocolEntity"):
        for c in repo.by_simple.get(name, []):
            if base in repo.mro(c) and c not in subs:
                subs.append(c)
                break
    for short in (False, True):
        ids = generated_ids(repo, n=2 * len(subs), short=short, classes=subs)
        label = "%s ids, %d in a row across %d entity classes within one second" % ("short" if short else "long", len(ids), len(subs))
        if not all(v[0] == "c" and isinstance(v[1], str) for v in ids):
            from ..absint import show as _show
            # not constants: the interpreter could not follow the generator
            ctx.undecided("C08.id", w, label, "generated id is not evaluated to a string: %s" % [_show(v)[:30] for v in ids][:3])
            continue
        vals = [v[1] for v in ids]
        ctx.check("C08.id", len(set(vals)) == len(vals), w, label,
                  "generated ids repeat (%s): the counter is not process-wide (per class / per instance) or is not part of the id" % vals[:4],
                  "pairwise different (%s, ...)" % ", ".join(vals[:2]))
    iq = None
    for c in repo.by_simple.get("IqProtocolEntity", []):
        if "protocol_iq" in c.relpath:
            iq = c
    if iq is None:
        ctx.undecided("C08.id", w, "IqProtocolEntity", "class not found")
        return
    init = iq.methods["__init__"]
    repo.consulted.add(iq.relpath)
    src = unparse(init)
    ok = "_generateId" in src and any(isinstance(n, ast.IfExp) or isinstance(n, ast.BoolOp) for n in ast.walk(init))
    ctx.check("C08.id", ok, where(iq.relpath, "IqProtocolEntity.__init__", init.lineno), "self._id = given id or generated id", "an iq must take the given id or a freshly generated one", "given id, else generated")


# ----------------------------------------------------------------------------- abstract histories
class HistSim:
    def __init__(self, repo, rel, cn):
        self.repo = repo
        self.cls = repo.cls(rel, cn)
        self.runner = LayerRunner(repo)
        self.entity_based = cn == "YowInterfaceLayer"
        self.iqcls = [c for c in repo.by_simple.get("IqProtocolEntity", []) if "protocol_iq" in c.relpath][0]

    def hooks(self):
        h = self.runner.hooks()
        return h

    def make_request(self, it, rid):
        o = Obj(self.iqcls)
        o.fields.update({"tag": ("c", "iq"), "_id": ("c", rid), "_type": ("c", "get"), "xmlns": ("c", "x"), "to": C_NONE, "_from": C_NONE})
        return ("obj", o)

    def make_reply(self, it, rid, rtype, tag="iq"):
        if self.entity_based:
            o = Obj(self.iqcls)
            o.fields.update({"tag": ("c", tag), "_id": ("c", rid), "_type": ("c", rtype), "xmlns": C_NONE, "to": C_NONE, "_from": C_NONE})
            return ("obj", o)
        n = Node(("c", tag), None)
        n.attrs["id"] = ("c", rid)
        n.attrs["type"] = ("c", rtype)
        return ("node", n)

    def registry_of(self, layer):
        r = layer[1].fields.get("iqRegistry")
        return dict(r[1]) if r is not None and r[0] == "dict" else {}

    def last_registry_has(self, rid):
        return rid in self.registry_of(self.layer)

    def probe_registry(self, history, probe):
        """value returned by processIqRegistry(reply) after `history`"""
        self.run(history)
        rep = self.make_reply(self.it, *probe)
        try:
            return self.it.method_call(self.layer, "processIqRegistry", [rep], {}, {"@module": self.cls.module}, 0, None)
        except _Raise as r:
            return ("unk", "raises " + r.text[:30])

    def run(self, history, reenter=False):
        """history: list of ('send', rid) | ('reply', rid, type, tag).  -> (log of callback invocations, dispatched stanzas)
        reenter: every callback invocation delivers the reply that triggered it once more, from inside the callback"""
        hooks = self.hooks()
        self.sent = []
        down0 = hooks.get("method:toLower")

        def down(itp, recv, a, k, env, d, e):
            if recv[0] == "obj" and recv[1] is self.layer[1]:
                self.sent.append((a[0] if a else None, self.registry_of(self.layer)))
            return down0(itp, recv, a, k, env, d, e) if down0 is not None else None
        hooks["method:toLower"] = down
        it = Interp(self.repo, {}, {}, hooks=hooks)
        it.layer_base = self.runner.base
        layer = self.runner.make_layer(it, self.cls)
        self.it, self.layer = it, layer
        if "entity_callbacks" in layer[1].fields:
            layer[1].fields["entity_callbacks"] = ("dict", {})     # plain interface layer: no application callbacks
        log = []
        out = []
        reqs = {}
        self.reqs = reqs
        current = {"rep": None, "depth": 0}

        def mk_cb(kind, rid):
            lam = ast.parse("lambda reply, original: __record__(%r, %r, reply, original)" % (kind, rid), mode="eval").body
            return ("closure", lam, {"@module": self.cls.module, "@owner": None}, None, None)

        def record(itp, e, args, kwargs, env, depth):
            log.append((args[0][1], args[1][1], args[2], args[3]))
            if reenter and current["rep"] is not None and current["depth"] < 2:
                current["depth"] += 1
                try:
                    it.method_call(layer, "receive", [current["rep"]], {}, {"@module": self.cls.module}, 0, None)
                finally:
                    current["depth"] -= 1
            return C_NONE
        it.hooks["builtin:__record__"] = record
        for step in history:
            it.effects[:] = []
            try:
                if step[0] == "send":
                    rid = step[1]
                    req = self.make_request(it, rid)
                    reqs[rid] = req
                    it.method_call(layer, "_sendIq", [req, mk_cb("ok", rid), mk_cb("err", rid)], {}, {"@module": self.cls.module}, 0, None)
                else:
                    rep = self.make_reply(it, step[1], step[2], step[3])
                    current["rep"] = rep
                    before = len(log)
                    it.method_call(layer, "receive", [rep], {}, {"@module": self.cls.module}, 0, None)
                    ups = [e for e in it.effects if e[0] == "UP"]
                    out.append((step, len(log) - before, len(ups), [(l[0], l[1], l[2] is rep or (l[2][0] == rep[0] and l[2][1] is rep[1]), l[3][1] is reqs.get(l[1], (None, None))[1]) for l in log[before:]]))
            except _Raise as r:
                out.append((step, "raise", r.text))
        return out


def oracle(history):
    """expected (callbacks, dispatched-as-ordinary) per reply step"""
    outstanding = set()
    exp = []
    for step in history:
        if step[0] == "send":
            outstanding.add(step[1])
        else:
            _, rid, rtype, tag = step
            if tag == "iq" and rid in outstanding and rtype in ("result", "error"):
                outstanding.discard(rid)
                exp.append(([("ok", rid)] if rtype == "result" else [("err", rid)], False))
            else:
                # unknown id, replay, a non-iq stanza, or an iq REQUEST (get / set) that merely carries a pending id: an
                # ordinary stanza - no callback, and a pending entry stays pending
                exp.append(([], True))
    return exp


def rule_hist(ctx, tier):
    ids = ("r1", "r2")
    events = [("send", i) for i in ids] + [("reply", i, t, "iq") for i in ids + ("zz",) for t in ("result", "error", "set")] + [("reply", "r1", "result", "message")]
    maxlen = 4 if tier == "thorough" else 3
    for rel, cn in REGISTRIES:
        sim = HistSim(ctx.repo, rel, cn)
        w = where(rel, cn, None)
        n = 0
        bad = []
        for L in range(1, maxlen + 1):
            for hist in itertools.product(events, repeat=L):
                sends = [s[1] for s in hist if s[0] == "send"]
                if len(sends) != len(set(sends)) or not any(s[0] == "reply" for s in hist):
                    continue
                n += 1
                got = sim.run(hist)
                exp = oracle(hist)
                for (step, ncb, nup, detail), (ecb, edisp) in zip([g for g in got if g[0][0] == "reply"], exp):
                    if ncb == "raise":
                        bad.append((hist, "raises %s" % nup))
                        break
                    gcb = [(d[0], d[1]) for d in detail]
                    if gcb != ecb:
                        bad.append((hist, "reply %s invoked %s, expected %s" % (step[1:], gcb, ecb)))
                        break
                    if any(not (d[2] and d[3]) for d in detail):
                        bad.append((hist, "callback did not receive (this reply, its original request)"))
                        break
                    if not sim.entity_based:
                        pass
                    if edisp and sim.entity_based and nup != 1 and step[3] == "iq":
                        bad.append((hist, "an unmatched reply must be handled as an ordinary stanza (delivered upward), got %d deliveries" % nup))
                        break
                    if (not edisp) and nup:
                        bad.append((hist, "a reply consumed by the registry is also dispatched as an ordinary stanza"))
                        break
                if len(bad) > 5:
                    break
            if len(bad) > 5:
                break
        ctx.units["C08.histories_%s" % cn] = n
        if bad:
            h, what = bad[0]
            ctx.violate("C08.hist", w, "histories over 2 requests, length <= %d" % maxlen, "%s in history %s (%d failing histories shown up to 6)" % (what, list(h), len(bad)))
        else:
            ctx.hold("C08.hist", w, "histories over 2 requests, length <= %d" % maxlen, "%d histories: every reply reached exactly its request's callback once; replays / unknown ids / non-replies invoked none" % n)


def rule_state(ctx):
    """the registries are per layer instance: a registry shared between instances (two stacks in one process, two
    protocol layers) lets one layer consume - or answer for - another layer's request id"""
    from ..state import per_instance_state
    repo = ctx.repo
    n = 0
    for rel, cn in (("yowsup/layers/__init__.py", "YowProtocolLayer"), ("yowsup/layers/interface/interface.py", "YowInterfaceLayer")):
        n += per_instance_state(ctx, "C08.state", repo.cls(rel, cn))
    ctx.units["C08.state_attrs"] = n


def rule_owner(ctx):
    """who-may-write: a layer's iqRegistry is bound only by a constructor and entries leave it only inside
    processIqRegistry - any other rebinding / clearing / deletion (in whatever subclass) makes outstanding requests
    of that layer lose their callbacks"""
    repo = ctx.repo
    owners = [repo.cls(rel, cn) for rel, cn in REGISTRIES]
    n = 0
    for m in sorted(repo.modules.values(), key=lambda m: m.relpath):
        if "/demos/" in m.relpath:
            continue
        for c in m.classes.values():
            if not any(o in repo.mro(c) for o in owners):
                continue
            # the consuming side may be split into private helpers: everything processIqRegistry reaches through self calls
            # (and nothing else calls) belongs to it
            from .c12_order import reach_self_calls
            consumers = set(reach_self_calls(repo, c, "processIqRegistry"))
            for other, f2 in c.methods.items():
                if other not in consumers:
                    for x2 in ast.walk(f2):
                        if isinstance(x2, ast.Call) and is_self_attr(x2.func) and x2.func.attr in consumers and x2.func.attr != "processIqRegistry":
                            consumers.discard(x2.func.attr)
            from ..layers import event_handlers
            from ..consts import Evaluator as _Ev, alts as _alts
            table = event_handlers(repo, c)
            netc = repo.cls("yowsup/layers/network/layer.py", "YowNetworkLayer")
            down_events = {a_[0] for a_ in (_alts(_Ev(repo, netc.module, netc).class_const(netc, n_)) for n_ in ("EVENT_STATE_DISCONNECTED", "EVENT_STATE_DISCONNECT")) if a_}
            for name, f in sorted(c.methods.items()):
                # dropping what is pending when the connection is gone is not a correlation error: replies to those
                # requests can no longer arrive.  Which methods handle those events: the table the constructor registers.
                if table is not None:
                    on_down = any(m_ == name and ev_ in down_events for ev_, m_ in table.items())
                else:
                    on_down = any(isinstance(d, ast.Call) and unparse(d.func).split(".")[-1] == "EventCallback" and d.args and unparse(d.args[0]).endswith(("EVENT_STATE_DISCONNECTED", "EVENT_STATE_DISCONNECT"))
                                  for d in f.decorator_list)
                if on_down:
                    n += 1
                    continue
                for x in ast.walk(f):
                    bad = None
                    if isinstance(x, (ast.Assign, ast.AugAssign)):
                        for t in (x.targets if isinstance(x, ast.Assign) else [x.target]):
                            if isinstance(t, ast.Attribute) and t.attr == "iqRegistry" and isinstance(t.value, ast.Name) and t.value.id == "self" and name != "__init__":
                                bad = "rebinds the registry"
                    elif isinstance(x, ast.Delete) and name != "processIqRegistry" and name not in consumers:
                        for t in x.targets:
                            if isinstance(t, ast.Subscript) and unparse(t.value) == "self.iqRegistry":
                                bad = "deletes a registry entry"
                    elif isinstance(x, ast.Call) and isinstance(x.func, ast.Attribute) and x.func.attr in ("clear", "pop", "popitem") and unparse(x.func.value) == "self.iqRegistry" and name != "processIqRegistry" and name not in consumers:
                        bad = "removes registry entries"
                    if bad:
                        ctx.violate("C08.owner", where(m.relpath, "%s.%s" % (c.name, name), x.lineno), x,
                                    "%s outside the constructor / processIqRegistry: every request of this layer that is still waiting for its reply loses its callbacks (the reply surfaces as an unknown stanza, the application is never called)" % bad)
                n += 1
    ctx.hold("C08.owner", where("", "", None), "registry writers", "%d methods of registry-owning layers examined: only constructors bind, only processIqRegistry removes" % n)


def run(ctx):
    ctx.rule("C08.reg", "registry write dominates the send, keyed by id", floor=6)
    ctx.rule("C08.pop", "entry removed before callbacks, result/error pairing, arguments, return value", floor=16)
    ctx.rule("C08.first", "registry consulted before dispatch in every receive", floor=6)
    ctx.rule("C08.cb", "registered callbacks bind two arguments", floor=40)
    ctx.rule("C08.id", "process-wide id counter", floor=3)
    ctx.rule("C08.hist", "abstract execution of all bounded send/reply histories", floor=2)
    ctx.rule("C08.owner", "only constructors bind and only processIqRegistry removes from a registry", floor=1)
    ctx.rule("C08.entity", "the entity built for an iq reply carries the reply's own id and fields (C09.same / kept / ret adopted for iq classes)", floor=10)
    ctx.rule("C08.state", "the registries are bound per layer instance by the constructors", floor=2)
    ctx.assume("dict semantics of CPython; callbacks' own behaviour is the application's")
    ctx.guarded("C08.reg", rule_reg, ctx)
    ctx.guarded("C08.pop", rule_pop, ctx)
    ctx.guarded("C08.first", rule_first, ctx)
    ctx.guarded("C08.cb", rule_cb, ctx)
    ctx.guarded("C08.id", rule_id, ctx)
    ctx.guarded("C08.hist", rule_hist, ctx, ctx.tier)
    ctx.guarded("C08.state", rule_state, ctx)
    ctx.guarded("C08.owner", rule_owner, ctx)
    # the stack holds each registry-owning layer once (composition rule) and the entity delivered for a reply carries the
    # reply's own id and fields (C09.same / C09.kept), adopted
    from .c18 import rule_composition
    ctx.guarded("C08.stack", rule_composition, ctx, "C08.stack")
    # "whatever layer of the stack transports them": an error reply to every request kind the group forwards reaches the top
    from . import c08_transit
    ctx.rule("C08.transit", "an error reply to every request kind the protocol group forwards reaches the interface layer once", floor=20)
    ctx.guarded("C08.transit", c08_transit.rule_transit, ctx)
    from . import c09
    iq_base = ctx.repo.cls("yowsup/layers/protocol_iq/protocolentities/iq.py", "IqProtocolEntity")
    ctx.adopt_from("C09", [(c09.rule_classes, (lambda c: iq_base in ctx.repo.mro(c),))], {"C09.same": "C08.entity", "C09.kept": "C08.entity", "C09.ret": "C08.entity"})
