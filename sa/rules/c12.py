"""C12 - a failure while sending or receiving does not wedge the stack.

C12.rel    every acquire() is followed by the matching release() on every path to every
           exit, exceptional exits included (each call may raise)
C12.drain  delivery loops consume an element before delivering it and no handler inside the loop resumes it
C12.order  lock-order graph over the resolved stack is acyclic; no chain re-acquires a held lock
C12.block  blocking get() without timeout (reported with C04.attempt)
"""
import ast

from ..cfg import CFG, fmt_path, walk_no_nested
from ..report import where
from ..repo import unparse

SCOPE_EXCLUDE = ("yowsup/demos/",)


def lock_calls(stmt, what):
    """lock expressions L for which `L.<what>()` occurs in this statement (not nested defs)"""
    out = []
    if stmt is None:
        return out
    roots = [stmt]
    if isinstance(stmt, (ast.If, ast.While)):
        roots = [stmt.test]
    elif isinstance(stmt, ast.For):
        roots = [stmt.iter]
    elif isinstance(stmt, (ast.With, ast.Try, ast.ExceptHandler, ast.FunctionDef, ast.ClassDef)):
        return out
    for r in roots:
        for n in walk_no_nested(r):
            if isinstance(n, ast.Call) and isinstance(n.func, ast.Attribute) and n.func.attr == what:
                out.append(unparse(n.func.value))
    return out


def iter_functions(repo, exclude=SCOPE_EXCLUDE):
    for m in repo.modules.values():
        if any(m.relpath.startswith(x) for x in exclude):
            continue
        for c in m.classes.values():
            for f in c.methods.values():
                yield m, c, f
        for f in m.functions.values():
            yield m, None, f


_LOCK_ATTRS = {}


def rule_rel(ctx):
    _LOCK_ATTRS.clear()
    ctx.rule("C12.rel", "every lock acquire() reaches the matching release() on every path to every exit, including exceptional ones", floor=4)
    for m, c, f in iter_functions(ctx.repo):
        has = False
        for n in ast.walk(f):
            if isinstance(n, ast.Call) and isinstance(n.func, ast.Attribute) and n.func.attr == "acquire":
                has = True
                break
        # `with <lock>:` is the same critical section with the release guaranteed by the context manager
        lock_attrs = _LOCK_ATTRS.get(c.qname) if c is not None else set()
        if lock_attrs is None:
            lock_attrs = _LOCK_ATTRS.setdefault(c.qname, set())
            for k in ctx.repo.mro(c):
                for fn_ in k.methods.values():
                    for n in ast.walk(fn_):
                        if isinstance(n, ast.Assign) and isinstance(n.value, ast.Call) and unparse(n.value.func).split(".")[-1] in ("Lock", "RLock", "Condition", "Semaphore", "BoundedSemaphore"):
                            lock_attrs |= {unparse(t) for t in n.targets}
        for n in ast.walk(f):
            if isinstance(n, ast.With):
                for i in n.items:
                    txt = unparse(i.context_expr)
                    if txt in lock_attrs or txt.lower().endswith("lock"):
                        ctx.repo.consulted.add(m.relpath)
                        ctx.hold("C12.rel", where(m.relpath, (c.name + "." if c else "") + f.name, n.lineno), "with %s" % txt, "released by the context manager on every exit")
        if not has:
            continue
        ctx.repo.consulted.add(m.relpath)
        g = CFG(f)
        qn = (c.name + "." if c else "") + f.name
        for n in g.stmt_nodes():
            for L in lock_calls(n.stmt, "acquire"):
                rel = [x for x in g.stmt_nodes() if L in lock_calls(x.stmt, "release")]
                ok, p = g.must_pass(n, rel, [g.exit, g.raise_exit],
                                    edge_ok=lambda a, b, k, n=n: not (a is n and k == "exc"))
                w = where(m.relpath, qn, n.line)
                if ok:
                    ctx.hold("C12.rel", w, "%s.acquire()" % L, "released on all %d path classes" % len(rel))
                else:
                    kind = "exceptional" if p[-1] is g.raise_exit else "normal"
                    ctx.violate("C12.rel", w, "%s.acquire()" % L,
                                "lock %s stays held on a %s exit: %s" % (L, kind, fmt_path(p)))


# calls into external libraries that consume one element of layer state (reviewed, one line each)
EXTERNAL_CONSUMERS = {
    "self._wa_noiseprotocol.receive": "_incoming_segments_queue",   # consonance: WANoiseProtocol.receive() reads one segment from the stream the layer feeds from this queue
}
CONSUMING_METHODS = {"pop", "popleft", "get", "get_nowait", "clear", "remove"}


def rule_drain(ctx):
    """delivery loops (a while-loop in a layer that hands elements of instance state upward): the element is consumed
    before its delivery can raise, and no handler inside the loop resumes it - otherwise a failure above leaves the
    same element at the head forever (every later frame fails) or the loop spins without consuming (holding its lock)."""
    from ..cfg import edge_region, calls_in
    ctx.rule("C12.drain", "delivery loops consume before delivering and never resume after a failure", floor=3)
    repo = ctx.repo
    base = repo.cls("yowsup/layers/__init__.py", "YowLayer")
    n_loops = 0
    from . import c05 as _c05
    for m, c, f in iter_functions(repo):
        if c is None or base not in repo.mro(c):
            continue
        if c.name == _c05.CLS and m.relpath == _c05.FILE:
            continue          # the segment reader is judged by symbolic execution below (whatever its loop looks like)
        if not any(isinstance(x, ast.While) for x in ast.walk(f)):
            continue
        from ..repo import inline_self_aliases
        f, _al = inline_self_aliases(f)
        g = CFG(f)
        qn = c.name + "." + f.name
        for loop in [n for n in g.live if n.kind == "test" and isinstance(n.stmt, ast.While)]:
            body = edge_region(g, loop, "true")
            ups = [n for n in body if calls_in(n, "toUpper", selfonly=True)]
            if not ups:
                continue
            ctx.repo.consulted.add(m.relpath)
            n_loops += 1
            state = sorted({x.attr for x in ast.walk(loop.stmt.test) if isinstance(x, ast.Attribute) and isinstance(x.value, ast.Name) and x.value.id == "self"
                            and not (isinstance(getattr(x, "ctx", None), ast.Load) and False)} - set(c.methods))
            w = where(m.relpath, qn, loop.line)

            def consumes(n):
                st = n.stmt
                if n.kind == "stmt" and isinstance(st, (ast.Assign, ast.AugAssign, ast.Delete)):
                    tg = st.targets if isinstance(st, (ast.Assign, ast.Delete)) else [st.target]
                    for t in tg:
                        while isinstance(t, ast.Subscript):
                            t = t.value
                        if isinstance(t, ast.Attribute) and isinstance(t.value, ast.Name) and t.value.id == "self" and t.attr in state:
                            return True
                for call in calls_in(n):
                    fn_txt = unparse(call.func)
                    if EXTERNAL_CONSUMERS.get(fn_txt) in state:
                        return True
                    if isinstance(call.func, ast.Attribute) and call.func.attr in CONSUMING_METHODS and isinstance(call.func.value, ast.Attribute) \
                            and isinstance(call.func.value.value, ast.Name) and call.func.value.value.id == "self" and call.func.value.attr in state:
                        return True
                return False
            consumers = [n for n in body if consumes(n)]
            if state and not consumers:
                # a read cursor: the loop only advances a local and the consumed prefix is cut off the buffer after the loop.
                # Unless that cut sits in a `finally`, a delivery that raises skips it: every frame handed up so far is still
                # in the buffer and is delivered again with the next chunk.
                body_ids_ = {n.id for n in body}
                after = [n for n in g.live if n.id not in body_ids_ and n is not loop and n.stmt is not None and n.kind == "stmt" and consumes(n)]
                in_finally = [n for n in after if n.tag == "exc" or any(isinstance(t, ast.Try) and any(n.stmt is x or any(n.stmt is y for y in ast.walk(x)) for x in t.finalbody) for t in ast.walk(f))]
                if after:
                    ctx.check("C12.drain", len(in_finally) == len(after) and bool(in_finally), where(m.relpath, qn, after[0].line), after[0].stmt,
                              "frames are delivered inside the loop but removed from self.%s only by this statement after it: when a delivery raises, the statement is skipped, the frames already handed up stay in the buffer and are delivered again with the next chunk - and the failing one is retried forever" % "/".join(state),
                              "the cut runs on every exit of the loop (finally)")
                    continue
            if not state or not consumers:
                ctx.undecided("C12.drain", w, loop.stmt, "cannot tell what the loop consumes (state read by the loop test: %s)" % state)
                continue
            for up in ups:
                own = up in consumers
                p = None if own else g.path(loop, lambda x, up=up: x is up, avoid=consumers, edge_ok=lambda a, b, k: k != "exc")
                ctx.check("C12.drain", p is None, where(m.relpath, qn, up.line), up.stmt,
                          "the element is delivered upward before it is removed from self.%s: if the delivery raises, the same element is delivered again on the next call and everything behind it is stuck (%s)" % ("/".join(state), fmt_path(p)),
                          "consumed from self.%s before (or while) it is delivered" % "/".join(state))
            handlers = [n for n in body if n.kind == "handler"]
            resumed = [(h, g.path(h, lambda x: x is loop)) for h in handlers]
            resumed = [(h, p) for h, p in resumed if p is not None]
            ctx.check("C12.drain", not resumed, w, loop.stmt,
                      "an exception handler inside the loop resumes it (%s): a failing call that did not consume its element makes the loop spin forever%s" %
                      (fmt_path(resumed[0][1]) if resumed else "", ""),
                      "no handler resumes the loop: a failure leaves it (%d handler(s) inside)" % len(handlers))
    n_loops += 1
    repo.consulted.add(_c05.FILE)
    _c05.drain_after_failure(ctx, "C12.drain")
    ctx.units["C12.delivery_loops"] = n_loops


def rule_recover(ctx):
    """after a failure the stack is usable again - two scenarios abstractly executed: (a) YowLayer.toLower with the lower
    layer raising: the layer's lock is free afterwards (whatever construct takes it: acquire/release, `with`, a decorator,
    a generator-based context manager); (b) the noise layer's flush with the layer above raising on a frame: the flush
    lock is free afterwards, and the NEXT flush on the same thread still drains the queue (no stale 'already flushing'
    marker)"""
    from . import c11, c04
    from ..absint import _Raise, C_NONE, flat_effects, NeedAtom
    repo = ctx.repo
    fn = repo.method("yowsup/layers/__init__.py", "YowLayer", "toLower")
    w = where("yowsup/layers/__init__.py", "YowLayer.toLower", fn.lineno)
    try:
        _s, end_f, r_f, lk = c11.run_tolower(repo, lower_raises=True)
    except NeedAtom as x:
        try:
            _s, end_f, r_f, lk = c11.run_tolower(repo, lower_raises=True, cell={x.atom: True})
        except NeedAtom:
            lk = None
    if lk is None:
        ctx.undecided("C12.rel", w, fn, "the layer's lock was not identified")
    else:
        ctx.check("C12.rel", end_f == 0 and r_f is not None, w, "self.lock after the lower layer raised",
                  "lock self.lock stays held on a exceptional exit: after the lower layer's send raised the lock is still held %s time(s)%s" % (end_f, "" if r_f else " (and the error was swallowed)"),
                  "released (and the error reported) when the lower layer raises")
    roles = c04.noise_roles(repo)
    ff = repo.method(c04.NOISE, c04.CN, roles["flush"])
    wf = where(c04.NOISE, c04.CN + "." + roles["flush"], ff.lineno)
    state = {"queued": 1, "fail": True}

    def qsize(itp, recv, a, k, env, d, e):
        return ("c", state["queued"])

    def empty(itp, recv, a, k, env, d, e):
        return ("c", state["queued"] == 0)

    def receive(itp, recv, a, k, env, d, e):
        state["queued"] -= 1
        return ("ext", "FRAME", [])
    hooks = {"ext:inq.qsize": qsize, "ext:inq.empty": empty, "method:receive": receive}
    it, layer, cls = c04._noise_layer(repo, roles, extra_hooks=hooks)
    del it.hooks["fn:" + roles["flush"]]
    up0 = it.hooks["method:toUpper"]

    def up(itp, recv, a, k, env, d, e):
        r = up0(itp, recv, a, k, env, d, e)
        if state["fail"]:
            raise _Raise(("ext", "HandlerError", []), "the layer above raises")
        return r
    it.hooks["method:toUpper"] = up
    lock = layer[1].fields.get(roles["lock"])
    results = []
    for fail in (True, False):
        state["queued"], state["fail"] = 1, fail
        it.effects[:] = []
        raised = None
        try:
            it.method_call(layer, roles["flush"], [], {}, {"@module": cls.module, "@owner": cls}, 0, None)
        except _Raise as r:
            raised = r.text
        except NeedAtom as x:
            ctx.undecided("C12.rel", wf, ff, "the flush function depends on a test the interpreter cannot decide: %s (C04.flush judges a try-lock)" % (x.atom,))
            return
        effs = list(flat_effects(it.effects))
        results.append((raised, len([e for e in effs if e[0] == "UP"]), c11.lock_balance(effs, lock) if lock is not None and lock[0] == "ext" else None, state["queued"]))
    (r1, up1, held1, _q1), (r2, up2, held2, q2) = results
    if lock is None or lock[0] != "ext":
        ctx.undecided("C12.rel", wf, ff, "the flush lock was not identified as a lock object")
        return
    ctx.check("C12.rel", r1 is not None and held1 == 0, wf, "flush lock after a delivery raised", "lock self.%s stays held on a exceptional exit (held %s time(s) after the layer above raised%s)" % (roles["lock"], held1, "" if r1 else "; the error was swallowed"),
              "released when the delivery raises")
    ctx.check("C12.drain", r2 is None and up2 == 1 and q2 == 0 and held2 == 0, wf, "the flush after a failed one still drains",
              "after a delivery raised, the next flush on the same thread delivers %d frame(s) and leaves %d queued: incoming frames are queued and never delivered (a stale 'already flushing' marker, or a lock that is still held)" % (up2, q2),
              "next flush delivers the queued frame")


def rule_nonce(ctx):
    """a send that fails BELOW the cipher: the noise layer's send hands the plaintext to the protocol object, which encrypts
    it (the cipher's nonce counter advances) and then writes the segment through the layer's stream callback; when that
    write fails (oversized frame refused by the segment layer, socket error) the error reaches the caller - but the
    nonce is spent, the peer never sees that frame, and every later frame of this connection is undecryptable for it.
    The stack is only 'usable afterwards' if the failure also ends the connection (a reconnect starts fresh counters).
    By abstract execution of send with the protocol's send answering as consonance does (encrypt, then the WRITE event)
    and the lower layer refusing the segment."""
    from ..absint import _Raise, C_NONE, flat_effects
    from . import c04
    repo = ctx.repo
    roles = c04.noise_roles(repo)
    cls = repo.cls(c04.NOISE, c04.CN)
    fn = repo.method(c04.NOISE, c04.CN, "send")
    w = where(c04.NOISE, c04.CN + ".send", fn.lineno)
    if not roles.get("stream_cb") or not roles.get("proto"):
        ctx.undecided("C12.nonce", w, "send", "the noise layer's parts were not identified")
        return
    box = {}

    def proto_send(itp, recv, a, k, env, d, e):
        if recv[0] == "obj" and recv[1].cls is None and "state" in recv[1].fields:
            itp.emit("CALL", "cipher.encrypt (nonce consumed)", list(a))
            itp.method_call(box["layer"], roles["stream_cb"], [c04._const_expr(itp, cls, "BlockingQueueSegmentedStream.EVENT_WRITE")], {}, {"@module": cls.module, "@owner": cls}, d + 1, None)
            return C_NONE
        return None

    def lower_refuses(itp, recv, a, k, env, d, e):
        if recv is box.get("layer") or (recv[0] == "obj" and box.get("layer") is not None and recv[1] is box["layer"][1]):
            itp.emit("DOWN", a[0] if a else C_NONE, {})
            raise _Raise(("ext", "ValueError", []), "ValueError: the lower layer refuses the segment")
        return None
    it, layer, _c = c04._noise_layer(repo, roles, extra_hooks={"method:send": proto_send})
    box["layer"] = layer
    it.hooks["method:toLower"] = lower_refuses
    raised = None
    try:
        it.call_function(fn, cls, layer, [("c", b"stanza bytes")], {}, depth=0)
    except _Raise as r:
        raised = r.text
    effs = list(flat_effects(it.effects))
    spent = [e for e in effs if e[0] == "CALL" and e[1].startswith("cipher.encrypt")]
    if not spent or raised is None:
        ctx.undecided("C12.nonce", w, "a write that fails after the cipher step", "scenario not reached (encrypt calls: %d, raised: %s)" % (len(spent), raised))
        return
    closes = [e for e in effs if (e[0] in ("BCAST", "EMIT") and "disconnect" in str(e[1]).lower()) or (e[0] == "CALL" and e[1].split(".")[-1] in ("disconnect", "reset"))]
    ctx.check("C12.nonce", bool(closes), w, "a write that fails after the cipher step ends the connection",
              "the error reaches the caller, but the cipher's nonce is spent and the frame never reached the peer: every later send on this connection returns normally, goes out and cannot be decrypted by the peer - only a reconnect heals it, and nothing asks for one",
              "the connection is torn down (fresh counters on the next one)")


def rule_write_history(ctx):
    """the noise layer's stream callback over a history of WRITE events in which the lower layer refuses the first
    segment: every event takes one segment from the stream and hands that one down - a refused segment is gone (C12.nonce
    says what that means for the connection), it must not be kept and put in front of the next sender's segment, which
    would leave every later send one segment behind for good"""
    from ..absint import _Raise, C_NONE, flat_effects, NeedAtom, Budget, DomainGrew
    from . import c04
    repo = ctx.repo
    roles = c04.noise_roles(repo)
    cls = repo.cls(c04.NOISE, c04.CN)
    if not roles.get("stream_cb") or not roles.get("stream"):
        ctx.undecided("C12.drain", where(c04.NOISE, c04.CN, None), "write events after a refused segment", "the noise layer's parts were not identified")
        return
    fn = repo.method(c04.NOISE, c04.CN, roles["stream_cb"])
    w = where(c04.NOISE, c04.CN + "." + roles["stream_cb"], fn.lineno)
    st = {"taken": 0, "down": [], "refuse": True}
    box = {}

    def get_segment(itp, recv, a, k, env, d, e):
        st["taken"] += 1
        return ("ext", "SEG%d" % st["taken"], [])

    def lower(itp, recv, a, k, env, d, e):
        st["down"].append(a[0] if a else C_NONE)
        if st["refuse"]:
            st["refuse"] = False
            raise _Raise(("ext", "ValueError", []), "ValueError: the lower layer refuses the segment")
        return C_NONE
    it, layer, _c = c04._noise_layer(repo, roles, extra_hooks={"ext:stream.get_write_segment": get_segment})
    it.hooks["method:toLower"] = lower
    ev = c04._const_expr(it, cls, "BlockingQueueSegmentedStream.EVENT_WRITE")
    outcomes = []
    try:
        for _i in range(3):
            try:
                it.method_call(layer, roles["stream_cb"], [ev], {}, {"@module": cls.module, "@owner": cls}, 0, None)
                outcomes.append("ok")
            except _Raise as r:
                outcomes.append("raised")
    except (NeedAtom, Budget, DomainGrew) as x:
        ctx.undecided("C12.drain", w, "write events after a refused segment", "could not be executed: %s" % (x,))
        return
    want = [("ext", "SEG%d" % i, []) for i in (1, 2, 3)]
    if st["taken"] == 0:
        ctx.undecided("C12.drain", w, "write events after a refused segment", "the callback never asked the stream for a segment")
        return
    shown = [v[1] if v[0] == "ext" else str(v)[:20] for v in st["down"]]
    ctx.check("C12.drain", st["down"] == want and outcomes == ["raised", "ok", "ok"] and st["taken"] == 3, w, "write events after a refused segment",
              "three write events, the lower layer refuses the first segment: handed down %s (outcomes %s, %d segment(s) taken from the stream) - every event must hand down the segment it takes from the stream; a kept segment goes out in place of the next sender's, whose own segment stays behind in the stream for good" % (shown, outcomes, st["taken"]),
              "each event hands down the segment it took: SEG1 (refused, error to the caller), SEG2, SEG3")


def run(ctx):
    ctx.guarded("C12.drain", rule_write_history, ctx)
    ctx.guarded("C12.rel", rule_rel, ctx)
    ctx.guarded("C12.rel", rule_recover, ctx)
    ctx.guarded("C12.drain", rule_drain, ctx)
    ctx.rule("C12.nonce", "a downward failure below the cipher step does not leave a connection whose counters disagree with the peer's", floor=1)
    ctx.guarded("C12.nonce", rule_nonce, ctx)
    from .c18 import rule_prim
    ctx.guarded("C12.order", rule_prim, ctx, "C12.order", ("detached",))
    # the codec objects serve every send / receive of the coder layer: a failed encode or decode leaves nothing behind
    from ..state import stateless_after_init
    ctx.rule("C12.clean", "encoder and decoder keep no per-call data in instance attributes", floor=2)
    for rel, cn in (("yowsup/layers/coder/encoder.py", "WriteEncoder"), ("yowsup/layers/coder/decoder.py", "ReadDecoder")):
        ctx.guarded("C12.clean", stateless_after_init, ctx, "C12.clean", ctx.repo.cls(rel, cn))
    from . import c12_order
    c12_order.run(ctx)
