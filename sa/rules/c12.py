"""C12 - a failure while sending or receiving does not wedge the stack.

C12.rel    every acquire() is followed by the matching release() on every path to every
           exit, exceptional exits included (each call may raise)
C12.order  lock-order graph over the resolved stack is acyclic; no chain re-acquires a held lock
C12.block  blocking get() without timeout (reported with C04.attempt)
"""
import ast

from ..cfg import CFG, fmt_path, walk_no_nested
from ..report import where
from ..repo import unparse

SCOPE_EXCLUDE = ("yowsup/demos/",)


def lock_calls(stmt, what):
    """lock expressions L for which `L.<what>()` occurs in this statement (not nested defs)"""
    out = []
    if stmt is None:
        return out
    roots = [stmt]
    if isinstance(stmt, (ast.If, ast.While)):
        roots = [stmt.test]
    elif isinstance(stmt, ast.For):
        roots = [stmt.iter]
    elif isinstance(stmt, (ast.With, ast.Try, ast.ExceptHandler, ast.FunctionDef, ast.ClassDef)):
        return out
    for r in roots:
        for n in walk_no_nested(r):
            if isinstance(n, ast.Call) and isinstance(n.func, ast.Attribute) and n.func.attr == what:
                out.append(unparse(n.func.value))
    return out


def iter_functions(repo, exclude=SCOPE_EXCLUDE):
    for m in repo.modules.values():
        if any(m.relpath.startswith(x) for x in exclude):
            continue
        for c in m.classes.values():
            for f in c.methods.values():
                yield m, c, f
        for f in m.functions.values():
            yield m, None, f


def rule_rel(ctx):
    ctx.rule("C12.rel", "every lock acquire() reaches the matching release() on every path to every exit, including exceptional ones", floor=4)
    for m, c, f in iter_functions(ctx.repo):
        has = False
        for n in ast.walk(f):
            if isinstance(n, ast.Call) and isinstance(n.func, ast.Attribute) and n.func.attr == "acquire":
                has = True
                break
        if not has:
            continue
        ctx.repo.consulted.add(m.relpath)
        g = CFG(f)
        qn = (c.name + "." if c else "") + f.name
        for n in g.stmt_nodes():
            for L in lock_calls(n.stmt, "acquire"):
                rel = [x for x in g.stmt_nodes() if L in lock_calls(x.stmt, "release")]
                ok, p = g.must_pass(n, rel, [g.exit, g.raise_exit],
                                    edge_ok=lambda a, b, k, n=n: not (a is n and k == "exc"))
                w = where(m.relpath, qn, n.line)
                if ok:
                    ctx.hold("C12.rel", w, "%s.acquire()" % L, "released on all %d path classes" % len(rel))
                else:
                    kind = "exceptional" if p[-1] is g.raise_exit else "normal"
                    ctx.violate("C12.rel", w, "%s.acquire()" % L,
                                "lock %s stays held on a %s exit: %s" % (L, kind, fmt_path(p)))


def run(ctx):
    rule_rel(ctx)
    from . import c12_order
    c12_order.run(ctx)
